#!/opt/veriftools/pyvenv/bin/python
"""Second opinion for internal/ref/oas: re-judge (schema, components, instance, verdict) triples written
by the C08 check with the python jsonschema Draft 4 validator after a mechanical rewrite of the
OpenAPI 3.0 keywords (nullable -> anyOf with null, $ref -> #/definitions/...). Prints one JSON line:
{"triples": n, "agree": a, "disagree": d, "skipped": s, "examples": [...]}.
Differences that are not disagreements about the same semantics are skipped and counted:
multipleOf (binary floating point there, exact decimals here), numbers beyond float precision,
`format` (not enforced by default there), integral floats such as 1.0 against type integer."""
import json, sys, glob, decimal
from jsonschema import Draft4Validator

def rewrite(s):
    if isinstance(s, list):
        return [rewrite(x) for x in s]
    if not isinstance(s, dict):
        return s
    out = {}
    for k, v in s.items():
        if k == "$ref" and isinstance(v, str):
            out[k] = v.replace("#/components/schemas/", "#/definitions/")
        elif k in ("properties",):
            out[k] = {pk: rewrite(pv) for pk, pv in v.items()}
        elif k in ("items", "additionalProperties", "not"):
            out[k] = rewrite(v) if isinstance(v, dict) else v
        elif k in ("allOf", "anyOf", "oneOf"):
            out[k] = [rewrite(x) for x in v]
        elif k in ("example", "nullable", "format"):
            continue
        else:
            out[k] = v
    if s.get("nullable") is True:
        return {"anyOf": [{"type": "null"}, out]}
    return out

def risky(x):
    """values the two validators cannot be expected to treat alike"""
    if isinstance(x, float):
        return True
    if isinstance(x, int) and not isinstance(x, bool) and abs(x) > 2**53:
        return True
    if isinstance(x, dict):
        return any(risky(v) for v in x.values())
    if isinstance(x, list):
        return any(risky(v) for v in x)
    return False

def has_kw(s, kw):
    if isinstance(s, dict):
        return kw in s or any(has_kw(v, kw) for v in s.values())
    if isinstance(s, list):
        return any(has_kw(v, kw) for v in s)
    return False

n = agree = disagree = skipped = 0
examples = []
for path in sys.argv[1:]:
    for line in open(path):
        try:
            t = json.loads(line, parse_float=decimal.Decimal)
            t = json.loads(line)
        except ValueError:
            continue
        n += 1
        schema, comps, inst, verdict = t["schema"], t["components"], t["instance"], t["valid"]
        if has_kw(schema, "format") or has_kw(comps, "format"):
            skipped += 1
            continue
        if has_kw(schema, "multipleOf") or has_kw(comps, "multipleOf") or risky(inst) or risky(schema) or risky(comps):
            skipped += 1
            continue
        root = rewrite(schema)
        root = dict(root) if isinstance(root, dict) else root
        full = {"definitions": {k: rewrite(v) for k, v in comps.items()}, "allOf": [root]}
        try:
            ok = Draft4Validator(full).is_valid(inst)
        except Exception as e:  # unresolvable ref, recursion limits ...
            skipped += 1
            continue
        if ok == verdict:
            agree += 1
        else:
            disagree += 1
            if len(examples) < 5:
                examples.append({"schema": schema, "instance": inst, "ours": verdict, "jsonschema": ok})
print(json.dumps({"triples": n, "agree": agree, "disagree": disagree, "skipped": skipped, "examples": examples}))
