#!/usr/bin/env python3
"""Sensitivity helper: apply one textual mutation to a scratch copy of /repo, optionally run the
repository's own suite there, run the given checks against the copy (VERIF_REPO) and remove it.

  tools/mutant.py <name> <file> <old> <new> <ID>[,<ID>...] [--suite] [--tier quick|thorough]
  tools/mutant.py --patch <patch.diff> <name> <ID>[,<ID>...] [--suite]
"""
import os, shutil, subprocess, sys, tempfile
ROOT = os.path.dirname(os.path.dirname(os.path.abspath(__file__)))
args = sys.argv[1:]
suite = "--suite" in args
if suite: args.remove("--suite")
tier = "quick"
if "--tier" in args:
    i = args.index("--tier"); tier = args[i+1]; del args[i:i+2]
patch = None
if args and args[0] == "--patch":
    patch, name, ids = args[1], args[2], args[3]
else:
    name, path, old, new, ids = args[:5]
scratch = tempfile.mkdtemp(prefix="mut-%s-" % name, dir="/tmp")
try:
    subprocess.check_call(["rsync", "-a", "--exclude", ".git", "/repo/", scratch + "/"])
    if patch:
        r = subprocess.run(["patch", "-p1", "-s", "-i", os.path.abspath(patch)], cwd=scratch)
        if r.returncode != 0:
            print("%s: PATCH DOES NOT APPLY" % name); sys.exit(3)
    else:
        p = os.path.join(scratch, path)
        s = open(p).read()
        if old not in s:
            print("%s: NOT APPLICABLE (text not found)" % name); sys.exit(3)
        open(p, "w").write(s.replace(old, new, 1))
    env = dict(os.environ, GOFLAGS="-mod=mod", GOPROXY="off", GOSUMDB="off", GOTOOLCHAIN="local")
    if subprocess.run(["go", "build", "./..."], cwd=scratch, env=env, stdout=subprocess.DEVNULL, stderr=subprocess.DEVNULL).returncode != 0:
        print("%s: DOES NOT COMPILE" % name); sys.exit(3)
    suite_res = ""
    if suite:
        r = subprocess.run([os.path.join(ROOT, "tools", "baseline.py"), scratch], stdout=subprocess.PIPE, text=True)
        suite_res = " [suite: %s]" % ("green" if r.returncode == 0 else "RED " + " ".join(l.strip() for l in r.stdout.splitlines()[1:3]))
    for pid in ids.split(","):
        e = dict(os.environ, VERIF_REPO=scratch)
        r = subprocess.run([os.path.join(ROOT, "check"), pid, tier], env=e, stdout=subprocess.PIPE, stderr=subprocess.PIPE, text=True)
        viol = [l for l in r.stdout.splitlines() if l.startswith("VIOLATION")]
        detail = [l.strip() for l in r.stderr.splitlines() if "sig=" in l][:3]
        verdict = {0: "SURVIVED", 1: "KILLED", 2: "INCONCLUSIVE"}.get(r.returncode, "exit %d" % r.returncode)
        print("%s%s %s %s: %s %s" % (name, suite_res, pid, tier, verdict, "; ".join(detail)))
        # the scratch run must not leave replays behind in /verif
        for l in viol:
            f = l.split("replay=")[1]
            if os.path.exists(f) and "/replays/" in f:
                os.remove(f)
finally:
    shutil.rmtree(scratch, ignore_errors=True)
