#!/usr/bin/env python3
"""Confirm a seeded change delivered by a sub-agent and run the checks against it.

  tools/seeded.py <ID> <k> [--checks C06,C02] [--tier quick|thorough] [--keep-anyway]

Reads /tmp/seeded/<ID>/<k>/{patch.diff, demo*, notes.md}. Confirms in scratch copies of /repo
(outside /repo and /verif) that the patch applies, compiles, leaves the pinned suite green, and that
the demonstration passes without and fails with the patch. Then runs the given checks (default: the
property's own) against the patched copy through VERIF_REPO and stores everything under
/verif/seeded/<ID>-<k>/ with a meta.json. The scratch copies are removed."""
import glob, json, os, re, shutil, subprocess, sys, tempfile
ROOT = os.path.dirname(os.path.dirname(os.path.abspath(__file__)))
ENV = dict(os.environ, GOFLAGS="-mod=mod", GOPROXY="off", GOSUMDB="off", GOTOOLCHAIN="local")
def trim_cache(limit_gb=40):
    """the go build cache only drops entries that are days old; hundreds of patched copies fill the disk"""
    try:
        d = subprocess.run(["go", "env", "GOCACHE"], env=ENV, stdout=subprocess.PIPE, text=True).stdout.strip()
        out = subprocess.run(["du", "-s", "-B1G", d], stdout=subprocess.PIPE, text=True).stdout.split()
        if out and int(out[0]) > limit_gb:
            subprocess.run(["go", "clean", "-cache"], env=ENV)
    except Exception:
        pass

trim_cache()

args = sys.argv[1:]
tier = "quick"
checks = None
if "--tier" in args:
    i = args.index("--tier"); tier = args[i + 1]; del args[i:i + 2]
if "--checks" in args:
    i = args.index("--checks"); checks = args[i + 1].split(","); del args[i:i + 2]
rnd = ""
if "--round" in args:
    i = args.index("--round"); rnd = args[i + 1]; del args[i:i + 2]
pid, k = args[0], args[1]
checks = checks or [pid]
src = "/tmp/seeded%s/%s/%s" % (rnd if rnd != "1" else "", pid, k)
dst = os.path.join(ROOT, "seeded", "%s-%s%s" % (pid, ("r%s-" % rnd) if rnd else "", k))
wt = "wt%s-%s" % (rnd if rnd and rnd != "1" else "", pid)
if not os.path.isdir(src) and os.path.isdir(dst):
    src = dst
patch = os.path.join(src, "patch.diff")
demos = [f for f in glob.glob(os.path.join(src, "demo*")) if os.path.isfile(f)] + glob.glob(os.path.join(src, "demo", "*.go"))
meta = {"property": pid, "k": int(k)}
head = ""
for d in demos:
    head += open(d, errors="replace").read(3000)
notes = open(os.path.join(src, "notes.md"), errors="replace").read() if os.path.exists(os.path.join(src, "notes.md")) else ""
# where does the demo go, how is it run
mp_ = re.search(r"//\s*PLACE:\s*(\S+)", head)
mr_ = re.search(r"//\s*RUN:\s*(go [^\n]+)", head)
m = re.search(r"(?:cp|copy to)\s+\S*?(demo\S*)\s+/tmp/%s/(\S+)" % wt, head + notes) or re.search(r"/tmp/%s/(\S+?_test\.go|\S+?main\.go)" % wt, head + notes)
place = None
if m:
    place = m.group(m.lastindex).strip("`'\",.;:)")
m2 = re.search(r"(go (?:test|run)[^\n`]*)", head + notes)
run = m2.group(1).strip() if m2 else None
if run:
    run = re.sub(r"/tmp/%s/?" % wt, "./", run)
if mp_ and mr_:
    place, run = mp_.group(1).strip(), mr_.group(1).strip()
if not place or not run:
    print("cannot work out demo placement/run from the header; place=%r run=%r" % (place, run)); sys.exit(2)
meta["demo_place"] = place
meta["demo_run"] = run

def scratch(patched):
    d = tempfile.mkdtemp(prefix="seed-%s-%s-" % (pid, k), dir="/tmp")
    subprocess.check_call(["rsync", "-a", "--exclude", ".git", "/repo/", d + "/"])
    if patched:
        r = subprocess.run(["patch", "-p1", "-s", "-i", patch], cwd=d, stdout=subprocess.PIPE, stderr=subprocess.STDOUT, text=True, errors="replace")
        if r.returncode != 0:
            print("PATCH DOES NOT APPLY:\n" + r.stdout); shutil.rmtree(d); sys.exit(3)
    for f in demos:
        target = os.path.join(d, place) if len(demos) == 1 else os.path.join(d, os.path.dirname(place), os.path.basename(f))
        os.makedirs(os.path.dirname(target), exist_ok=True)
        shutil.copy(f, target)
    return d

def demo(d):
    r = subprocess.run(run, shell=True, cwd=d, env=ENV, stdout=subprocess.PIPE, stderr=subprocess.STDOUT, text=True, errors="replace", timeout=900)
    return r.returncode, r.stdout[-1500:]

a = scratch(False); b = scratch(True)
try:
    rc_a, out_a = demo(a)
    rc_b, out_b = demo(b)
    meta["demo_without_patch"] = "passes" if rc_a == 0 else "FAILS"
    meta["demo_with_patch"] = "fails" if rc_b != 0 else "PASSES"
    # suite on the patched copy (demo file removed first)
    for f in demos:
        t = os.path.join(b, place) if len(demos) == 1 else os.path.join(b, os.path.dirname(place), os.path.basename(f))
        if os.path.exists(t): os.remove(t)
    build = subprocess.run(["go", "build", "./..."], cwd=b, env=ENV, stdout=subprocess.PIPE, stderr=subprocess.STDOUT, text=True, errors="replace")
    meta["compiles"] = build.returncode == 0
    r = subprocess.run([os.path.join(ROOT, "tools", "baseline.py"), b], stdout=subprocess.PIPE, text=True, errors="replace")
    meta["suite"] = "green" if r.returncode == 0 else "RED: " + " | ".join(l.strip() for l in r.stdout.splitlines()[1:4])
    confirmed = rc_a == 0 and rc_b != 0 and meta["compiles"] and r.returncode == 0
    meta["confirmed"] = confirmed
    print("%s-%s: demo without=%s with=%s suite=%s => %s" % (pid, k, meta["demo_without_patch"], meta["demo_with_patch"], meta["suite"], "CONFIRMED" if confirmed else "NOT CONFIRMED"))
    if not confirmed:
        print(out_a[-600:] if rc_a != 0 else out_b[-600:])
    results = {}
    if confirmed or "--keep-anyway" in sys.argv:
        for c in checks:
            e = dict(os.environ, VERIF_REPO=b)
            rr = subprocess.run([os.path.join(ROOT, "check"), c, tier], env=e, stdout=subprocess.PIPE, stderr=subprocess.PIPE, text=True, errors="replace")
            sigs = [l.strip() for l in rr.stderr.splitlines() if "sig=" in l][:4]
            viol = [l for l in rr.stdout.splitlines() if l.startswith("VIOLATION")]
            for l in viol:
                f = l.split("replay=")[1]
                if os.path.exists(f) and "/replays/" in f: os.remove(f)
            verdict = {0: "missed", 1: "caught", 2: "inconclusive"}.get(rr.returncode, "exit %d" % rr.returncode)
            results[c + ":" + tier] = {"verdict": verdict, "signatures": sigs}
            print("   %s %s: %s %s" % (c, tier, verdict.upper(), "; ".join(sigs)[:300]))
            if rr.returncode not in (0, 1):
                print((rr.stdout[-800:] + rr.stderr[-1500:]))
        os.makedirs(dst, exist_ok=True)
        if os.path.abspath(src) != os.path.abspath(dst):
            shutil.copy(patch, os.path.join(dst, "patch.diff"))
            for f in demos: shutil.copy(f, os.path.join(dst, os.path.basename(f)))
            if notes: open(os.path.join(dst, "notes.md"), "w").write(notes)
        old = {}
        mp = os.path.join(dst, "meta.json")
        if os.path.exists(mp):
            old = json.load(open(mp))
        res = old.get("checks", {}); res.update(results)
        meta["checks"] = res
        meta["breaks"] = pid
        meta["needs_to_manifest"] = (re.search(r"(?is)(?:needed|need|trigger|manifest)[^\n]*\n(.{0,600})", notes) or [None, ""])[1].strip()[:600]
        meta["what_was_run"] = ["patch -p1 < patch.diff in a scratch copy of /repo", "go build ./...", "tools/baseline.py <copy> (pinned suite vs BASELINE.json)", meta["demo_run"] + " (without and with the patch)"] + ["VERIF_REPO=<copy> ./check %s %s" % (c, tier) for c in checks]
        json.dump(meta, open(mp, "w"), indent=1)
finally:
    shutil.rmtree(a, ignore_errors=True); shutil.rmtree(b, ignore_errors=True)
