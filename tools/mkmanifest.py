#!/usr/bin/env python3
"""Regenerate MANIFEST.json from props/props.json (claimed properties) and properties.jsonl."""
import json, os
ROOT = os.path.dirname(os.path.dirname(os.path.abspath(__file__)))
props = json.load(open(os.path.join(ROOT, "props", "props.json")))
allp = [json.loads(l) for l in open(os.path.join(ROOT, "properties.jsonl"))]
hooks = json.load(open(os.path.join(ROOT, "tools", "hooks.json")))
na_reasons = json.load(open(os.path.join(ROOT, "tools", "not_applicable.json")))
checks = []
for p in allp:
    pid = p["id"]
    if pid not in props:
        continue
    c = props[pid]
    checks.append({
        "property_id": pid,
        "quick_cmd": "./check %s quick" % pid,
        "thorough_cmd": "./check %s thorough" % pid,
        "evidence_file": "/verif/evidence/%s.json" % pid,
        "replay_cmd_template": "./check %s --replay {path}" % pid,
        "engine": "rapid+enumerators",
        "level_claimed": {"category": "exploration", "text": c["level_text"], "design_ref": "DESIGN.md section 4, " + pid},
        "level_note": c["level_note"],
        "technique": c["technique"],
    })
na = [{"property_id": p["id"], "reason": na_reasons.get(p["id"], "check not built yet (work in progress)")}
      for p in allp if p["id"] not in props]
m = {
    "version": 1,
    "setup_cmd": "./check --setup",
    "hooks": hooks,
    "engines": [{"name": "rapid+enumerators", "path": "/verif/check",
                 "serves_properties": sorted(props),
                 "kind_free_text": "property-based testing (pgregory.net/rapid v1.3.0), bounded-exhaustive shortlex enumerators, native go fuzzing in the thorough tier; explicit oracles = independent reference models, differential, round-trip and metamorphic relations"}],
    "checks": checks,
    "not_applicable": na,
    "notes": "All checks rebuild from /repo's working tree with -tags verif. VERIF_SEED selects the PRNG values; known findings are listed in /verif/KNOWN_FINDINGS.txt.",
}
json.dump(m, open(os.path.join(ROOT, "MANIFEST.json"), "w"), indent=1)
print("claimed:", len(checks), "not_applicable:", len(na))
