#!/usr/bin/env python3
"""Write hand-made regression cases (the defects found while reading the code, DESIGN.md section 1.1)
in replay format under regress/<ID>/ so that the seconds-long replay tier re-judges them on every run."""
import json, os, hashlib
ROOT = os.path.dirname(os.path.dirname(os.path.abspath(__file__)))
def put(pid, check, name, case):
    d = os.path.join(ROOT, "regress", pid); os.makedirs(d, exist_ok=True)
    json.dump({"property": pid, "check": check, "sig": "regression:" + name, "detail": "hand-written regression case", "case": case},
              open(os.path.join(d, "hand-%s.json" % name), "w"), indent=1)
def proj(root, types=None, rules=None, self_=False):
    p = {"root": root}
    if types: p["types"] = [{"name": n, "text": t} for n, t in types]
    if rules: p["rules"] = [{"name": n, "text": t} for n, t in rules]
    if self_: p["self"] = True
    return p
# C02
for i, t in enumerate(["1 /* x *", "{} ##", "##", "@a |", "\"\" // {type: \"\"}", "", " ", "# c", "1 // {or: [{type: \"enum\", enum: [1,2]}, {type: \"string\"}]}",
                       "{ // {additionalProperties: \"decimal\"}\n}", "{ // {additionalProperties: \"enum\"}\n}", "{ // {additionalProperties: \"mixed\"}\n}", "#{{"]):
    put("C02", "tokens", "schema-%02d" % i, {"entry": "all", "text": t})
put("C02", "tokens", "enum-unterminated", {"entry": "enum", "text": "[1] /* x *"})
put("C02", "tokens", "enum-len", {"entry": "enum", "text": "[1] /*00"})
put("C02", "tokens", "regex-empty", {"entry": "regex", "text": ""})
put("C02", "numbers", "number-wrap", {"entry": "number", "text": "1e18446744073709551617"})
put("C02", "projects", "choice-naming-itself", {"entry": "project", "project": proj("{@a: 1}", [("@a", "@a | @b")])})
put("C02", "projects", "choice-naming-itself-2", {"entry": "project", "project": proj("{@a: 1}", [("@a", "@b | @a"), ("@b", "@a | @b")])})
put("C02", "projects", "empty-type", {"entry": "project", "project": proj("1 // {or: [\"@s0\", \"integer\"]}", [("@s0", "")])})
# C16
for i, t in enumerate(["\"\" // {type: \"\"}", "1 /* x *", "{} ##", "##", "@a |", "1 /* {enum: [ // c\n 1]} */", " */"]):
    put("C16", "tokens", "schema-%02d" % i, {"entry": "schema", "project": proj(t)})
put("C16", "tokens", "regex-leading-blank", {"entry": "regex", "text": " */"})
put("C16", "mutations", "error-in-type", {"entry": "schema", "project": proj("{\n  \"a\": @t\n}", [("@t", "{\n  \"k\": [\n    1 // {min: 2}\n  ]\n}")])})
put("C16", "mutations", "error-in-unnamed-type", {"entry": "schema", "project": proj("@t2", [("@t0", "1"), ("@t2", "[\n  [\n  1,\n   2,\n   3,\n                        @t0 | @t1\n  ]\n]")])})
put("C16", "mutations", "type-does-not-load", {"entry": "schema", "project": proj("@t", [("@t", "1 // {unknownRule: 1}")])})
print("written")
