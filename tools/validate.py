#!/opt/veriftools/pyvenv/bin/python
import json, glob, sys, jsonschema
ok = True
try:
    jsonschema.validate(json.load(open('/verif/MANIFEST.json')), json.load(open('/root/.vp/MANIFEST.schema.json')))
except Exception as e:
    ok = False; print("MANIFEST invalid:", str(e)[:500])
es = json.load(open('/root/.vp/EVIDENCE.schema.json'))
for f in sorted(glob.glob('/verif/evidence/*.json')):
    try:
        jsonschema.validate(json.load(open(f)), es)
    except Exception as e:
        ok = False; print(f, "invalid:", str(e)[:500])
print("valid" if ok else "INVALID")
sys.exit(0 if ok else 1)
