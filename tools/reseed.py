#!/usr/bin/env python3
"""Re-run the checks against every kept seeded change (seeded/<id>/patch.diff) and print a table.

  tools/reseed.py [--only REGEX] [--seeds 1,2,3] [--tier quick] [--jobs N] [--write]

For each change: scratch copy of /repo (outside /repo and /verif), patch -p1, go build, then
VERIF_REPO=<copy> ./check <ID> <tier> for the property the change breaks and for the extra checks named in
meta.json ("also": [...]), once per VERIF_SEED. With --write the verdicts are stored in meta.json under
"recheck". The scratch copies are removed."""
import glob, json, os, re, shutil, subprocess, sys, tempfile
from concurrent.futures import ThreadPoolExecutor
ROOT = os.path.dirname(os.path.dirname(os.path.abspath(__file__)))
ENV = dict(os.environ, GOFLAGS="-mod=mod", GOPROXY="off", GOSUMDB="off", GOTOOLCHAIN="local")
def trim_cache(limit_gb=40):
    """the go build cache only drops entries that are days old; hundreds of patched copies fill the disk"""
    try:
        d = subprocess.run(["go", "env", "GOCACHE"], env=ENV, stdout=subprocess.PIPE, text=True).stdout.strip()
        out = subprocess.run(["du", "-s", "-B1G", d], stdout=subprocess.PIPE, text=True).stdout.split()
        if out and int(out[0]) > limit_gb:
            subprocess.run(["go", "clean", "-cache"], env=ENV)
    except Exception:
        pass

trim_cache()

args = sys.argv[1:]
def opt(name, default=None):
    if name in args:
        i = args.index(name); v = args[i + 1]; del args[i:i + 2]; return v
    return default
only = opt("--only"); seeds = opt("--seeds", "1").split(","); tier = opt("--tier", "quick"); jobs = int(opt("--jobs", "3"))
write = "--write" in args

def one(d):
    sid = os.path.basename(d)
    meta = json.load(open(os.path.join(d, "meta.json")))
    if not meta.get("confirmed"):
        return sid, "not-confirmed", {}
    scratch = tempfile.mkdtemp(prefix="rs-%s-" % sid, dir="/tmp")
    try:
        subprocess.check_call(["rsync", "-a", "--exclude", ".git", "/repo/", scratch + "/"])
        r = subprocess.run(["patch", "-p1", "-s", "-i", os.path.join(d, "patch.diff")], cwd=scratch, stdout=subprocess.PIPE, stderr=subprocess.STDOUT, text=True)
        if r.returncode != 0:
            return sid, "PATCH-DOES-NOT-APPLY", {}
        if subprocess.run(["go", "build", "./..."], cwd=scratch, env=ENV, stdout=subprocess.DEVNULL, stderr=subprocess.DEVNULL).returncode != 0:
            return sid, "DOES-NOT-COMPILE", {}
        res = {}
        checks = [meta.get("breaks") or meta["property"]] + [c for c in meta.get("also", [])]
        for c in checks:
            for sd in seeds:
                e = dict(os.environ, VERIF_REPO=scratch, VERIF_SEED=sd)
                rr = subprocess.run([os.path.join(ROOT, "check"), c, tier], env=e, stdout=subprocess.PIPE, stderr=subprocess.PIPE, text=True, errors="replace")
                res["%s:%s:seed%s" % (c, tier, sd)] = {0: "missed", 1: "caught", 2: "inconclusive"}.get(rr.returncode, "exit %d" % rr.returncode)
        own = [v for k, v in res.items() if k.startswith(checks[0] + ":")]
        anyc = [v for v in res.values()]
        verdict = "caught" if all(v == "caught" for v in own) else ("caught-by-other" if "caught" in anyc and all(
            any(res.get("%s:%s:seed%s" % (c, tier, sd)) == "caught" for c in checks) for sd in seeds) else ("partly" if "caught" in anyc else "MISSED"))
        if write:
            meta["recheck"] = res
            json.dump(meta, open(os.path.join(d, "meta.json"), "w"), indent=1)
        return sid, verdict, res
    finally:
        shutil.rmtree(scratch, ignore_errors=True)
        tag6 = __import__("hashlib").sha1(os.path.realpath(scratch).encode()).hexdigest()[:6]
        for f in glob.glob(os.path.join(ROOT, ".bin", "*-%s*" % tag6)):
            os.remove(f)

dirs = sorted(d for d in glob.glob(os.path.join(ROOT, "seeded", "C*")) if os.path.isdir(d) and (not only or re.search(only, os.path.basename(d))))
with ThreadPoolExecutor(jobs) as ex:
    for sid, verdict, res in ex.map(one, dirs):
        print("%-12s %-22s %s" % (sid, verdict, " ".join("%s=%s" % (k, v) for k, v in sorted(res.items()))), flush=True)
