#!/bin/sh
# Long native fuzz campaigns (background search, not a registered check): tools/fuzzlong.sh <seconds> [pkg:Target ...]
# Crashers stay under props/<pkg>/testdata/fuzz/<Target>/ of the tree the script runs in; re-judge one with
#   ./check <ID> --replay <file renamed to fuzz-<Target>-<name>>
export GOFLAGS=-mod=mod GOPROXY=off GOSUMDB=off GOTOOLCHAIN=local VERIF_TIER=thorough VERIF_FUZZ=1
cd "$(dirname "$0")/.." || exit 2
export VERIF_ROOT="$(pwd)" VERIF_KNOWN="$(pwd)/KNOWN_FINDINGS.txt"
secs=${1:-300}; shift
targets="$*"
[ -z "$targets" ] && targets="c16:FuzzDiagnostics c15:FuzzLen c14:FuzzLayout c17:FuzzEnumRule c12:FuzzDocument c18:FuzzRegexSchema c13:FuzzNumber c03:FuzzPlainJSON c20:FuzzGuess c19:FuzzContainers c02:FuzzSchema c02:FuzzProject c02:FuzzEnum c02:FuzzJSONDoc"
for pt in $targets; do
  p=${pt%%:*}; t=${pt##*:}
  echo "== $p $t ${secs}s"
  go test -tags verif -vet=off ./props/$p -run '^$' -fuzz "^$t\$" -fuzztime ${secs}s -test.fuzzcachedir=/tmp/fuzzlong-$p-$t 2>&1 | grep -v "^fuzz: elapsed" | tail -12 | cut -c1-1500
  echo "   execs: $(ls /tmp/fuzzlong-$p-$t/* 2>/dev/null | wc -l) corpus files"
done
