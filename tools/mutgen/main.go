// mutgen lists small source mutations of Go files, one JSON object per line:
//
//	{"file": "...", "off": <byte offset>, "len": <bytes replaced>, "new": "...", "op": "...", "line": N, "old": "..."}
//
// It is a sensitivity tool (see tools/mutsweep.py): the mutations are applied one at a time to scratch
// copies of the library, never to /repo. Offsets come from go/ast, so string literals and comments
// are never touched.
package main

import (
	"encoding/json"
	"fmt"
	"go/ast"
	"go/parser"
	"go/token"
	"os"
	"strconv"
	"strings"
)

type mutant struct {
	File string `json:"file"`
	Off  int    `json:"off"`
	Len  int    `json:"len"`
	New  string `json:"new"`
	Op   string `json:"op"`
	Line int    `json:"line"`
	Old  string `json:"old"`
	Func string `json:"func"`
}

var binSwap = map[token.Token][]token.Token{
	token.EQL:  {token.NEQ},
	token.NEQ:  {token.EQL},
	token.LSS:  {token.LEQ, token.GTR},
	token.LEQ:  {token.LSS},
	token.GTR:  {token.GEQ, token.LSS},
	token.GEQ:  {token.GTR},
	token.LAND: {token.LOR},
	token.LOR:  {token.LAND},
	token.ADD:  {token.SUB},
	token.SUB:  {token.ADD},
}

func main() {
	enc := json.NewEncoder(os.Stdout)
	for _, path := range os.Args[1:] {
		src, err := os.ReadFile(path)
		if err != nil {
			fmt.Fprintln(os.Stderr, err)
			os.Exit(2)
		}
		fset := token.NewFileSet()
		f, err := parser.ParseFile(fset, path, src, parser.ParseComments)
		if err != nil {
			fmt.Fprintln(os.Stderr, err)
			os.Exit(2)
		}
		emit := func(pos, end token.Pos, nw, op, fn string) {
			o, e := fset.Position(pos).Offset, fset.Position(end).Offset
			if o < 0 || e > len(src) || e < o {
				return
			}
			old := string(src[o:e])
			if old == nw {
				return
			}
			if len(old) > 120 {
				old = old[:120] + "..."
			}
			_ = enc.Encode(mutant{File: path, Off: o, Len: e - o, New: nw, Op: op, Line: fset.Position(pos).Line, Old: old, Func: fn})
		}
		for _, d := range f.Decls {
			fd, ok := d.(*ast.FuncDecl)
			if !ok || fd.Body == nil {
				continue
			}
			fn := fd.Name.Name
			if fd.Recv != nil && len(fd.Recv.List) == 1 {
				fn = typeName(fd.Recv.List[0].Type) + "." + fn
			}
			ast.Inspect(fd.Body, func(n ast.Node) bool {
				switch x := n.(type) {
				case *ast.BinaryExpr:
					if isStringConcat(x) {
						return true
					}
					for _, t := range binSwap[x.Op] {
						emit(x.OpPos, x.OpPos+token.Pos(len(x.Op.String())), t.String(), "binop:"+x.Op.String()+"->"+t.String(), fn)
					}
				case *ast.UnaryExpr:
					if x.Op == token.NOT {
						emit(x.OpPos, x.OpPos+1, "", "drop-not", fn)
					}
				case *ast.BasicLit:
					if x.Kind == token.INT {
						if v, err := strconv.ParseInt(x.Value, 0, 64); err == nil && v >= 0 && v < 1000 {
							emit(x.Pos(), x.End(), strconv.FormatInt(v+1, 10), "int+1", fn)
							if v > 0 {
								emit(x.Pos(), x.End(), strconv.FormatInt(v-1, 10), "int-1", fn)
							}
						}
					}
				case *ast.Ident:
					if x.Name == "true" && x.Obj == nil {
						emit(x.Pos(), x.End(), "false", "true->false", fn)
					} else if x.Name == "false" && x.Obj == nil {
						emit(x.Pos(), x.End(), "true", "false->true", fn)
					}
				case *ast.IfStmt:
					if x.Init == nil {
						emit(x.Cond.Pos(), x.Cond.End(), "true", "if-true", fn)
						emit(x.Cond.Pos(), x.Cond.End(), "false", "if-false", fn)
					}
				case *ast.BranchStmt:
					if x.Label == nil {
						switch x.Tok {
						case token.BREAK:
							emit(x.Pos(), x.End(), "continue", "break->continue", fn)
						case token.CONTINUE:
							emit(x.Pos(), x.End(), "break", "continue->break", fn)
						}
					}
				case *ast.CaseClause:
					if len(x.List) > 1 {
						// drop the last expression of a multi-value case
						prev := x.List[len(x.List)-2]
						last := x.List[len(x.List)-1]
						emit(prev.End(), last.End(), "", "case-drop-last", fn)
						emit(x.List[0].Pos(), x.List[1].Pos(), "", "case-drop-first", fn)
					}
				case *ast.BlockStmt:
					for _, s := range x.List {
						stmtMutants(s, emit, fn)
					}
				}
				return true
			})
			// clause bodies are not BlockStmts
			ast.Inspect(fd.Body, func(n ast.Node) bool {
				switch x := n.(type) {
				case *ast.CaseClause:
					for _, s := range x.Body {
						stmtMutants(s, emit, fn)
					}
				case *ast.CommClause:
					for _, s := range x.Body {
						stmtMutants(s, emit, fn)
					}
				}
				return true
			})
		}
	}
}

func stmtMutants(s ast.Stmt, emit func(pos, end token.Pos, nw, op, fn string), fn string) {
	switch x := s.(type) {
	case *ast.ExprStmt:
		if _, ok := x.X.(*ast.CallExpr); ok {
			emit(x.Pos(), x.End(), "", "del-call", fn)
		}
	case *ast.AssignStmt:
		if x.Tok != token.DEFINE {
			emit(x.Pos(), x.End(), "", "del-assign", fn)
		}
	case *ast.IncDecStmt:
		emit(x.Pos(), x.End(), "", "del-incdec", fn)
	case *ast.DeferStmt:
		emit(x.Pos(), x.End(), "", "del-defer", fn)
	case *ast.ReturnStmt:
		if len(x.Results) == 1 {
			if id, ok := x.Results[0].(*ast.Ident); ok && (id.Name == "true" || id.Name == "false") {
				return // covered by true<->false
			}
		}
	}
}

func isStringConcat(x *ast.BinaryExpr) bool {
	if x.Op != token.ADD {
		return false
	}
	var has func(e ast.Expr) bool
	has = func(e ast.Expr) bool {
		switch y := e.(type) {
		case *ast.BasicLit:
			return y.Kind == token.STRING || y.Kind == token.CHAR
		case *ast.BinaryExpr:
			return has(y.X) || has(y.Y)
		case *ast.ParenExpr:
			return has(y.X)
		case *ast.CallExpr:
			if s, ok := y.Fun.(*ast.SelectorExpr); ok {
				n := s.Sel.Name
				return n == "String" || n == "Error" || strings.HasPrefix(n, "Sprint")
			}
			if id, ok := y.Fun.(*ast.Ident); ok {
				return id.Name == "string"
			}
		}
		return false
	}
	return has(x.X) || has(x.Y)
}

func typeName(e ast.Expr) string {
	switch x := e.(type) {
	case *ast.StarExpr:
		return typeName(x.X)
	case *ast.Ident:
		return x.Name
	case *ast.IndexExpr:
		return typeName(x.X)
	}
	return "?"
}
