#!/usr/bin/env python3
"""Automated sensitivity sweep: many small source mutations of the library, each applied to a scratch
copy (never to /repo), filtered by the library's own pinned suite, then judged by the quick tier of the
checks of the properties the mutated file is anchored in.

  tools/mutsweep.py stage1 [--files <regex>] [--workers N] [--out DIR] [--limit N] [--sample K]
        build + pinned suite for every mutant; writes DIR/stage1.jsonl
        (status: nocompile | suite-red | suite-hang | suite-green)
  tools/mutsweep.py stage2 [--out DIR] [--workers N] [--per-func K] [--ids C01,C13] [--all-checks]
        for every suite-green mutant of stage 1 (at most K per function, chosen by a fixed hash order):
        VERIF_REPO=<copy> ./check <ID> quick for the mapped properties until one reports a violation;
        writes DIR/stage2.jsonl (verdict: killed:<ID> | survived | inconclusive)
  tools/mutsweep.py report [--out DIR]
        kill table per property / file and the list of survivors

Both stages are resumable (mutants already in the output file are skipped). The mutations come from
tools/mutgen (go/ast based: relational / logical / arithmetic operator swaps, dropped negation, integer
literal +-1, true<->false, forced if-conditions, deleted call / assignment / defer / inc-dec statements,
break<->continue, dropped case values)."""
import collections, hashlib, json, os, re, shutil, subprocess, sys, tempfile, time
from concurrent.futures import ThreadPoolExecutor

ROOT = os.path.dirname(os.path.dirname(os.path.abspath(__file__)))
REPO = "/repo"
BASE = None  # private snapshot of /repo's working tree taken when the run starts (edits to /repo do not disturb a sweep)


def base():
    global BASE
    if BASE is None:
        BASE = tempfile.mkdtemp(prefix="ms-base-", dir="/tmp")
        subprocess.check_call(["rsync", "-a", "--exclude", ".git", REPO + "/", BASE + "/"])
        import atexit
        atexit.register(lambda: shutil.rmtree(BASE, ignore_errors=True))
    return BASE
# a build cache of its own: every mutant adds hundreds of megabytes of objects that nothing reuses, and the
# go tool only trims entries that are days old - the cache is wiped whenever it exceeds CACHE_LIMIT_GB
GOCACHE = "/tmp/ms-gocache"
CACHE_LIMIT_GB = 25
ENV = dict(os.environ, GOFLAGS="-mod=mod", GOPROXY="off", GOSUMDB="off", GOTOOLCHAIN="local", GOCACHE=GOCACHE)
os.environ["GOCACHE"] = GOCACHE  # also for the ./check runs of stage 2


def trim_cache():
    try:
        out = subprocess.run(["du", "-s", "-B1G", GOCACHE], stdout=subprocess.PIPE, text=True).stdout.split()
        if out and int(out[0]) > CACHE_LIMIT_GB:
            subprocess.run(["go", "clean", "-cache"], env=ENV, stdout=subprocess.DEVNULL, stderr=subprocess.DEVNULL)
            print("build cache wiped (%s GB)" % out[0], flush=True)
    except Exception as e:
        print("trim_cache:", e, flush=True)
SKIP = re.compile(r"(_test\.go$|_string\.go$|^internal/cmd/|^test/|/mocks/|^notations/jschema/internal/mocks)")

# properties for files that no property names as an anchor, by directory (first match wins)
DIRMAP = [
    (r"^notations/jschema/ischema/constraint/", ["C01", "C04", "C08"]),
    (r"^openapi/internal/jsoac/", ["C08", "C10"]),
    (r"^openapi/internal/rsoac/", ["C18"]),
    (r"^openapi/", ["C08", "C07"]),
    (r"^notations/jschema/loader/", ["C04", "C01", "C14", "C10"]),
    (r"^notations/jschema/scanner/", ["C14", "C15", "C16", "C03"]),
    (r"^notations/jschema/checker/", ["C01", "C05", "C06"]),
    (r"^notations/jschema/ischema/", ["C04", "C01", "C07"]),
    (r"^notations/jschema/", ["C04", "C03", "C08", "C05"]),
    (r"^notations/regex/", ["C18"]),
    (r"^rules/enum/", ["C17"]),
    (r"^formats/json/", ["C12"]),
    (r"^json/", ["C13", "C20", "C01"]),
    (r"^bytes/", ["C03", "C13", "C14", "C04"]),
    (r"^(kit|errs)/", ["C16", "C09"]),
    (r"^lexeme/", ["C12", "C16"]),
    (r"^fs/", ["C16", "C15"]),
    (r"^(panics|reader)/", ["C16", "C02"]),
    (r"^internal/", ["C10", "C11", "C12"]),
    (r"^[^/]+\.go$", ["C20", "C19", "C04"]),
]
# cheap checks first, so that the common case ends early
COST = {"C20": 1, "C03": 2, "C13": 2, "C17": 3, "C18": 3, "C08": 3, "C09": 3, "C04": 4, "C14": 4, "C15": 4,
        "C16": 4, "C01": 4, "C11": 5, "C07": 6, "C05": 8, "C19": 10, "C02": 16, "C12": 18, "C06": 26, "C10": 33}


def anchors():
    m = collections.defaultdict(list)
    for line in open(os.path.join(ROOT, "properties.jsonl")):
        p = json.loads(line)
        for f in p["anchors"]["files"]:
            m[f].append(p["id"])
    return m


ANCH = anchors()


def props_for(path):
    ids = list(ANCH.get(path, []))
    for rx, extra in DIRMAP:
        if re.search(rx, path):
            for e in extra:
                if e not in ids:
                    ids.append(e)
            break
    # the compiler, the node tree and the checker are behind most of the schema properties
    if re.search(r"^notations/jschema/(loader|ischema|checker)/|^notations/jschema/[^/]+\.go$", path):
        for e in ["C01", "C04", "C07", "C08"]:
            if e not in ids:
                ids.append(e)
    return sorted(ids, key=lambda i: COST.get(i, 9))


def opt(args, name, default=None):
    if name in args:
        i = args.index(name)
        v = args[i + 1]
        del args[i:i + 2]
        return v
    return default


def mutgen_bin():
    out = os.path.join(ROOT, ".bin", "mutgen")
    os.makedirs(os.path.dirname(out), exist_ok=True)
    subprocess.check_call(["go", "build", "-o", out, "./tools/mutgen"], cwd=ROOT, env=ENV)
    return out


def all_mutants(files_rx):
    files = subprocess.check_output(["git", "ls-files", "*.go"], cwd=REPO, text=True).split()
    files = [f for f in files if not SKIP.search(f) and (not files_rx or re.search(files_rx, f)) and os.path.exists(os.path.join(base(), f))]
    out = subprocess.check_output([mutgen_bin()] + files, cwd=base(), text=True)
    res = []
    fh = {}
    for line in out.splitlines():
        m = json.loads(line)
        if m["file"] not in fh:
            fh[m["file"]] = hashlib.sha1(open(os.path.join(base(), m["file"]), "rb").read()).hexdigest()[:10]
        # the id names the mutation of this very file content: results survive edits to other files only
        m["id"] = hashlib.sha1(("%s:%s:%d:%d:%s" % (m["file"], fh[m["file"]], m["off"], m["len"], m["new"])).encode()).hexdigest()[:12]
        res.append(m)
    return res


def scratch_copy(m):
    d = tempfile.mkdtemp(prefix="ms-%s-" % m["id"], dir="/tmp")
    subprocess.check_call(["rsync", "-a", base() + "/", d + "/"])
    p = os.path.join(d, m["file"])
    s = open(p, "rb").read()
    s = s[:m["off"]] + m["new"].encode() + s[m["off"] + m["len"]:]
    open(p, "wb").write(s)
    return d


def cleanup(d):
    shutil.rmtree(d, ignore_errors=True)
    tag6 = hashlib.sha1(os.path.realpath(d).encode()).hexdigest()[:6]
    tag10 = hashlib.sha1(d.encode()).hexdigest()[:10]
    for f in os.listdir(os.path.join(ROOT, ".bin")) if os.path.isdir(os.path.join(ROOT, ".bin")) else []:
        if "-%s" % tag6 in f:
            try:
                os.remove(os.path.join(ROOT, ".bin", f))
            except OSError:
                pass
    w = os.path.join(ROOT, ".work")
    for f in os.listdir(w) if os.path.isdir(w) else []:
        if tag10 in f:
            try:
                os.remove(os.path.join(w, f))
            except OSError:
                pass


STABLE = None


def suite(d):
    """pinned suite in d; returns 'green' | 'red:<first test>' | 'hang'"""
    global STABLE
    if STABLE is None:
        STABLE = set(json.load(open("/root/.vp/BASELINE.json"))["stable_pass"])
    try:
        p = subprocess.run(["go", "test", "-json", "-vet=off", "-count=1", "-timeout", "120s", "./..."], cwd=d, env=ENV,
                           stdout=subprocess.PIPE, stderr=subprocess.STDOUT, text=True, errors="replace", timeout=400)
    except subprocess.TimeoutExpired:
        return "hang"
    passed = set()
    for line in p.stdout.splitlines():
        if '"Action":"pass"' not in line or '"Test"' not in line:
            continue
        try:
            e = json.loads(line)
        except ValueError:
            continue
        passed.add("%s::%s" % (e["Package"], e["Test"]))
    missing = sorted(STABLE - passed)
    if not missing:
        return "green"
    if "panic: test timed out" in p.stdout:
        return "hang"
    return "red:" + missing[0].split("/jsight-schema-core/")[-1]


def stage1_one(m):
    d = scratch_copy(m)
    try:
        b = subprocess.run(["go", "build", "./..."], cwd=d, env=ENV, stdout=subprocess.DEVNULL, stderr=subprocess.DEVNULL)
        if b.returncode != 0:
            return dict(m, status="nocompile")
        # vet-like sanity is not wanted: a mutant only has to compile
        s = suite(d)
        return dict(m, status="suite-green" if s == "green" else ("suite-hang" if s == "hang" else "suite-red"), detail=s)
    finally:
        cleanup(d)


def load(path):
    res = {}
    if os.path.exists(path):
        for line in open(path):
            try:
                r = json.loads(line)
            except ValueError:
                continue
            res[r["id"]] = r
    return res


def stage1(args):
    out = opt(args, "--out", os.path.join(ROOT, ".out", "mutsweep"))
    workers = int(opt(args, "--workers", "8"))
    files_rx = opt(args, "--files")
    limit = int(opt(args, "--limit", "0"))
    sample = int(opt(args, "--sample", "0"))
    os.makedirs(out, exist_ok=True)
    path = os.path.join(out, "stage1.jsonl")
    done = load(path)
    ms = all_mutants(files_rx)
    # fixed pseudo-random order, so that an interrupted or limited run is a fair sample
    ms.sort(key=lambda m: hashlib.sha1(m["id"].encode()).hexdigest())
    if sample:
        per = collections.Counter()
        keep = []
        for m in ms:
            k = (m["file"], m["func"])
            if per[k] < sample:
                per[k] += 1
                keep.append(m)
        ms = keep
    todo = [m for m in ms if m["id"] not in done]
    if limit:
        todo = todo[:limit]
    print("mutants: %d listed, %d already done, %d to do" % (len(ms), len(done), len(todo)), flush=True)
    t0 = time.time()
    n = 0
    with open(path, "a") as f, ThreadPoolExecutor(workers) as ex:
        for r in ex.map(stage1_one, todo):
            f.write(json.dumps(r) + "\n")
            f.flush()
            n += 1
            if n % 50 == 0:
                print("stage1: %d/%d  %.0fs" % (n, len(todo), time.time() - t0), flush=True)
                trim_cache()
    report([ "--out", out])


def stage2_one(job):
    m, ids, tier = job
    d = scratch_copy(m)
    verdict, tried, sigs = "survived", [], []
    try:
        for pid in ids:
            e = dict(os.environ, VERIF_REPO=d)
            try:
                r = subprocess.run([os.path.join(ROOT, "check"), pid, tier], env=e, stdout=subprocess.PIPE, stderr=subprocess.PIPE,
                                   text=True, errors="replace", timeout=1500)
                rc, so, se = r.returncode, r.stdout, r.stderr
            except subprocess.TimeoutExpired:
                rc, so, se = 2, "", "driver timeout"
            tried.append("%s:%d" % (pid, rc))
            for l in so.splitlines():
                if l.startswith("VIOLATION"):
                    f = l.split("replay=")[1]
                    if os.path.exists(f) and "/replays/" in f and os.path.realpath(REPO) != os.path.realpath(d):
                        try:
                            os.remove(f)
                        except OSError:
                            pass
            if rc == 1:
                verdict = "killed:" + pid
                sigs = [l.strip()[:200] for l in se.splitlines() if "sig=" in l][:2]
                break
            if rc == 2 and verdict == "survived":
                verdict = "inconclusive"
                sigs = [l.strip()[:200] for l in se.splitlines()[-3:]]
        return dict(id=m["id"], file=m["file"], func=m["func"], line=m["line"], op=m["op"], old=m["old"], new=m["new"],
                    verdict=verdict, tried=tried, sigs=sigs)
    finally:
        cleanup(d)


def stage2(args):
    out = opt(args, "--out", os.path.join(ROOT, ".out", "mutsweep"))
    workers = int(opt(args, "--workers", "2"))
    per_func = int(opt(args, "--per-func", "4"))
    only = opt(args, "--ids")
    tier = opt(args, "--tier", "quick")
    files_rx = opt(args, "--files")
    allc = "--all-checks" in args
    recheck = "--recheck" in args  # judge the survivors of an earlier stage 2 again (with the checks as they are now)
    s1 = load(os.path.join(out, "stage1.jsonl"))
    path = os.path.join(out, "stage2.jsonl")
    done = load(path)
    listed = set(m["id"] for m in all_mutants(files_rx))
    green = [m for m in s1.values() if m["status"] == "suite-green" and m["id"] in listed]
    green.sort(key=lambda m: hashlib.sha1(m["id"].encode()).hexdigest())
    per = collections.Counter()
    jobs = []
    for m in green:
        k = (m["file"], m["func"])
        if per[k] >= per_func:
            continue
        per[k] += 1
        if recheck:
            if m["id"] not in done or done[m["id"]]["verdict"].startswith("killed"):
                continue
        elif m["id"] in done:
            continue
        ids = props_for(m["file"])
        if allc:
            ids = ids + [i for i in sorted(COST, key=COST.get) if i not in ids]
        if only:
            ids = [i for i in ids if i in only.split(",")]
        if ids:
            jobs.append((m, ids, tier))
    print("stage2: %d suite-green mutants, %d selected and not yet done" % (len(green), len(jobs)), flush=True)
    t0 = time.time()
    n = 0
    with open(path, "a") as f, ThreadPoolExecutor(workers) as ex:
        for r in ex.map(stage2_one, jobs):
            f.write(json.dumps(r) + "\n")
            f.flush()
            n += 1
            if n % 10 == 0:
                print("stage2: %d/%d  %.0fs" % (n, len(jobs), time.time() - t0), flush=True)
                trim_cache()
    report(["--out", out])


def report(args):
    out = opt(args, "--out", os.path.join(ROOT, ".out", "mutsweep"))
    s1 = load(os.path.join(out, "stage1.jsonl"))
    s2 = load(os.path.join(out, "stage2.jsonl"))
    c = collections.Counter(m["status"] for m in s1.values())
    print("stage 1: %d mutants: %s" % (len(s1), dict(c)))
    if not s2:
        return
    v = collections.Counter(r["verdict"].split(":")[0] for r in s2.values())
    print("stage 2 (suite-green mutants judged by the checks): %d: %s" % (len(s2), dict(v)))
    byfile = collections.defaultdict(collections.Counter)
    for r in s2.values():
        byfile[r["file"]][r["verdict"].split(":")[0]] += 1
    for f in sorted(byfile):
        print("  %-70s %s" % (f, dict(byfile[f])))
    print("survivors:")
    for r in sorted(s2.values(), key=lambda r: (r["file"], r["line"])):
        if r["verdict"] == "survived":
            print("  %s:%d %s [%s] %r -> %r tried=%s id=%s" % (r["file"], r["line"], r["func"], r["op"], r["old"][:60], r["new"], ",".join(r["tried"]), r["id"]))
    print("inconclusive:")
    for r in sorted(s2.values(), key=lambda r: (r["file"], r["line"])):
        if r["verdict"] == "inconclusive":
            print("  %s:%d %s [%s] %r -> %r tried=%s id=%s" % (r["file"], r["line"], r["func"], r["op"], r["old"][:60], r["new"], ",".join(r["tried"]), r["id"]))


if __name__ == "__main__":
    a = sys.argv[1:]
    if not a:
        print(__doc__); sys.exit(2)
    {"stage1": stage1, "stage2": stage2, "report": report}[a[0]](a[1:])
