#!/usr/bin/env python3
"""Run the repository's own test suite (guard tag OFF) in a directory (default /repo) and compare the
set of passing tests with BASELINE.json's stable_pass list. exit 0 = every stable test still passes."""
import json, os, subprocess, sys
repo = sys.argv[1] if len(sys.argv) > 1 else "/repo"
base = json.load(open("/root/.vp/BASELINE.json"))
stable = set(base["stable_pass"])
env = dict(os.environ, GOFLAGS="-mod=mod", GOPROXY="off", GOSUMDB="off", GOTOOLCHAIN="local")
p = subprocess.run(["go", "test", "-json", "-vet=off", "-count=1", "-timeout", "25m", "./..."], cwd=repo, env=env,
                   stdout=subprocess.PIPE, stderr=subprocess.STDOUT, text=True, errors="replace")
passed, failed = set(), set()
for line in p.stdout.splitlines():
    try:
        e = json.loads(line)
    except ValueError:
        continue
    if e.get("Test") and e.get("Action") in ("pass", "fail"):
        (passed if e["Action"] == "pass" else failed).add("%s::%s" % (e["Package"], e["Test"]))
missing = sorted(stable - passed)
print("passed=%d failed=%d stable=%d stable-not-passing=%d" % (len(passed), len(failed), len(stable), len(missing)))
for m in missing[:40]:
    print("  NOT PASSING:", m)
extra_fail = sorted(failed - set(missing))
for m in extra_fail[:10]:
    print("  failing (not in stable list):", m)
sys.exit(1 if missing else 0)
