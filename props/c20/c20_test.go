// C20 - type vocabulary helpers are coherent and deterministic.
package c20

import (
	"encoding/json"
	"fmt"
	"regexp"
	"strings"
	"testing"

	schema "github.com/jsightapi/jsight-schema-core"
	jbytes "github.com/jsightapi/jsight-schema-core/bytes"
	jjson "github.com/jsightapi/jsight-schema-core/json"
	"pgregory.net/rapid"

	"verif/internal/ev"
	"verif/internal/gen"
	"verif/internal/sut"
)

func TestMain(m *testing.M) { ev.Main(m, "C20") }

// the documented vocabulary (docs + type.go constants), written out independently
var documented = []string{"string", "integer", "float", "decimal", "boolean", "object", "array", "null",
	"email", "uri", "uuid", "date", "datetime", "enum", "mixed", "any", "comment"}

var stringFamily = map[string]bool{"string": true, "email": true, "uri": true, "uuid": true, "date": true, "datetime": true}
var floatFamily = map[string]bool{"float": true, "decimal": true}
var wildcard = map[string]bool{"enum": true, "mixed": true, "any": true}

func refSoft(a, b string) bool {
	if a == b {
		return true
	}
	if wildcard[a] || wildcard[b] {
		return true
	}
	return (stringFamily[a] && stringFamily[b]) || (floatFamily[a] && floatFamily[b])
}

type NameCase struct{ Name string }
type PairCase struct{ A, B string }
type LitCase struct{ Lit string }

func validName(c NameCase) *ev.Verdict {
	want := false
	for _, d := range documented {
		if d == c.Name {
			want = true
		}
	}
	var got bool
	if esc := sut.Trap("IsValidType", func() { got = schema.IsValidType(c.Name) }); esc != nil {
		return ev.V("panic:IsValidType", "IsValidType(%q) panicked: %s", c.Name, esc.Value)
	}
	if got != want {
		return ev.V(fmt.Sprintf("IsValidType:%v", got), "IsValidType(%q) = %v, documented type name: %v", c.Name, got, want)
	}
	return nil
}

func softPair(c PairCase) *ev.Verdict {
	a, b := schema.SchemaType(c.A), schema.SchemaType(c.B)
	ab, ba := a.IsEqualSoft(b), b.IsEqualSoft(a)
	if ab != ba {
		lo, hi := c.A, c.B
		if lo > hi {
			lo, hi = hi, lo
		}
		return ev.V("soft:asymmetric:"+lo+"/"+hi, "%q.IsEqualSoft(%q) = %v but reversed %v", c.A, c.B, ab, ba)
	}
	if c.A == c.B && c.A != "" && !ab {
		return ev.V("soft:irreflexive:"+c.A, "%q is not softly equal to itself", c.A)
	}
	if c.A == "" || c.B == "" || c.A == "comment" || c.B == "comment" {
		return nil // undefined / comment: only symmetry and reflexivity are stated
	}
	if ab != refSoft(c.A, c.B) {
		return ev.V("soft:relation:"+c.A+"/"+c.B, "%q.IsEqualSoft(%q) = %v, the documented families say %v", c.A, c.B, ab, refSoft(c.A, c.B))
	}
	return nil
}

// token-type mappings of names shared by SchemaType and json.Type
func tokenTypes(c NameCase) *ev.Verdict {
	var jt jjson.Type
	found := false
	for _, t := range jjson.AllTypes {
		if t.String() == c.Name {
			jt, found = t, true
		}
	}
	if !found {
		return nil
	}
	st := schema.SchemaType(c.Name)
	if st.ToTokenType() != jt.ToTokenType() {
		return ev.V("token-type:"+c.Name, "SchemaType(%q).ToTokenType() = %q, json.Type %q maps to %q", c.Name, st.ToTokenType(), c.Name, jt.ToTokenType())
	}
	return nil
}

const reps = 30

var zeroExp = regexp.MustCompile(`^-?0[eE][+-]?[0-9]+$`)

func guess(c LitCase) *ev.Verdict {
	b := []byte(c.Lit)
	var want string
	var wantOK bool
	if esc := sut.Trap("json.Guess", func() {
		want = jjson.Guess(jbytes.NewBytes(c.Lit)).JsonType().String()
		wantOK = true
	}); esc != nil {
		wantOK = false
	}
	if !wantOK && zeroExp.MatchString(c.Lit) {
		// the known C13 finding (0e5 is refused as a number) leaves the scanner without a classification
		ev.Excluded("guess", "zero mantissa with exponent: not classified by the scanner (C13 known finding)")
		return nil
	}
	if !wantOK {
		return ev.V("harness:domain", "scanner classifier cannot classify the literal %q", c.Lit)
	}
	first := ""
	for i := 0; i < reps; i++ {
		var got schema.SchemaType
		var err error
		if esc := sut.Trap("GuessSchemaType", func() { got, err = schema.GuessSchemaType(b) }); esc != nil {
			return ev.V("guess:panic:"+esc.Frame, "GuessSchemaType(%q) panicked: %s", c.Lit, esc.Value)
		}
		ans := string(got)
		if err != nil {
			ans = "error"
		}
		if i == 0 {
			first = ans
		} else if ans != first {
			return ev.V("guess:unstable:"+litClass(c.Lit), "GuessSchemaType(%q) answered %q and then %q", c.Lit, first, ans)
		}
	}
	if first != want {
		return ev.V("guess:differs:"+litClass(c.Lit), "GuessSchemaType(%q) = %q, the scanner's classifier says %q", c.Lit, first, want)
	}
	return nil
}

func litClass(s string) string {
	switch {
	case strings.HasPrefix(s, `"`):
		inner := strings.Trim(s, `"`)
		if json.Valid([]byte(inner)) && inner != "" {
			return "string-looking-like-a-literal"
		}
		if strings.ContainsAny(inner, ".eE") {
			return "string-with-dot-or-e"
		}
		return "string"
	case s == "{" || s == "[" || s == "true" || s == "false" || s == "null":
		return s
	case strings.ContainsAny(s, "eE"):
		return "number-with-exponent"
	case strings.Contains(s, "."):
		return "number-with-fraction"
	}
	return "integer"
}

func isLiteral(s string) bool {
	if s == "{" || s == "[" {
		return true
	}
	if !json.Valid([]byte(s)) {
		return false
	}
	c := s[0]
	if c == '{' || c == '[' || c == ' ' || c == '\n' || c == '\t' || c == '\r' {
		return false
	}
	l := s[len(s)-1]
	return l != ' ' && l != '\n' && l != '\t' && l != '\r'
}

func multiClass(s string) bool {
	return strings.HasPrefix(s, `"`) && (strings.ContainsAny(s, ".eE") || json.Valid([]byte(strings.Trim(s, `"`)))) ||
		(!strings.HasPrefix(s, `"`) && strings.ContainsAny(s, ".eE"))
}

func registerAll() {
	ev.Register("valid-type", validName)
	ev.Register("soft-equality", softPair)
	ev.Register("token-type", tokenTypes)
	ev.Register("guess", guess)
	ev.Register("guess-random", guess)
	ev.Register("guess-pairs", guessSeq)
	ev.Register("guess-histories", guessSeq)
}

func TestPropVocabulary(t *testing.T) {
	registerAll()
	if i, _ := ev.Shard(); i != 0 {
		t.Skip("not sharded: runs in the first process only")
	}
	all := append([]string{""}, documented...)
	// IsValidType: constants, case changes, blanks, prefixes, random identifiers
	var names []string
	for _, d := range all {
		names = append(names, d, strings.ToUpper(d), strings.Title(d), " "+d, d+" ", d+"s", "@"+d, d+"\n", "\""+d+"\"")
		if len(d) > 1 {
			names = append(names, d[:len(d)-1], d[1:])
		}
	}
	names = append(names, "number", "int", "bool", "str", "reference", "annotation", "undefined", "Any", "regex", "or", "unknown")
	seen := map[string]bool{}
	for _, n := range names {
		if seen[n] {
			continue
		}
		seen[n] = true
		c := NameCase{n}
		ev.NonTrivial("valid-type", n)
		ev.Sample("valid-type", c)
		if ev.Judge("valid-type", c, validName(c)) {
			t.Errorf("VIOLATION-CANDIDATE valid-type %q", n)
		}
		if ev.Judge("token-type", c, tokenTypes(c)) {
			t.Errorf("VIOLATION-CANDIDATE token-type %q", n)
		}
	}
	for _, a := range all {
		for _, b := range all {
			c := PairCase{a, b}
			if a != b {
				ev.NonTrivial("soft-equality", a+"/"+b)
				ev.Sample("soft-equality", c)
			}
			if ev.Judge("soft-equality", c, softPair(c)) {
				t.Errorf("VIOLATION-CANDIDATE soft-equality %v", c)
			}
		}
	}
	ev.Exhaustive("soft-equality", "all 18 x 18 pairs of SchemaType constants incl. undefined")
	ev.Exhaustive("valid-type", "all constants under case change, padding, prefix, suffix, truncation")
}

func TestPropGuessEnumerate(t *testing.T) {
	registerAll()
	alpha := []string{`"`, "a", ".", "1", "0", "-", "e", "E", "+", "true", "false", "null", "{", "[", " ", `\"`, "5"}
	maxLen := ev.N(5, 7)
	ev.KeepFirst("guess")
	var n, nt, bad int64
	gen.Shortlex(alpha, maxLen, ev.Mine, func(b []byte, _ []int) {
		s := string(b)
		if !isLiteral(s) {
			return
		}
		n++
		c := LitCase{s}
		if multiClass(s) {
			nt++
			if ev.WantSample("guess") && len(s) > 3 {
				ev.Sample("guess", c)
			}
		}
		if v := guess(c); v != nil && ev.Report("guess", c, v) {
			bad++
		}
	})
	ev.Count("guess", n)
	ev.NonTrivialEnum("guess", nt)
	ev.Exhaustive("guess", fmt.Sprintf("every scalar literal, '{' and '[' among the concatenations of <= %d tokens from %q, %d repetitions each", maxLen, alpha, reps))
	if bad > 0 {
		t.Errorf("VIOLATION-CANDIDATE guess: %d literals", bad)
	}
}

func TestPropGuessRandom(t *testing.T) {
	registerAll()
	ev.Rapid(t, "guess-random", ev.N(2000, 20000), func(t *rapid.T) LitCase {
		switch rapid.IntRange(0, 3).Draw(t, "kind") {
		case 0:
			s := rapid.SampledFrom([]string{"1", "1.5", "1e5", "-0", "0.0", "12E-2", "true", "null", "a.b", "", "e", "1.", ".", "2020-01-01", "1e", "{", "["}).Draw(t, "inner")
			return LitCase{gen.EncodeString(t, s)}
		case 1:
			return LitCase{gen.EncodeString(t, gen.JSONString(t, "s"))}
		case 2:
			if rapid.Bool().Draw(t, "built") {
				// mantissa x exponent marker x exponent: integral and non-integral values under both spellings of the marker
				m := rapid.SampledFrom([]string{"1", "12", "1.5", "2.50", "1.0", "0.5", "120.0", "3.0", "0.25", "100", "-3.0", "-1.5", "0.0", "9.99"}).Draw(t, "mantissa")
				e := rapid.SampledFrom([]string{"e", "E"}).Draw(t, "marker") + rapid.SampledFrom([]string{"", "+", "-"}).Draw(t, "expsign") + rapid.SampledFrom([]string{"0", "1", "2", "3", "01", "10"}).Draw(t, "exp")
				return LitCase{m + e}
			}
			return LitCase{rapid.SampledFrom([]string{"0", "-0", "1", "-12", "0.5", "1.50", "1e5", "1E+2", "0.5e-3", "12e012", "1.0e+00", "100e-2", "123456789012345678901234567890", "0.1000000000000000000000001"}).Draw(t, "num")}
		default:
			return LitCase{rapid.SampledFrom([]string{"true", "false", "null", "{", "["}).Draw(t, "lit")}
		}
	}, func(c LitCase) *ev.Verdict {
		if !isLiteral(c.Lit) {
			return ev.V("harness:generator", "not a literal: %q", c.Lit)
		}
		if multiClass(c.Lit) {
			ev.NonTrivial("guess-random", c.Lit)
			ev.Class("guess-random", litClass(c.Lit))
			if ev.WantSample("guess-random") {
				ev.Sample("guess-random", c)
			}
		}
		return guess(c)
	})
}

// ---- histories: a literal's answer does not depend on the calls made before it, failing ones included

type SeqCase struct {
	Texts []string `json:"texts"`
}

var notLiterals = []string{"invalid", "@cat", "nul", "-", "1x", "", " 1", "tru", `"abc`, "1.", ".5", "+1", "01", "{}", "[]", "1e", "--1", "nulll", "True", "@", "1 2", "\x00", "0x10", "1.0.0", "e5", "-e", "\"", "'a'",
	// numbers the number scanner refuses for their exponent (a failing call of another kind)
	"1e1000001", "-2.5E-1000001", "7e99999999999999999999", "0e1"}

func guessSeq(c SeqCase) *ev.Verdict {
	failedBefore := false
	answers := map[string]string{}
	for i, s := range c.Texts {
		if !isLiteral(s) {
			// not a literal: whatever the answer is, it is the same every time, and a success names a type
			var got schema.SchemaType
			var err error
			if esc := sut.Trap("GuessSchemaType", func() { got, err = schema.GuessSchemaType([]byte(s)) }); esc != nil {
				return ev.V("guess:panic:"+esc.Frame, "GuessSchemaType(%q) panicked: %s", s, esc.Value)
			}
			ans := "error"
			if err == nil {
				ans = "type " + string(got)
				known := false
				for _, d := range documented {
					known = known || d == string(got)
				}
				if !known {
					return ev.V("guess:success-without-type", "call %d of %q: GuessSchemaType(%q) returns no error and the type %q", i, c.Texts, s, got)
				}
			}
			if prev, ok := answers[s]; ok && prev != ans {
				return ev.V("guess:unstable:non-literal", "GuessSchemaType(%q) answered %q and later %q (calls %q)", s, prev, ans, c.Texts)
			}
			answers[s] = ans
			failedBefore = true
			continue
		}
		// (the function under test is asked first: whatever an earlier call left behind in state shared with
		// the scanner's classifier must reach it, not the reference call)
		var got schema.SchemaType
		var err error
		if esc := sut.Trap("GuessSchemaType", func() { got, err = schema.GuessSchemaType([]byte(s)) }); esc != nil {
			return ev.V("guess:panic:"+esc.Frame, "GuessSchemaType(%q) panicked: %s", s, esc.Value)
		}
		var want string
		if esc := sut.Trap("json.Guess", func() { want = jjson.Guess(jbytes.NewBytes(s)).JsonType().String() }); esc != nil {
			// the scanner's classifier cannot classify this text; asked again it must not have recovered
			if esc2 := sut.Trap("json.Guess", func() { want = jjson.Guess(jbytes.NewBytes(s)).JsonType().String() }); esc2 != nil {
				continue
			}
		}
		ans := string(got)
		if err != nil {
			ans = "error"
		}
		if ans != want {
			after := "earlier calls"
			if failedBefore {
				after = "a failing call"
			}
			return ev.V("guess:history:"+litClass(s), "call %d of %q: GuessSchemaType(%q) = %q after %s, the scanner's classifier says %q", i, c.Texts, s, ans, after, want)
		}
	}
	return nil
}

var guessLits = []string{"0", "-0", "1", "-12", "0.5", "1.0", "-3.00", "0.0", "1.50", "1e5", "1E+2", "0.5e-3", "1.0e+00", "100e-2", "10e-1", "1.5E1", "2.50E2", "120.0E-1", "1.5e1", "0.5E0", "true", "false", "null", "{", "[", `"a"`, `"1.0"`, `"a.b"`, `""`, `"null"`, `"1e5"`}

func TestPropGuessHistories(t *testing.T) {
	registerAll()
	lits := guessLits
	// every ordered pair (non-literal or literal, literal), then random longer histories
	ev.KeepFirst("guess-pairs")
	idx := 0
	var bad int64
	for _, a := range append(append([]string{}, notLiterals...), lits...) {
		for _, b := range lits {
			idx++
			if !ev.Mine(idx) {
				continue
			}
			c := SeqCase{[]string{a, b}}
			ev.Count("guess-pairs", 1)
			if !isLiteral(a) {
				ev.NonTrivial("guess-pairs", a+"\x00"+b)
			}
			if v := guessSeq(c); v != nil && ev.Report("guess-pairs", c, v) {
				bad++
			}
		}
	}
	ev.Sample("guess-pairs", SeqCase{[]string{"invalid", "1.0"}})
	ev.Exhaustive("guess-pairs", fmt.Sprintf("every call pair (x, literal) with x from %d non-literal texts and %d literals, literal from the %d literals", len(notLiterals), len(lits), len(lits)))
	if bad > 0 {
		t.Errorf("VIOLATION-CANDIDATE guess-pairs: %d", bad)
	}
}

func TestPropGuessHistoriesRandom(t *testing.T) {
	registerAll()
	lits := guessLits
	ev.Rapid(t, "guess-histories", ev.N(3000, 30000), func(t *rapid.T) SeqCase {
		n := rapid.IntRange(2, 12).Draw(t, "n")
		var c SeqCase
		for i := 0; i < n; i++ {
			if rapid.IntRange(0, 2).Draw(t, "fails") == 0 {
				c.Texts = append(c.Texts, rapid.SampledFrom(notLiterals).Draw(t, "bad"))
			} else {
				c.Texts = append(c.Texts, rapid.SampledFrom(lits).Draw(t, "lit"))
			}
		}
		return c
	}, func(c SeqCase) *ev.Verdict {
		fails, after := false, false
		for _, s := range c.Texts {
			if !isLiteral(s) {
				fails = true
			} else if fails {
				after = true
			}
		}
		if after {
			ev.NonTrivial("guess-histories", strings.Join(c.Texts, "\x00"))
			if ev.WantSample("guess-histories") {
				ev.Sample("guess-histories", c)
			}
		}
		return guessSeq(c)
	})
}

func TestPropRegressions(t *testing.T) {
	registerAll()
	ev.ReplayDir(t, ev.Root()+"/regress/C20")
}

func TestReplay(t *testing.T) {
	registerAll()
	ev.Replay(t)
}
