package c20

import (
	"testing"

	"verif/internal/ev"
)

// FuzzGuess: GuessSchemaType against the schema scanner's own classifier on raw bytes (the oracle's
// domain is "what the scanner's classifier can classify"; everything else is skipped by the oracle's
// harness:domain verdict), plus the vocabulary check of IsValidType on the same bytes.
func FuzzGuess(f *testing.F) {
	for _, s := range []string{`1`, `-1`, `1.5`, `1.0`, `"a"`, `"1.5"`, `"a.b"`, `true`, `false`, `null`, `{`, `[`, `1e5`, `1.5E1`, `2.50E2`, `-3.0E+2`, `120.0E-1`, `1E0`, `0e0`, `01`, `1e`, `-`, `1e+`,
		`12a`, `0x10`, `1,2`, `tru`, `"`, `@a`, ``, ` 1`, `1 `, `1.`, `.5`, `-.5`, `1.x`, `"1"`, `"e"`, `"E"`, `1E`, `1e-0`, `-0.0e-0`} {
		f.Add([]byte(s))
	}
	f.Fuzz(func(t *testing.T, data []byte) {
		if len(data) > 64 {
			return
		}
		s := string(data)
		if isLiteral(s) { // the property speaks about scalar literals, `{` and `[`
			ev.Fuzz(t, "guess", guess(LitCase{Lit: s}))
		}
		ev.Fuzz(t, "guess", guessSeq(SeqCase{Texts: []string{s, "1", s, `"x"`, s}}))
		ev.Fuzz(t, "valid-type", validName(NameCase{Name: s}))
	})
}
