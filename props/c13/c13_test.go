// C13 - decimal numbers are parsed per the JSON grammar and compared exactly.
package c13

import (
	"fmt"
	"math/big"
	"regexp"
	"strings"
	"testing"

	jbytes "github.com/jsightapi/jsight-schema-core/bytes"
	jjson "github.com/jsightapi/jsight-schema-core/json"
	"pgregory.net/rapid"

	"verif/internal/ev"
	"verif/internal/gen"
	"verif/internal/ref/dec"
	"verif/internal/sut"
)

func TestMain(m *testing.M) { ev.Main(m, "C13") }

// exponents above this magnitude may be refused for resource reasons (the value would need that
// many digits); below it the grammar decides alone
const expTolerance = 100000

// newNumber hands the text over in a buffer that is overwritten straight afterwards, the way a caller
// with one token buffer does: a Number denotes the text it was made from, not what the buffer holds later
// newNumber hands the library the literal as a part of a longer text (as a lexeme of a document is): the
// slice reaches, by its capacity, to the end of that text. Afterwards the literal's own bytes are overwritten
// (the number must not live in the caller's buffer); surroundings() tells whether the text around the literal
// is still what it was (the library only reads what it is given).
func newNumber(s string) (n *jjson.Number, err error, esc *sut.Escape) {
	const head, tail = "[", `,"ab",true,1E+5]  `
	buf := []byte(head + s + tail)
	lit := buf[len(head) : len(head)+len(s)]
	esc = sut.Trap("NewNumber", func() { n, err = jjson.NewNumber(jbytes.NewBytes(lit)) })
	if string(buf) != head+s+tail && lastDamage == "" {
		lastDamage = fmt.Sprintf("NewNumber(%q) given as a part of the text %q left the text as %q", s, head+s+tail, buf)
	}
	for i := range lit {
		lit[i] = '7'
	}
	held = append(held[:0], heldBuf{buf: buf, want: head + strings.Repeat("7", len(s)) + tail, lit: s})
	return
}

type heldBuf struct {
	buf  []byte
	want string
	lit  string
}

var (
	lastDamage string
	held       []heldBuf
)

// damage reports (once) a write into the text around a literal, at creation or by a later method call
func damage() string {
	d := lastDamage
	lastDamage = ""
	for _, h := range held {
		if string(h.buf) != h.want && d == "" {
			d = fmt.Sprintf("methods of NewNumber(%q) wrote into the text the literal was a part of: %q", h.lit, h.buf)
		}
	}
	held = held[:0]
	return d
}

var digit19 = regexp.MustCompile(`[1-9]+`)
var zeroExp = regexp.MustCompile(`^-?0[eE][+-]?[0-9]+$`)

var longPad = regexp.MustCompile(`[eE][+-]?0[0-9]{7,}`)
var digitRun = regexp.MustCompile(`[0-9]+`)

// shape is a coarse class of a text: digit runs collapse to d; a text that is an unfinished number
// (a proper prefix of a number that stops right after '.', 'e' or the exponent sign) is named so.
func shape(s string) string {
	if dec.Parse(s+"1") != nil {
		t := strings.ToLower(s)
		switch {
		case strings.HasSuffix(t, "."):
			return "unfinished-after-point"
		case strings.HasSuffix(t, "e"):
			return "unfinished-after-e"
		case strings.HasSuffix(t, "e+"), strings.HasSuffix(t, "e-"):
			return "unfinished-after-exponent-sign"
		}
	}
	if len(s) > 24 {
		s = s[:24] + "~"
	}
	return digitRun.ReplaceAllString(s, "d")
}

func hugeExp(d *dec.Dec, s string) bool {
	i := strings.IndexAny(s, "eE")
	if i < 0 {
		return false
	}
	e, ok := new(big.Int).SetString(strings.TrimPrefix(s[i+1:], "+"), 10)
	return ok && e.CmpAbs(big.NewInt(expTolerance)) > 0
}

// single: grammar, String(), LengthOfFractionalPart, reflexive comparison for one text
func single(s string) *ev.Verdict {
	want := dec.Parse(s)
	n, err, esc := newNumber(s)
	if esc != nil {
		return ev.V("panic:NewNumber:"+esc.Frame, "NewNumber(%q) panicked: %s", s, esc.Value)
	}
	if want != nil && hugeExp(want, s) {
		if err != nil {
			return nil // refusing an astronomically large exponent is tolerated
		}
		return wrapCheck(s, n, want)
	}
	if (err == nil) != (want != nil) {
		if zeroExp.MatchString(s) {
			return ev.V("grammar:zero-mantissa-with-exponent", "NewNumber(%q) is rejected (%v) although it is a JSON number", s, err)
		}
		if err == nil {
			return ev.V("grammar:accepts:"+shape(s), "NewNumber(%q) is accepted although it is not a JSON number", s)
		}
		return ev.V("grammar:rejects:"+shape(s), "NewNumber(%q) is rejected (%v) although it is a JSON number", s, err)
	}
	if want == nil {
		return nil
	}
	var out string
	var frac uint
	var eq bool
	if esc := sut.Trap("Number", func() { out = n.String(); frac = n.LengthOfFractionalPart(); eq = n.Equal(n) && n.Cmp(n) == 0 }); esc != nil {
		return ev.V("panic:Number:"+esc.Frame, "methods of NewNumber(%q) panicked: %s", s, esc.Value)
	}
	back := dec.Parse(out)
	if back == nil || back.Cmp(want) != 0 {
		return ev.V("string:"+zeroClass(want), "NewNumber(%q).String() = %q which does not denote the same value", s, out)
	}
	// asking must not change the number: a second String(), and a comparison with a fresh number of the same text
	var out2 string
	var cmpFresh int
	fresh, _, _ := newNumber(s)
	if esc := sut.Trap("Number", func() { out2 = n.String(); cmpFresh = n.Cmp(fresh) }); esc != nil {
		return ev.V("panic:Number:"+esc.Frame, "methods of NewNumber(%q) panicked: %s", s, esc.Value)
	}
	if out2 != out || cmpFresh != 0 {
		return ev.V("changed-by-use:"+zeroClass(want), "NewNumber(%q): String() = %q, again %q; compared with a fresh number of the same text afterwards: %d", s, out, out2, cmpFresh)
	}
	if new(big.Int).SetUint64(uint64(frac)).Cmp(want.FracDigits()) != 0 {
		return ev.V("fraction-length:"+zeroClass(want), "NewNumber(%q).LengthOfFractionalPart() = %d, want %v", s, frac, want.FracDigits())
	}
	if !eq {
		return ev.V("cmp:reflexive", "NewNumber(%q) is not equal to itself", s)
	}
	if d := damage(); d != "" {
		return ev.V("writes-into-callers-text", "%s", d)
	}
	return nil
}

func zeroClass(d *dec.Dec) string {
	switch {
	case d.IsZero() && d.Neg:
		return "negative-zero"
	case d.IsZero():
		return "zero"
	}
	return "nonzero"
}

// wrapCheck: an accepted number with a huge exponent must still behave like its true value
func wrapCheck(s string, n *jjson.Number, want *dec.Dec) *ev.Verdict {
	for _, o := range []string{"10", "0.1", "-10", "-0.1", "1", "0"} {
		on, _, _ := newNumber(o)
		var got int
		if esc := sut.Trap("Cmp", func() { got = n.Cmp(on) }); esc != nil {
			return ev.V("panic:Cmp:"+esc.Frame, "Cmp panicked for %q: %s", s, esc.Value)
		}
		if got != want.Cmp(dec.Parse(o)) {
			return ev.V("exponent:silent-wrap", "NewNumber(%q) is accepted but compares to %s as %d (true value: %d) - the exponent wrapped", s, o, got, want.Cmp(dec.Parse(o)))
		}
	}
	return nil
}

type Pair struct{ A, B string }

func pairClass(a, b *dec.Dec) string {
	switch {
	case a.IsZero() && b.IsZero():
		return "zero-vs-zero"
	case (a.IsZero() && a.Neg) || (b.IsZero() && b.Neg):
		return "negative-zero"
	case a.Cmp(b) == 0:
		return "equal-values"
	case a.Sign() != b.Sign():
		return "signs"
	}
	return "order"
}

func pair(p Pair) *ev.Verdict {
	ra, rb := dec.Parse(p.A), dec.Parse(p.B)
	if ra == nil || rb == nil {
		return nil
	}
	a, e1, x1 := newNumber(p.A)
	b, e2, x2 := newNumber(p.B)
	if x1 != nil || x2 != nil || e1 != nil || e2 != nil {
		return nil // grammar disagreements are the single check's business
	}
	want := ra.Cmp(rb)
	// in every second pair (by its text) the numbers have been asked for their text
	// before they are compared - the methods must not disturb one another
	if (len(p.A)+len(p.B))%2 == 1 {
		if esc := sut.Trap("String", func() { _ = a.String(); _ = b.String(); _ = a.LengthOfFractionalPart() }); esc != nil {
			return ev.V("panic:String:"+esc.Frame, "String() of %q, %q panicked: %s", p.A, p.B, esc.Value)
		}
	}
	var cmp, rev int
	var eq, gt, ge, lt, le bool
	if esc := sut.Trap("Cmp", func() {
		cmp, rev = a.Cmp(b), b.Cmp(a)
		eq, gt, ge, lt, le = a.Equal(b), a.GreaterThan(b), a.GreaterThanOrEqual(b), a.LessThan(b), a.LessThanOrEqual(b)
	}); esc != nil {
		return ev.V("panic:Cmp:"+esc.Frame, "comparing %q with %q panicked: %s", p.A, p.B, esc.Value)
	}
	cl := pairClass(ra, rb)
	if cmp != want {
		return ev.V("cmp:"+cl, "Cmp(%q, %q) = %d, exact arithmetic says %d", p.A, p.B, cmp, want)
	}
	if rev != -want {
		return ev.V("cmp-antisymmetry:"+cl, "Cmp(%q, %q) = %d but reversed %d", p.A, p.B, cmp, rev)
	}
	if eq != (want == 0) || gt != (want > 0) || ge != (want >= 0) || lt != (want < 0) || le != (want <= 0) {
		return ev.V("predicates:"+cl, "%q vs %q (exact %d): Equal=%v GreaterThan=%v GreaterThanOrEqual=%v LessThan=%v LessThanOrEqual=%v", p.A, p.B, want, eq, gt, ge, lt, le)
	}
	return nil
}

func pairNontrivial(ra, rb *dec.Dec, p Pair) bool {
	if ra.Cmp(rb) == 0 {
		return true
	}
	if strings.ContainsAny(p.A+p.B, "eE") {
		return true
	}
	// differ only beyond the shorter operand's digits
	x, y := ra.Coef, rb.Coef
	if len(x) > len(y) {
		x, y = y, x
	}
	return ra.Sign() == rb.Sign() && x != "" && strings.HasPrefix(y, x) && len(y) > len(x)
}

func registerAll() {
	ev.Register("grammar", single)
	ev.Register("grammar-random", single)
	ev.Register("wrap", single)
	ev.Register("pairs", pair)
	ev.Register("pairs-random", pair)
	ev.Register("after-refusal", afterRefusal)
}

// all strings over the number alphabet up to a length bound
func TestPropGrammar(t *testing.T) {
	registerAll()
	alpha := []string{"0", "1", "5", "9", "-", "+", ".", "e", "E", "x"}
	maxLen := ev.N(6, 8)
	ev.KeepFirst("grammar")
	var n, nt, bad int64
	gen.Shortlex(alpha, maxLen, ev.Mine, func(b []byte, _ []int) {
		s := string(b)
		n++
		d := dec.Parse(s)
		if d != nil && len(s) >= 2 {
			nt++ // an accepted number with more than one character, or ...
		} else if d == nil && len(s) >= 2 && dec.Parse(s[:len(s)-1]) != nil {
			nt++ // ... a text that stops being a number at its last byte
		}
		if v := single(s); v != nil {
			if ev.Report("grammar", s, v) {
				bad++
			}
		} else if d != nil && len(s) == maxLen && ev.WantSample("grammar") {
			ev.Sample("grammar", s)
		}
	})
	// the one unbounded-length part of the grammar that carries no value: leading zeros of the exponent
	if i, _ := ev.Shard(); i == 0 {
		for _, mant := range []string{"1", "-1.5", "0.0"} {
			for _, e := range []string{"e", "E"} {
				for _, sign := range []string{"", "+", "-"} {
					for pad := 0; pad <= 40; pad++ {
						for _, val := range []string{"0", "1", "9", "10", "999"} {
							s := mant + e + sign + strings.Repeat("0", pad) + val
							n++
							nt++
							if v := single(s); v != nil && ev.Report("grammar", s, v) {
								bad++
							}
							for _, o := range []string{mant + e + sign + val, "1e1", "-15"} {
								if v := pair(Pair{s, o}); v != nil && ev.Report("pairs", Pair{s, o}, v) {
									bad++
								}
							}
						}
					}
				}
			}
		}
	}
	ev.Count("grammar", n)
	ev.NonTrivialEnum("grammar", nt)
	ev.Exhaustive("grammar", "exponents with 0..40 leading zeros (3 mantissas x e/E x sign x 5 values), each also compared with its unpadded spelling; and "+fmt.Sprintf("every string of length <= %d over %v", maxLen, alpha))
	if bad > 0 {
		t.Errorf("VIOLATION-CANDIDATE grammar: %d strings", bad)
	}
}

// all ordered pairs of the numbers of length <= 5 over {0 1 9 - . e +} (quick: a fixed stride sample)
func TestPropPairs(t *testing.T) {
	registerAll()
	alpha := []string{"0", "1", "9", "-", ".", "e", "+"}
	var set []string
	gen.Shortlex(alpha, ev.N(4, 6), func(int) bool { return true }, func(b []byte, _ []int) {
		if dec.Parse(string(b)) != nil {
			set = append(set, string(b))
		}
	})
	ev.KeepFirst("pairs")
	var n, nt, bad int64
	refs := make([]*dec.Dec, len(set))
	for i, s := range set {
		refs[i] = dec.Parse(s)
	}
	for i, a := range set {
		if !ev.Mine(i) {
			continue
		}
		for j, b := range set {
			n++
			p := Pair{a, b}
			if pairNontrivial(refs[i], refs[j], p) {
				nt++
				if (i*31+j)%9973 == 0 && ev.WantSample("pairs") {
					ev.Sample("pairs", p)
				}
			}
			if v := pair(p); v != nil {
				if ev.Report("pairs", p, v) {
					bad++
				}
			}
		}
	}
	ev.Count("pairs", n)
	ev.NonTrivialEnum("pairs", nt)
	ev.Exhaustive("pairs", fmt.Sprintf("all ordered pairs of the %d JSON numbers of length <= %d over %v", len(set), ev.N(4, 6), alpha))
	if bad > 0 {
		t.Errorf("VIOLATION-CANDIDATE pairs: %d pairs", bad)
	}
}

// exponents of 20+ digits whose machine-word wrap-around is a small number
func TestPropWrap(t *testing.T) {
	registerAll()
	if i, _ := ev.Shard(); i != 0 {
		t.Skip("not sharded: runs in the first process only")
	}
	ev.KeepFirst("wrap")
	two64 := new(big.Int).Lsh(big.NewInt(1), 64)
	var n, bad int64
	for m := int64(1); m <= 3; m++ {
		for k := int64(-40); k <= 40; k++ {
			e := new(big.Int).Mul(two64, big.NewInt(m))
			e.Add(e, big.NewInt(k))
			for _, mant := range []string{"1", "-1", "12.5", "0.001"} {
				for _, sign := range []string{"", "+", "-"} {
					s := mant + "e" + sign + e.String()
					n++
					ev.NonTrivial("wrap", s)
					if n%97 == 0 {
						ev.Sample("wrap", s)
					}
					if v := single(s); v != nil && ev.Report("wrap", s, v) {
						bad++
					}
				}
			}
		}
	}
	ev.Count("wrap", n)
	if bad > 0 {
		t.Errorf("VIOLATION-CANDIDATE wrap: %d texts", bad)
	}
}

// ---- every kind of refused text followed by every kind of number: the answer for a number does not
// depend on the call before it

type After struct {
	Refused string `json:"refused"`
	Then    string `json:"then"`
}

func afterRefusal(c After) *ev.Verdict {
	if esc := sut.Trap("NewNumber", func() { _, _ = jjson.NewNumber(jbytes.NewBytes(c.Refused)) }); esc != nil {
		return ev.V("panic:NewNumber:"+esc.Frame, "NewNumber(%q) panicked: %s", c.Refused, esc.Value)
	}
	if v := single(c.Then); v != nil {
		v.Sig = "after-refusal:" + v.Sig
		v.Detail = fmt.Sprintf("after NewNumber(%q): %s", c.Refused, v.Detail)
		return v
	}
	return nil
}

func TestPropAfterRefusal(t *testing.T) {
	registerAll()
	if i, _ := ev.Shard(); i != 0 {
		t.Skip("not sharded: runs in the first process only")
	}
	ev.KeepFirst("after-refusal")
	refused := []string{"1e1000001", "-2.5E-1000001", "7e99999999999999999999", "1e", "1e+", "-", "1.", "x", "", "01", "1..2", "--1", "1e5x", "0x10", "1e-", ".5"}
	then := []string{"-7", "7", "12", "0.5", "-0.5", "1e2", "100", "0", "-0", "3.250", "1E-2", "12345678901234567890", "0.000"}
	var n, bad int64
	for _, r := range refused {
		for _, v := range then {
			c := After{Refused: r, Then: v}
			n++
			ev.NonTrivial("after-refusal", r+"\x00"+v)
			if res := afterRefusal(c); res != nil && ev.Report("after-refusal", c, res) {
				bad++
			}
		}
	}
	ev.Count("after-refusal", n)
	ev.Sample("after-refusal", After{Refused: "1e1000001", Then: "-7"})
	ev.Exhaustive("after-refusal", fmt.Sprintf("%d refused texts x %d numbers", len(refused), len(then)))
	if bad > 0 {
		t.Errorf("VIOLATION-CANDIDATE after-refusal: %d", bad)
	}
}

// ---- random long numbers

func genDigits(t *rapid.T, label string, min, max int, first bool) string {
	n := rapid.IntRange(min, max).Draw(t, label+"n")
	var b strings.Builder
	for i := 0; i < n; i++ {
		d := rapid.SampledFrom([]byte("0000155999")).Draw(t, label)
		if first && i == 0 && n > 1 && d == '0' {
			d = '1'
		}
		b.WriteByte(d)
	}
	return b.String()
}

func genNumber(t *rapid.T, label string) string {
	var b strings.Builder
	if rapid.IntRange(0, 2).Draw(t, label+"neg") == 0 {
		b.WriteByte('-')
	}
	b.WriteString(genDigits(t, label+"i", 1, rapid.SampledFrom([]int{1, 3, 25, 60}).Draw(t, label+"il"), true))
	if rapid.Bool().Draw(t, label+"hasf") {
		b.WriteByte('.')
		b.WriteString(genDigits(t, label+"f", 1, rapid.SampledFrom([]int{1, 3, 12, 40}).Draw(t, label+"fl"), false))
	}
	return b.String()
}

func isZeroInt(s string) bool { // 0 or -0 without fraction: the library rejects 0eN (known finding)
	s = strings.TrimPrefix(s, "-")
	return s == "0"
}

func withExp(t *rapid.T, s, label string) string {
	if isZeroInt(s) || !rapid.Bool().Draw(t, label+"hase") {
		return s
	}
	e := rapid.SampledFrom([]int{0, 1, 2, 7, 19, 20, 21, 300, 3000}).Draw(t, label+"e")
	e += rapid.IntRange(-1, 1).Draw(t, label+"ed")
	sign := rapid.SampledFrom([]string{"", "+", "-"}).Draw(t, label+"es")
	if e < 0 {
		e, sign = -e, "-"
	}
	pad := rapid.SampledFrom([]string{"", "", "0", "00", "0000000", "00000000", "000000000", "000000000000000000000000000000"}).Draw(t, label+"pad")
	return fmt.Sprintf("%s%s%s%s%d", s, rapid.SampledFrom([]string{"e", "E"}).Draw(t, label+"E"), sign, pad, e)
}

// respell returns the same value in a different spelling
func respell(t *rapid.T, s string) string {
	mant, exp := s, new(big.Int)
	if i := strings.IndexAny(s, "eE"); i >= 0 {
		mant = s[:i]
		exp.SetString(strings.TrimPrefix(s[i+1:], "+"), 10)
	}
	neg := strings.HasPrefix(mant, "-")
	m := strings.TrimPrefix(mant, "-")
	ip, fp := m, ""
	if i := strings.Index(m, "."); i >= 0 {
		ip, fp = m[:i], m[i+1:]
	}
	switch rapid.IntRange(0, 3).Draw(t, "respell") {
	case 0: // trailing zeros
		fp += strings.Repeat("0", rapid.IntRange(1, 5).Draw(t, "zeros"))
	case 1: // move the point left by n, exponent += n
		n := rapid.IntRange(1, 30).Draw(t, "shift")
		ip = strings.Repeat("0", n) + ip
		fp = ip[len(ip)-n:] + fp
		ip = strings.TrimLeft(ip[:len(ip)-n], "0")
		exp.Add(exp, big.NewInt(int64(n)))
	case 2: // move the point right by n, exponent -= n
		n := rapid.IntRange(1, 30).Draw(t, "shift")
		fp += strings.Repeat("0", n)
		ip = strings.TrimLeft(ip+fp[:n], "0")
		fp = fp[n:]
		exp.Sub(exp, big.NewInt(int64(n)))
	default: // sign of zero / explicit plus in the exponent
	}
	if ip == "" {
		ip = "0"
	}
	out := ip
	if fp != "" {
		out += "." + fp
	}
	if neg {
		out = "-" + out
	}
	if exp.Sign() == 0 && !strings.ContainsAny(s, "eE") {
		return out
	}
	if isZeroInt(out) {
		return out
	}
	return out + "e" + exp.String()
}

func neighbour(t *rapid.T, s string) string {
	// change the last digit of the mantissa or append one digit
	mant, rest := s, ""
	if i := strings.IndexAny(s, "eE"); i >= 0 {
		mant, rest = s[:i], s[i:]
	}
	switch rapid.IntRange(0, 2).Draw(t, "nb") {
	case 0:
		last := mant[len(mant)-1]
		nd := byte('0' + (last-'0'+1)%10)
		cand := mant[:len(mant)-1] + string(nd)
		if dec.Parse(cand+rest) != nil {
			return cand + rest
		}
	case 1:
		if strings.Contains(mant, ".") {
			return mant + rapid.SampledFrom([]string{"1", "01", "0001"}).Draw(t, "app") + rest
		}
		return mant + ".0001" + rest
	}
	return s
}

func TestPropRandom(t *testing.T) {
	registerAll()
	ev.Rapid(t, "pairs-random", ev.N(6000, 60000), func(t *rapid.T) Pair {
		a := withExp(t, genNumber(t, "a"), "a")
		var b string
		switch rapid.IntRange(0, 3).Draw(t, "rel") {
		case 0:
			b = withExp(t, genNumber(t, "b"), "b")
		case 1:
			b = neighbour(t, a)
		default:
			b = respell(t, a)
		}
		if rapid.Bool().Draw(t, "swap") {
			a, b = b, a
		}
		return Pair{a, b}
	}, func(p Pair) *ev.Verdict {
		ra, rb := dec.Parse(p.A), dec.Parse(p.B)
		if ra == nil || rb == nil {
			return ev.V("harness:generator", "generator produced a non-number %q %q", p.A, p.B)
		}
		if pairNontrivial(ra, rb, p) {
			ev.NonTrivial("pairs-random", p.A+" "+p.B)
			ev.Class("pairs-random", pairClass(ra, rb))
			if longPad.MatchString(p.A) || longPad.MatchString(p.B) {
				ev.Class("pairs-random", "exponent zero-padded to 8+ digits")
			}
			if ev.WantSample("pairs-random") {
				ev.Sample("pairs-random", p)
			}
		}
		for _, s := range []string{p.A, p.B} {
			if v := single(s); v != nil {
				return v
			}
		}
		return pair(p)
	})
}

func TestPropRegressions(t *testing.T) {
	registerAll()
	ev.ReplayDir(t, ev.Root()+"/regress/C13")
}

func TestReplay(t *testing.T) {
	registerAll()
	ev.Replay(t)
}
