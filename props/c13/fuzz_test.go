package c13

import (
	"bytes"
	"testing"

	"verif/internal/ev"
)

// FuzzNumber: grammar, String(), LengthOfFractionalPart for one text; when the input holds a blank,
// the two halves are also compared with each other against exact arithmetic.
func FuzzNumber(f *testing.F) {
	for _, s := range []string{"0", "-0", "1.5", "1e5", "1E-5", "12.50e+3", "0.0001200e+2", "1.", "1e", "-", "01", "1e1000000", "1e-1000000",
		"10 1e1", "0.10 0.1", "-0 0", "1e-2 0.01", "123456789012345678901234567890 1.2345678901234567890123456789e29", "9.99 10", "-1.0 -1.00e0",
		"100e-2 1", "0.000 -0e0", "1e0000000000000000000000000000000000002 100"} {
		f.Add([]byte(s))
	}
	f.Fuzz(func(t *testing.T, data []byte) {
		if len(data) > 200 {
			return
		}
		if i := bytes.IndexByte(data, ' '); i >= 0 {
			a, b := string(data[:i]), string(data[i+1:])
			ev.Fuzz(t, "number", single(a))
			ev.Fuzz(t, "number", single(b))
			ev.Fuzz(t, "pair", pair(Pair{A: a, B: b}))
			return
		}
		ev.Fuzz(t, "number", single(string(data)))
	})
}
