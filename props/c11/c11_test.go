// C11 - concurrent use is race-free and gives the sequential results.
// Built with -race; data race reports are collected by the driver from the race detector's log.
package c11

import (
	"encoding/json"
	"errors"
	"fmt"
	jbytes "github.com/jsightapi/jsight-schema-core/bytes"
	jjson "github.com/jsightapi/jsight-schema-core/json"
	"io"
	"os"
	"path/filepath"
	"runtime"
	"sort"
	"strings"
	"sync"
	"sync/atomic"
	"testing"

	schema "github.com/jsightapi/jsight-schema-core"
	jdoc "github.com/jsightapi/jsight-schema-core/formats/json"
	"github.com/jsightapi/jsight-schema-core/notations/jschema"
	"github.com/jsightapi/jsight-schema-core/notations/regex"
	"github.com/jsightapi/jsight-schema-core/openapi"
	"github.com/jsightapi/jsight-schema-core/rules/enum"
	"pgregory.net/rapid"

	"verif/internal/corpus"
	"verif/internal/ev"
	"verif/internal/gen"
	"verif/internal/model"
	"verif/internal/sut"
)

func TestMain(m *testing.M) { ev.Main(m, "C11") }

// Input is one corpus entry.
type Input struct {
	Kind    string       `json:"kind"` // project enum regex doc
	Project *sut.Project `json:"project,omitempty"`
	Text    string       `json:"text,omitempty"`
	// Fresh: the root text is a template; every use replaces each "#N#" by a number never used before in
	// this process, so that whatever the library remembers per text (caches) meets a new text every time
	Fresh bool `json:"fresh,omitempty"`
}

var freshCounter int64

func instantiate(in Input) Input {
	if !in.Fresh {
		return in
	}
	n := atomic.AddInt64(&freshCounter, 1)
	if in.Project == nil {
		return Input{Kind: in.Kind, Text: strings.ReplaceAll(in.Text, "#N#", fmt.Sprint(n))}
	}
	p := *in.Project
	p.Root = strings.ReplaceAll(p.Root, "#N#", fmt.Sprint(n))
	return Input{Kind: in.Kind, Project: &p}
}

var ops = map[string][]string{
	"project": {"check", "len", "example", "ast", "used", "openapi", "deref"},
	"enum":    {"check", "values", "len", "ast"},
	"regex":   {"check", "pattern", "example", "openapi"},
	"doc":     {"check", "len", "lexemes"},
	"number":  {"string", "guess", "compare"},
}

type object struct {
	in Input
	s  *jschema.JSchema
	e  *enum.Enum
	r  *regex.RSchema
}

func build(in Input) *object {
	o := &object{in: in}
	switch in.Kind {
	case "project":
		o.s = sut.Build(*in.Project).S
	case "enum":
		o.e = enum.New("@e", in.Text)
	case "regex":
		o.r = regex.New("@r", in.Text)
	}
	return o
}

func errText(err error) string {
	if err == nil {
		return "<nil>"
	}
	e := sut.Describe(err)
	return fmt.Sprintf("%s|%d|%s|%d", e.GoType, e.Code, e.Message, e.Index)
}

func perform(o *object, op string) (out string) {
	defer func() {
		if r := recover(); r != nil {
			out = fmt.Sprint("PANIC ", r)
		}
	}()
	switch o.in.Kind + ":" + op {
	case "project:check":
		return errText(o.s.Check())
	case "project:len":
		n, err := o.s.Len()
		return fmt.Sprintf("%d,%s", n, errText(err))
	case "project:example":
		b, err := o.s.Example()
		runtime.Gosched() // the result is held while others work
		return fmt.Sprintf("%s,%s", b, errText(err))
	case "project:ast":
		a, err := o.s.GetAST()
		j, _ := json.Marshal(a)
		return fmt.Sprintf("%s,%s", j, errText(err))
	case "project:used":
		u, err := o.s.UsedUserTypes()
		return fmt.Sprintf("%v,%s", u, errText(err))
	case "project:openapi":
		if o.s.Check() != nil {
			return "not accepted"
		}
		b, err := openapi.NewSchemaObject(o.s).MarshalJSON()
		runtime.Gosched()
		return fmt.Sprintf("%s,%v", b, err)
	case "project:deref":
		if o.s.Check() != nil {
			return "not accepted"
		}
		var b strings.Builder
		for _, inf := range openapi.Dereference(o.s) {
			j, err := inf.SchemaObject().MarshalJSON()
			fmt.Fprintf(&b, "%v %s %v;", inf.Type(), j, err)
			if oi, ok := inf.(openapi.ObjectInformer); ok {
				for _, pi := range oi.PropertiesInfos() {
					fmt.Fprintf(&b, " %s:%v", pi.Key(), pi.Optional())
				}
			}
		}
		// a conversion reads the schema: the set of types registered on it is what it was
		names := make([]string, 0, len(o.s.UserTypeCollection))
		for n := range o.s.UserTypeCollection {
			names = append(names, n)
		}
		sort.Strings(names)
		return b.String() + " registered=" + strings.Join(names, ",")
	case "number:string":
		n, err := jjson.NewNumber(jbytes.NewBytes(o.in.Text))
		if err != nil {
			return errText(err)
		}
		return n.String()
	case "number:guess":
		t, err := schema.GuessSchemaType([]byte(o.in.Text))
		return fmt.Sprintf("%s,%s", t, errText(err))
	case "number:compare":
		a, err := jjson.NewNumber(jbytes.NewBytes(o.in.Text))
		b, err2 := jjson.NewNumber(jbytes.NewBytes("12.5e1"))
		if err != nil || err2 != nil {
			return errText(err) + errText(err2)
		}
		return fmt.Sprint(a.Cmp(b), b.Cmp(a), a.Equal(a))
	case "enum:check":
		return errText(o.e.Check())
	case "enum:values":
		vv, err := o.e.Values()
		var b strings.Builder
		for _, v := range vv {
			fmt.Fprintf(&b, "%s:%s:%q;", v.Value.String(), v.Type, v.Comment)
		}
		return b.String() + errText(err)
	case "enum:len":
		n, err := o.e.Len()
		return fmt.Sprintf("%d,%s", n, errText(err))
	case "enum:ast":
		a, err := o.e.GetAST()
		j, _ := json.Marshal(a)
		return fmt.Sprintf("%s,%s", j, errText(err))
	case "regex:check":
		return errText(o.r.Check())
	case "regex:pattern":
		p, err := o.r.Pattern()
		return fmt.Sprintf("%q,%s", p, errText(err))
	case "regex:example":
		_, err := o.r.Example() // the example itself is a random stream; only the verdict is compared
		return errText(err)
	case "regex:openapi":
		if o.r.Check() != nil {
			return "not accepted"
		}
		b, err := openapi.NewSchemaObject(o.r).MarshalJSON()
		return fmt.Sprintf("%s,%v", b, err)
	case "doc:check":
		return errText(jdoc.New("doc", o.in.Text).Check())
	case "doc:len":
		n, err := jdoc.New("doc", o.in.Text).Len()
		return fmt.Sprintf("%d,%s", n, errText(err))
	case "doc:lexemes":
		d := jdoc.New("doc", o.in.Text)
		var b strings.Builder
		for i := 0; i < 2000; i++ {
			lex, err := d.NextLexeme()
			if err != nil {
				if !errors.Is(err, io.EOF) {
					b.WriteString("ERR " + errText(err))
				}
				break
			}
			l := sut.LexOf(lex)
			fmt.Fprintf(&b, "%s@%d-%d;", l.Type, l.Begin, l.End)
		}
		return b.String()
	}
	return "unknown"
}

var (
	inputsOnce sync.Once
	inputs     []Input
	sequential []map[string]string
	specials   []int // indices of the inputs built around one shared mechanism
)

func deepLines(n int) string {
	var b strings.Builder
	for i := 0; i < n; i++ {
		fmt.Fprintf(&b, "  \"line%03d\": [%d, \"%s\"],\n", i, i, strings.Repeat("z", i%17))
	}
	return b.String()
}

// corpusInputs: a fixed corpus of accepted and rejected inputs with their sequential outcomes
func corpusInputs() ([]Input, []map[string]string) {
	inputsOnce.Do(func() {
		pg := rapid.Custom(func(t *rapid.T) *model.Project {
			return gen.Project(t, gen.ProjectOpts{KeyType: true, RegexType: true, Container: true, EnumNotes: true})
		})
		for i := 0; i < 160; i++ {
			mp := pg.Example(i + 1)
			// notes of every shape, each naming its input: a note that turns up in another input's result is cross-talk
			k := 0
			mp.Root.Walk(func(n *model.Node) {
				k++
				switch (i + k) % 5 {
				case 0:
					n.Note = fmt.Sprintf("input %d, node %d", i, k)
				case 1:
					n.Note = fmt.Sprintf("input %d,\n   node %d: a note\n   of three lines", i, k)
				case 2:
					n.Note = fmt.Sprintf("input %d\tnode %d  tab and two blanks", i, k)
				}
			})
			sp := mp.Text(nil)
			inputs = append(inputs, Input{Kind: "project", Project: &sp})
		}
		sat := rapid.Custom(func(t *rapid.T) *model.Project {
			return gen.Project(t, gen.ProjectOpts{Satisfied: true, KeyType: true, Container: true})
		})
		for i := 0; i < 100; i++ {
			sp := sat.Example(1000 + i).Text(nil)
			inputs = append(inputs, Input{Kind: "project", Project: &sp})
		}
		n := 0
		for i, s := range corpus.Literals() {
			if i%9 == 0 && corpus.LooksLikeSchema(s) && len(s) < 800 && n < 120 {
				sp := sut.Project{Root: s}
				inputs = append(inputs, Input{Kind: "project", Project: &sp})
				n++
			}
		}
		// inputs that meet on one mechanism (drawn together with raised probability, see genAssignment):
		// examples of 3 - 30 KB (pooled buffers of every size class)
		special := func(in Input) { specials = append(specials, len(inputs)); inputs = append(inputs, in) }
		for _, n := range []int{300, 450, 700, 1200, 3000} {
			var b strings.Builder
			b.WriteString("[")
			for i := 0; i < n; i++ {
				if i > 0 {
					b.WriteString(", ")
				}
				fmt.Fprintf(&b, "%d", 1000000000+i)
			}
			b.WriteString("]")
			special(Input{Kind: "project", Project: &sut.Project{Root: b.String()}})
			var o strings.Builder
			o.WriteString("{")
			for i := 0; i < n/3; i++ {
				if i > 0 {
					o.WriteString(", ")
				}
				fmt.Fprintf(&o, "\"key%04d\": \"value %d of %d\"", i, i, n)
			}
			o.WriteString("}")
			special(Input{Kind: "project", Project: &sut.Project{Root: o.String()}})
		}
		// inheritance (the compiler rewrites the node tree in place) with further types named only by the parents
		for i := 0; i < 6; i++ {
			special(Input{Kind: "project", Project: &sut.Project{
				Root: fmt.Sprintf("{ // {allOf: \"@base%d\"}\n  \"own\": @own,\n  \"n\": %d\n}", i, i),
				Types: []sut.Named{{Name: fmt.Sprintf("@base%d", i), Text: fmt.Sprintf("{ // {allOf: \"@deep\"}\n  \"b%d\": @inner\n}", i)}, {Name: "@deep", Text: "{\n  \"d\": [@inner]\n}"},
					{Name: "@inner", Text: "\"in\" // {minLength: 1}"}, {Name: "@own", Text: "{\n  @inner: 1\n}"}}}})
		}
		// many different regex rules (one compiled expression per schema)
		for i := 0; i < 16; i++ {
			special(Input{Kind: "project", Project: &sut.Project{Root: fmt.Sprintf("{\n  \"a\": \"ab%d\", // {regex: \"^ab%d$\"}\n  \"b\": \"x\" // {regex: \"^[x-z]{1,%d}\"}\n}", i, i, i+1)}})
		}
		// regex rules and strings never seen before (a fresh text at every use)
		for i := 0; i < 4; i++ {
			special(Input{Kind: "project", Fresh: true, Project: &sut.Project{Root: fmt.Sprintf("{\n  \"id\": \"g#N#i%d\", // {regex: \"^g#N#i%d$\"}\n  \"e\": \"e#N#\" // {enum: [\"e#N#\", \"f#N#\"]}\n}", i, i)}})
		}
		// numbers in exponent form never seen before (and a few fixed ones)
		for _, tx := range []string{"1.5e#N#", "-#N#E-3", "0.#N#e+2", "#N#e0", "1e5", "2.50E2", "1e", "01"} {
			special(Input{Kind: "number", Fresh: strings.Contains(tx, "#N#"), Text: tx})
		}
		// rejected with a position deep inside a longer text (line and column are computed from the shared text)
		for i := 0; i < 6; i++ {
			special(Input{Kind: "project", Project: &sut.Project{Root: "{\n" + strings.Repeat("  \"filler\": [1, 2, 3],\n", 0) + strings.Repeat(fmt.Sprintf("  \"k%d\": \"v\",\n", i), 1) + deepLines(40+i*25) + fmt.Sprintf("  \"bad%d\": 1 // {min: 2}\n}", i)}})
		}
		// rejected on a line of more than 200 bytes (the rendered error quotes the beginning of such a line and
		// three dots): arrays of short items, objects of short properties, one long string - shifted by 0-3
		// bytes so that structural characters stand at every offset around the cut
		for i := 0; i < 4; i++ {
			pad := strings.Repeat(" ", i)
			items := strings.TrimSuffix(strings.Repeat("1, ", 90), ", ")
			special(Input{Kind: "project", Project: &sut.Project{Root: "{\n" + pad + "  \"bad\": [" + items + "] // {minItems: 900}\n}"}})
			special(Input{Kind: "project", Project: &sut.Project{Root: "{\n" + pad + "  \"bad\": [" + strings.TrimSuffix(strings.Repeat("\"ab\", ", 60), ", ") + "], // {maxItems: 1}\n  \"next\": 1\n}"}})
			special(Input{Kind: "doc", Text: pad + "{\"k\": [" + items + "}"})
			special(Input{Kind: "enum", Text: pad + "[" + items + ", 1]"})
		}
		// types that bring types of their own (registered on the type, unknown to the root): reference roots,
		// alternatives, inheritance
		for i := 0; i < 4; i++ {
			carried := []sut.Named{{Name: "@inner", Text: fmt.Sprintf("{\n  \"i\": %d\n}", i)}, {Name: "@inner2", Text: "\"x\""}}
			special(Input{Kind: "project", Project: &sut.Project{Root: "@alias", Types: []sut.Named{{Name: "@alias", Text: "@inner", Own: carried}}}})
			special(Input{Kind: "project", Project: &sut.Project{Root: "@alias | @plain", Types: []sut.Named{{Name: "@alias", Text: "@inner | @inner2", Own: carried}, {Name: "@plain", Text: "1"}}}})
			special(Input{Kind: "project", Project: &sut.Project{Root: fmt.Sprintf("{ // {allOf: \"@heir\"}\n  \"own%d\": 1\n}", i), Types: []sut.Named{{Name: "@heir", Text: "{ // {allOf: \"@inner\"}\n  \"h\": @inner2\n}", Own: carried}}}})
		}
		// or rule-sets that name a format type (the conversions read the rule-set they are given)
		for _, ty := range []struct{ ex, ty string }{{`"2021-01-02T07:23:12+03:00"`, "datetime"}, {`"a@b.cc"`, "email"}, {`"https://a.b/c"`, "uri"},
			{`"550e8400-e29b-41d4-a716-446655440000"`, "uuid"}, {`"2021-01-02"`, "date"}, {`1.5`, "float"}} {
			special(Input{Kind: "project", Project: &sut.Project{Root: fmt.Sprintf("{\n  \"v\": %s, // {or: [{type: %q}, {type: \"integer\", min: 1}]}\n  \"w\": %s // {or: [\"integer\", %q]}\n}", ty.ex, ty.ty, ty.ex, ty.ty)}})
		}
		// choices of 2 - 7 user types, nullable and not, as property values and array items (the example builder
		// walks the list of names the schema holds)
		for n := 2; n <= 7; n++ {
			var names []string
			var types []sut.Named
			for i := 0; i < n; i++ {
				nm := fmt.Sprintf("@c%d", i)
				names = append(names, nm)
				types = append(types, sut.Named{Name: nm, Text: fmt.Sprintf("{\n  \"of\": %d,\n  \"next\": %s // {optional: true}\n}", i, fmt.Sprintf("@c%d", (i+1)%n))})
			}
			ch := strings.Join(names, " | ")
			special(Input{Kind: "project", Project: &sut.Project{Root: fmt.Sprintf("{\n  \"v\": %s, // {nullable: true}\n  \"w\": [\n    %s // {nullable: true}\n  ],\n  \"x\": %s\n}", ch, ch, ch), Types: types}})
		}
		// ... and a nullable choice inside the types themselves: the example ends in the null fall-back
		for _, n := range []int{2, 3} {
			var names []string
			for i := 0; i < n; i++ {
				names = append(names, fmt.Sprintf("@n%d", i))
			}
			var types []sut.Named
			for i, nm := range names {
				types = append(types, sut.Named{Name: nm, Text: fmt.Sprintf("{\n  \"of\": %d,\n  \"alt\": %s // {nullable: true}\n}", i, strings.Join(names, " | "))})
			}
			special(Input{Kind: "project", Project: &sut.Project{Root: fmt.Sprintf("{\n  \"v\": %s // {nullable: true}\n}", strings.Join(names, " | ")), Types: types}})
		}
		// regex schemas whose example leaves the generator little or no choice, alone and as a type of a project
		for _, s := range []string{"/^a.c$/", `/id-.-.\.x/`, "/OK/", `/^v1\.0$/`, "/a.?b/", "/./", "/^(ab|cd)$/", "/^[0-9]{3}-x$/"} {
			special(Input{Kind: "regex", Text: s})
			special(Input{Kind: "project", Project: &sut.Project{Root: "{\n  \"r\": @r,\n  \"list\": [@r]\n}", Types: []sut.Named{{Name: "@r", Text: s, Regex: true}}}})
		}
		for _, s := range []string{"[1, 2, \"three\"]", "[\n \"a\", // c\n \"b\"\n]", "[1, 1]", "[", "[\"a.b\", \"1.5\", 1.5]"} {
			inputs = append(inputs, Input{Kind: "enum", Text: s})
		}
		for _, s := range []string{"/^a+$/", "/[a-z]{2,4}/", "/[/", "x"} {
			inputs = append(inputs, Input{Kind: "regex", Text: s})
		}
		for _, s := range []string{`{"a": [1, 2, {"b": "c"}]}`, `[1, 2, `, `"str"`, `{"k": {"k": {"k": [true, false, null]}}}`} {
			inputs = append(inputs, Input{Kind: "doc", Text: s})
		}
		for _, in := range inputs {
			m := map[string]string{}
			if !in.Fresh { // (a fresh input is compared with a second object of the same text, made afterwards)
				for _, op := range ops[in.Kind] {
					m[op] = perform(build(in), op)
				}
			}
			sequential = append(sequential, m)
		}
		acc, noted := 0, 0
		for i, in := range inputs {
			if in.Kind == "project" && sequential[i]["check"] == "<nil>" {
				acc++
				if strings.Contains(in.Project.Root, "a note\n") {
					noted++
				}
			}
		}
		ev.Note("assignments", fmt.Sprintf("corpus: %d inputs, %d accepted schema projects, %d of them with multi-line notes", len(inputs), acc, noted))
	})
	return inputs, sequential
}

// Work is one goroutine's list of (input, operations in order).
type Work struct {
	Input int      `json:"input"`
	Ops   []string `json:"ops"`
	Yield []bool   `json:"yield,omitempty"` // runtime.Gosched() before the operation
}

type Assignment struct {
	Procs      int      `json:"gomaxprocs"`
	Shared     bool     `json:"shared"` // one object for all goroutines (mode b) instead of one per goroutine
	Goroutines [][]Work `json:"goroutines"`
}

func recordAssignment(a Assignment) {
	out := os.Getenv("VERIF_OUT")
	if out == "" {
		return
	}
	i, _ := ev.Shard()
	b, _ := json.Marshal(a)
	os.WriteFile(filepath.Join(out, fmt.Sprintf("assignment-%d.json", i)), b, 0o644)
}

func oracle(a Assignment) *ev.Verdict {
	ins, seq := corpusInputs()
	if a.Procs < 1 {
		a.Procs = 1
	}
	recordAssignment(a)
	prev := runtime.GOMAXPROCS(a.Procs)
	defer runtime.GOMAXPROCS(prev)
	type result struct {
		g, input int
		op, got  string
		fresh    *Input // the instantiated input when the corpus entry is a template
	}
	// every goroutine writes its results to a slice of its own: a lock shared by the workers would order
	// their library calls (happens-before through the lock) and hide races from the detector
	perG := make([][]result, len(a.Goroutines))
	var results []result
	var wg sync.WaitGroup
	start := make(chan struct{})
	shared := map[int]*object{}
	if a.Shared {
		for _, g := range a.Goroutines {
			for _, w := range g {
				if w.Input < len(ins) && shared[w.Input] == nil {
					shared[w.Input] = build(instantiate(ins[w.Input]))
				}
			}
		}
	}
	for gi, g := range a.Goroutines {
		wg.Add(1)
		go func(gi int, g []Work) {
			defer wg.Done()
			<-start
			for _, w := range g {
				if w.Input >= len(ins) {
					continue
				}
				var o *object
				var fresh *Input
				if a.Shared {
					o = shared[w.Input]
					if ins[w.Input].Fresh {
						fresh = &o.in
					}
				} else {
					in := instantiate(ins[w.Input])
					if ins[w.Input].Fresh {
						fresh = &in
					}
					o = build(in)
				}
				for k, op := range w.Ops {
					if k < len(w.Yield) && w.Yield[k] {
						runtime.Gosched()
					}
					got := perform(o, op)
					perG[gi] = append(perG[gi], result{gi, w.Input, op, got, fresh})
				}
			}
		}(gi, g)
	}
	close(start)
	wg.Wait()
	for _, rs := range perG {
		results = append(results, rs...)
	}
	for _, r := range results {
		want := seq[r.input][r.op]
		if r.fresh != nil {
			want = perform(build(*r.fresh), r.op) // sequentially, on a second object with the same text
		}
		if r.got != want {
			mode := "own-objects"
			if a.Shared {
				mode = "shared-object"
			}
			return ev.V("result-differs:"+mode+":"+ins[r.input].Kind+":"+r.op, "goroutine %d: %s of input %d gives\n  %.300s\nsequentially it gives\n  %.300s\ninput: %s", r.g, r.op, r.input, r.got, want, describe(ins[r.input]))
		}
	}
	return nil
}

func describe(in Input) string {
	if in.Project != nil {
		return in.Project.String()
	}
	return fmt.Sprintf("%s %q", in.Kind, in.Text)
}

func genAssignment(t *rapid.T) Assignment {
	ins, _ := corpusInputs()
	a := Assignment{
		Procs:  rapid.SampledFrom([]int{1, 2, 4, 16}).Draw(t, "gomaxprocs"),
		Shared: rapid.IntRange(0, 2).Draw(t, "shared") == 0,
	}
	g := rapid.SampledFrom([]int{2, 4, 8, 32}).Draw(t, "goroutines")
	// a small set of inputs so that goroutines meet on the same pooled operations / shared objects
	hot := rapid.SliceOfN(rapid.IntRange(0, len(ins)-1), 1, 4).Draw(t, "hot")
	if rapid.IntRange(0, 2).Draw(t, "special") > 0 {
		// goroutines meeting on big examples, inheritance, regex rules, positioned rejections
		hot = nil
		for _, k := range rapid.SliceOfN(rapid.IntRange(0, len(specials)-1), 2, 6).Draw(t, "hotspecial") {
			hot = append(hot, specials[k])
		}
	}
	for i := 0; i < g; i++ {
		var ws []Work
		n := rapid.IntRange(1, 6).Draw(t, "works")
		for j := 0; j < n; j++ {
			in := rapid.SampledFrom(hot).Draw(t, "input")
			all := ops[ins[in].Kind]
			k := rapid.IntRange(1, len(all)).Draw(t, "nops")
			w := Work{Input: in}
			perm := gen.Permutation(t, len(all), "oporder")
			for _, p := range perm[:k] {
				w.Ops = append(w.Ops, all[p])
				w.Yield = append(w.Yield, rapid.IntRange(0, 3).Draw(t, "yield") == 0)
			}
			ws = append(ws, w)
		}
		a.Goroutines = append(a.Goroutines, ws)
	}
	return a
}

func overlap(a Assignment) (bool, int) {
	n := 0
	seen := map[string]int{}
	for _, g := range a.Goroutines {
		mine := map[string]bool{}
		for _, w := range g {
			for _, op := range w.Ops {
				n++
				k := op
				if a.Shared {
					k = fmt.Sprint(w.Input)
				}
				if op == "example" || op == "openapi" || op == "check" || a.Shared {
					mine[k] = true
				}
			}
		}
		for k := range mine {
			seen[k]++
		}
	}
	for _, c := range seen {
		if c >= 2 {
			return true, n
		}
	}
	return false, n
}

func judged(a Assignment) *ev.Verdict {
	nt, n := overlap(a)
	ev.ClassN("assignments", "goroutine-operations executed", int64(n))
	ev.Class("assignments", fmt.Sprintf("GOMAXPROCS=%d", a.Procs))
	if a.Shared {
		ev.Class("assignments", "mode: shared object")
	} else {
		ev.Class("assignments", "mode: own objects")
	}
	if nt {
		j, _ := json.Marshal(a)
		ev.NonTrivial("assignments", string(j))
		if ev.WantSample("assignments") && len(a.Goroutines) <= 4 {
			ev.Sample("assignments", a)
		}
	}
	return oracle(a)
}

func registerAll() {
	ev.Register("assignments", judged)
	ev.Register("race", judged)
	ev.Register("containers", judgedContainers)
}

func TestPropAssignments(t *testing.T) {
	registerAll()
	corpusInputs()
	ev.Rapid(t, "assignments", ev.N(60, 400), genAssignment, judged)
}

func TestPropRegressions(t *testing.T) {
	registerAll()
	ev.ReplayDir(t, ev.Root()+"/regress/C11")
}

func TestReplay(t *testing.T) {
	registerAll()
	ev.Replay(t)
}

var _ schema.Schema = (*jschema.JSchema)(nil)
