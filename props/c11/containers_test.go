package c11

import (
	"encoding/json"
	"fmt"
	"runtime"
	"sort"
	"strings"
	"sync"
	"testing"

	schema "github.com/jsightapi/jsight-schema-core"
	jbytes "github.com/jsightapi/jsight-schema-core/bytes"
	"github.com/jsightapi/jsight-schema-core/notations/jschema/ischema"
	"github.com/jsightapi/jsight-schema-core/notations/jschema/ischema/constraint"
	"pgregory.net/rapid"

	"verif/internal/ev"
)

// The generated ordered maps (rule map, AST-node map, constraint map) carry a lock of their own: every
// operation is atomic. Goroutines that work on ONE map therefore leave it in a state that some sequential
// order of their operations produces. The check does not look for that order; it checks what every such
// order implies: each key once in the iteration, Len = number of keys, Has/Get agree with the iteration, the
// JSON has one entry per key, a key that somebody set and nobody deleted is there, a key nobody set is not.

type COp struct {
	Op  string `json:"op"` // set delete has len each json
	Key int    `json:"key"`
}

type CCase struct {
	Kind  string  `json:"kind"` // rules ast constraints
	Procs int     `json:"procs"`
	Progs [][]COp `json:"progs"`
}

var consKinds = []constraint.Type{constraint.MinLengthConstraintType, constraint.MaxLengthConstraintType, constraint.MinConstraintType, constraint.MaxConstraintType,
	constraint.OptionalConstraintType, constraint.NullableConstraintType, constraint.RegexConstraintType, constraint.ConstConstraintType}

type cmap interface {
	set(k int, v string)
	del(k int)
	has(k int) bool
	get(k int) (string, bool)
	length() int
	keys() []string
	marshal() ([]byte, error)
	name(k int) string
}

type cRules struct{ m *schema.RuleASTNodes }

func (c cRules) name(k int) string  { return fmt.Sprintf("k%d", k) }
func (c cRules) set(k int, v string) { c.m.Set(c.name(k), schema.RuleASTNode{Value: v}) }
func (c cRules) del(k int)           { c.m.Delete(c.name(k)) }
func (c cRules) has(k int) bool      { return c.m.Has(c.name(k)) }
func (c cRules) get(k int) (string, bool) {
	v, ok := c.m.Get(c.name(k))
	return v.Value, ok
}
func (c cRules) length() int         { return c.m.Len() }
func (c cRules) keys() []string {
	var out []string
	c.m.EachSafe(func(k string, _ schema.RuleASTNode) { out = append(out, k) })
	return out
}
func (c cRules) marshal() ([]byte, error) { return c.m.MarshalJSON() }

type cAST struct{ m *schema.ASTNodes }

func (c cAST) name(k int) string   { return fmt.Sprintf("k%d", k) }
func (c cAST) set(k int, v string) { c.m.Set(c.name(k), schema.ASTNode{Value: v}) }
func (c cAST) del(k int)           { c.m.Delete(c.name(k)) }
func (c cAST) has(k int) bool      { return c.m.Has(c.name(k)) }
func (c cAST) get(k int) (string, bool) {
	v, ok := c.m.Get(c.name(k))
	return v.Value, ok
}
func (c cAST) length() int         { return c.m.Len() }
func (c cAST) keys() []string {
	var out []string
	c.m.EachSafe(func(k string, _ schema.ASTNode) { out = append(out, k) })
	return out
}
func (c cAST) marshal() ([]byte, error) { return c.m.MarshalJSON() }

type cCons struct{ m *ischema.Constraints }

func (c cCons) name(k int) string { return consKinds[k%len(consKinds)].String() }
func (c cCons) set(k int, v string) {
	c.m.Set(consKinds[k%len(consKinds)], constraint.NewMinLength(jbytes.NewBytes("1")))
}
func (c cCons) del(k int)      { c.m.Delete(consKinds[k%len(consKinds)]) }
func (c cCons) has(k int) bool { return c.m.Has(consKinds[k%len(consKinds)]) }
func (c cCons) get(k int) (string, bool) {
	v, ok := c.m.Get(consKinds[k%len(consKinds)])
	if v == nil {
		return "", ok
	}
	return "set", ok
}
func (c cCons) length() int    { return c.m.Len() }
func (c cCons) keys() []string {
	var out []string
	c.m.EachSafe(func(k constraint.Type, _ constraint.Constraint) { out = append(out, k.String()) })
	return out
}
func (c cCons) marshal() ([]byte, error) { return nil, nil }

func newCMap(kind string) cmap {
	switch kind {
	case "ast":
		return cAST{&schema.ASTNodes{}}
	case "constraints":
		return cCons{&ischema.Constraints{}}
	}
	return cRules{&schema.RuleASTNodes{}}
}

func containerOracle(c CCase) *ev.Verdict {
	if len(c.Progs) == 0 {
		return nil
	}
	prev := runtime.GOMAXPROCS(c.Procs)
	defer runtime.GOMAXPROCS(prev)
	// the same programs several times: the window between two operations of different goroutines is narrow
	for round := 0; round < 20; round++ {
		m := newCMap(c.Kind)
		var wg sync.WaitGroup
		start := make(chan struct{})
		var mu sync.Mutex
		var during []string
		for g, prog := range c.Progs {
			wg.Add(1)
			go func(g int, prog []COp) {
				defer wg.Done()
				<-start
				for _, op := range prog {
					switch op.Op {
					case "set":
						m.set(op.Key, fmt.Sprintf("g%d", g))
					case "delete":
						m.del(op.Key)
					case "has":
						m.has(op.Key)
					case "get":
						// one answer: a value somebody set together with "present", or nothing with "absent"
						if v, ok := m.get(op.Key); ok != (v != "") {
							mu.Lock()
							during = append(during, fmt.Sprintf("goroutine %d: Get(%s) = %q, %v", g, m.name(op.Key), v, ok))
							mu.Unlock()
						}
					case "len":
						m.length()
					case "each":
						// what a reader sees while the others write is a state of the map too
						ks := m.keys()
						seen := map[string]bool{}
						for _, k := range ks {
							if seen[k] {
								mu.Lock()
								during = append(during, fmt.Sprintf("goroutine %d iterated %v", g, ks))
								mu.Unlock()
								break
							}
							seen[k] = true
						}
					case "json":
						m.marshal()
					}
				}
			}(g, prog)
		}
		close(start)
		wg.Wait()
		if len(during) > 0 {
			return ev.V("container:"+c.Kind+":reader-saw-no-state", "a reader saw what no state of the map shows (a key twice in one iteration, a value without its key or a key without its value) while other goroutines write: %s", during[0])
		}
		set, deleted := map[string]bool{}, map[string]bool{}
		for _, prog := range c.Progs {
			for _, op := range prog {
				if op.Op == "set" {
					set[m.name(op.Key)] = true
				}
				if op.Op == "delete" {
					deleted[m.name(op.Key)] = true
				}
			}
		}
		ks := m.keys()
		seen := map[string]bool{}
		for _, k := range ks {
			if seen[k] {
				return ev.V("container:"+c.Kind+":duplicate-key", "after the goroutines finished the iteration lists a key twice: %v", ks)
			}
			seen[k] = true
			if !set[k] {
				return ev.V("container:"+c.Kind+":invented-key", "key %q was never set; iteration %v", k, ks)
			}
		}
		if m.length() != len(ks) {
			return ev.V("container:"+c.Kind+":len", "Len() = %d, the iteration lists %d keys: %v", m.length(), len(ks), ks)
		}
		for k := 0; k < 8; k++ {
			n := m.name(k)
			if m.has(k) != seen[n] {
				return ev.V("container:"+c.Kind+":has", "Has(%q) = %v, the iteration lists %v", n, m.has(k), ks)
			}
			if set[n] && !deleted[n] && !seen[n] {
				return ev.V("container:"+c.Kind+":lost-key", "key %q was set and never deleted but is not there: %v", n, ks)
			}
		}
		if b, err := m.marshal(); b != nil || err != nil {
			if err != nil || !json.Valid(b) {
				return ev.V("container:"+c.Kind+":json", "MarshalJSON() = %s, %v", b, err)
			}
			var order []string
			dec := json.NewDecoder(strings.NewReader(string(b)))
			depth := 0
			for {
				tok, err := dec.Token()
				if err != nil {
					break
				}
				if d, ok := tok.(json.Delim); ok {
					if d == '{' || d == '[' {
						depth++
					} else {
						depth--
					}
					continue
				}
				if depth == 1 {
					if s, ok := tok.(string); ok && dec.More() {
						order = append(order, s)
						// skip the value
						var skip json.RawMessage
						if dec.Decode(&skip) != nil {
							break
						}
					}
				}
			}
			sorted := append([]string(nil), order...)
			sort.Strings(sorted)
			for i := 1; i < len(sorted); i++ {
				if sorted[i] == sorted[i-1] {
					return ev.V("container:"+c.Kind+":json-duplicate-key", "MarshalJSON() lists %q twice: %s", sorted[i], b)
				}
			}
			if c.Kind == "rules" && strings.Join(order, ",") != strings.Join(ks, ",") {
				return ev.V("container:"+c.Kind+":json-order", "MarshalJSON() keys %v, iteration %v", order, ks)
			}
		}
	}
	return nil
}

func genContainerCase(t *rapid.T) CCase {
	c := CCase{
		Kind:  rapid.SampledFrom([]string{"rules", "ast", "constraints"}).Draw(t, "kind"),
		Procs: rapid.SampledFrom([]int{2, 4, 16}).Draw(t, "gomaxprocs"),
	}
	g := rapid.SampledFrom([]int{2, 4, 8}).Draw(t, "goroutines")
	// goroutines meet on a few fresh keys: everybody starts by setting the same ones
	hot := rapid.SliceOfN(rapid.IntRange(0, 7), 1, 4).Draw(t, "hot")
	for i := 0; i < g; i++ {
		var prog []COp
		for _, k := range hot {
			prog = append(prog, COp{Op: "set", Key: k})
		}
		n := rapid.IntRange(0, 6).Draw(t, "more")
		for j := 0; j < n; j++ {
			prog = append(prog, COp{
				Op:  rapid.SampledFrom([]string{"set", "set", "delete", "delete", "has", "get", "get", "get", "len", "each", "json"}).Draw(t, "op"),
				Key: rapid.SampledFrom(hot).Draw(t, "key"),
			})
		}
		if rapid.Bool().Draw(t, "shuffle") {
			perm := rapid.Permutation(prog).Draw(t, "order")
			prog = perm
		}
		c.Progs = append(c.Progs, prog)
	}
	return c
}

func judgedContainers(c CCase) *ev.Verdict {
	ev.Class("containers", "kind: "+c.Kind)
	j, _ := json.Marshal(c)
	ev.NonTrivial("containers", string(j))
	if ev.WantSample("containers") && len(c.Progs) <= 2 {
		ev.Sample("containers", c)
	}
	return containerOracle(c)
}

func TestPropContainers(t *testing.T) {
	registerAll()
	ev.Rapid(t, "containers", ev.N(150, 1500), genContainerCase, judgedContainers)
}
