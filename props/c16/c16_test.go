// C16 - every rejection is a well-formed diagnostic that points into the text.
package c16

import (
	"errors"
	"fmt"
	"io"
	"regexp"
	"strings"
	"testing"
	"unicode/utf8"

	jdoc "github.com/jsightapi/jsight-schema-core/formats/json"
	"github.com/jsightapi/jsight-schema-core/notations/regex"
	"github.com/jsightapi/jsight-schema-core/rules/enum"
	"pgregory.net/rapid"

	"verif/internal/corpus"
	"verif/internal/ev"
	"verif/internal/gen"
	"verif/internal/model"
	"verif/internal/ref/linecol"
	"verif/internal/sut"
)

func TestMain(m *testing.M) { ev.Main(m, "C16") }

type Case struct {
	Entry   string       `json:"entry"` // schema | enum | regex | doc
	Project *sut.Project `json:"project,omitempty"`
	Text    string       `json:"text,omitempty"`
}

var (
	heapAddr   = regexp.MustCompile(`0x[0-9a-fA-F]{6,}`)
	fmtVerb    = regexp.MustCompile(`%!.?\((?:[a-zA-Z0-9.\[\]*]+=|MISSING|EXTRA|NOVERB|BADINDEX|BADWIDTH|BADPREC)`)
	structDump = regexp.MustCompile(`(=|&)\{`)
)

// suspect codes: names of internal catch-alls (counted, not failed)
var suspect = map[int]bool{801: true, 1201: true, 401: true, 305: true, 306: true, 502: true}

type observed struct {
	op  string
	err *sut.ErrInfo
}

// firstWords: the stable beginning of a message (up to the first colon or two words) for a signature
func firstWords(m string) string {
	if i := strings.Index(m, ":"); i > 0 && i < 40 {
		return strings.ReplaceAll(m[:i], " ", "-")
	}
	f := strings.Fields(m)
	if len(f) > 2 {
		f = f[:2]
	}
	return strings.Join(f, "-")
}

// judgeError applies the diagnostic oracle to one returned error. texts maps file names to their text.
func judgeError(name string, op string, e *sut.ErrInfo, texts map[string]string, inputs []string) *ev.Verdict {
	quoted := func(s string) bool { // the matched text comes from an input
		for _, in := range inputs {
			if strings.Contains(in, s) {
				return true
			}
		}
		return false
	}
	if e.RenderPanic != "" {
		return ev.V("render-panic", "%s: rendering the error panicked: %s (code %d, message %q, index %d)", op, e.RenderPanic, e.Code, e.Message, e.Index)
	}
	if e.Runtime {
		return ev.V("runtime-error:"+op, "%s returned a raw Go runtime error: %q", op, e.Message)
	}
	switch e.GoType {
	case "kit.JSchemaError", "*errs.Err", "errs.Err", "kit.Error":
	default:
		return ev.V("not-a-diagnostic:"+e.GoType, "%s returned %s: %q", op, e.GoType, e.Message)
	}
	if e.Code == 1 {
		return ev.V("internal-failure-code:"+op, "%s failed with the internal code 1 'Runtime Failure'", op)
	}
	if e.Code <= 0 {
		// "a diagnostic with a stable numeric code": an error of a diagnostic type that carries no code is what
		// the library wraps a foreign error in (a Go library's own error text behind "ERROR:")
		return ev.V("no-code:"+firstWords(e.Message), "%s: the rejection carries no numeric code: %q", op, e.Rendered)
	}
	if suspect[e.Code] {
		ev.Class(name, fmt.Sprintf("suspect internal-looking code %d", e.Code))
	}
	ev.Class(name, fmt.Sprintf("code %d", e.Code))
	if strings.TrimSpace(e.Message) == "" {
		return ev.V(fmt.Sprintf("empty-message:code-%d", e.Code), "%s: error code %d has an empty message", op, e.Code)
	}
	for _, text := range []string{e.Message, e.Rendered} {
		if strings.Contains(text, "runtime error:") && !quoted("runtime error:") {
			return ev.V("message:runtime-error:"+op, "%s: the message exposes a Go runtime error: %q", op, text)
		}
		if m := fmtVerb.FindString(text); m != "" && !quoted(m) {
			return ev.V(fmt.Sprintf("message:format-artefact:code-%d", e.Code), "%s: formatting artefact %q in %q", op, m, text)
		}
		if m := heapAddr.FindString(text); m != "" && !quoted(m) {
			return ev.V(fmt.Sprintf("message:heap-address:code-%d", e.Code), "%s: heap address %q in %q", op, m, text)
		}
		if m := structDump.FindString(text); m != "" && !quoted(m) && strings.Contains(text, "JSchemaError") {
			return ev.V(fmt.Sprintf("message:struct-dump:code-%d", e.Code), "%s: struct dump in %q", op, text)
		}
	}
	if !e.HasPos {
		return nil
	}
	text, known := texts[e.File]
	if !known {
		return ev.V(fmt.Sprintf("position:unknown-file:code-%d", e.Code), "%s: the error is positioned in file %q which is none of the texts involved (%v)", op, e.File, keys(texts))
	}
	if int(e.Index) >= len(text) {
		if len(text) == 0 && e.Index == 0 {
			return nil
		}
		return ev.V(fmt.Sprintf("position:index-outside-text:code-%d", e.Code), "%s: index %d in a %d-byte text %q (file %s, message %q)", op, e.Index, len(text), clip(text), e.File, e.Message)
	}
	conv := linecol.Convention(text)
	if conv == "mixed" {
		ev.Excluded(name, "mixed line terminators: line/column not judged")
		return nil
	}
	line, col, lineText, onTerm := linecol.At(text, int(e.Index), conv)
	if int(e.Line) != line || (!onTerm && int(e.Column) != col) {
		c := map[string]string{"": "LF", "\n": "LF", "\r\n": "CRLF", "\r": "CR"}[conv]
		return ev.V(fmt.Sprintf("position:line-column:%s", c), "%s: index %d of %q is line %d column %d, the error says %d:%d (code %d)", op, e.Index, clip(text), line, col, e.Line, e.Column, e.Code)
	}
	want := strings.TrimLeft(lineText, " \t")
	if len(want) > 150 {
		want = want[:150]
	}
	if len(lineText) > 200 {
		// a line of more than 200 bytes (indentation included) may be quoted in part: the quotation then is a
		// beginning of the line (without its indentation) followed by "..." - and nothing else, in
		// particular nothing of the lines that follow
		i := strings.Index(e.Rendered, "> ")
		if i < 0 {
			return ev.V(fmt.Sprintf("position:line-not-quoted:code-%d", e.Code), "%s: the rendered error has no quotation of line %d:\n%s", op, line, e.Rendered)
		}
		q := e.Rendered[i+2:]
		if j := strings.IndexAny(q, "\r\n"); j >= 0 {
			q = q[:j]
		}
		part := strings.TrimLeft(strings.TrimSuffix(q, "..."), " \t")
		if !strings.HasSuffix(q, "...") || !strings.HasPrefix(strings.TrimLeft(lineText, " \t"), part) {
			return ev.V(fmt.Sprintf("position:line-not-quoted:code-%d", e.Code), "%s: the quotation %q is not a beginning of the long line %d %q followed by \"...\":\n%s", op, q, line, want, e.Rendered)
		}
		return nil
	}
	if !strings.Contains(e.Rendered, want) {
		return ev.V(fmt.Sprintf("position:line-not-quoted:code-%d", e.Code), "%s: the rendered error does not quote line %d %q:\n%s", op, line, want, e.Rendered)
	}
	return nil
}

func keys(m map[string]string) []string {
	var out []string
	for k := range m {
		out = append(out, k)
	}
	return out
}

func clip(s string) string {
	if len(s) > 300 {
		return s[:300] + "..."
	}
	return s
}

// run executes the entry point and returns every error it hands back
func run(c Case) (errsSeen []observed, texts map[string]string, inputs []string, esc *sut.Escape) {
	texts = map[string]string{}
	switch c.Entry {
	case "schema":
		p := *c.Project
		texts[p.Name()] = p.Root
		inputs = append(inputs, p.Root)
		for _, t := range p.Types {
			texts[t.Name] = t.Text
			inputs = append(inputs, t.Text, t.Name)
		}
		for _, r := range p.Rules {
			texts[r.Name] = r.Text
			inputs = append(inputs, r.Text, r.Name)
		}
		o := sut.Observe(p)
		if len(o.Escapes) > 0 {
			return nil, texts, inputs, &o.Escapes[0]
		}
		for n, e := range o.AddErr {
			errsSeen = append(errsSeen, observed{"AddType(" + n + ")", e})
		}
		for n, e := range o.RuleErr {
			errsSeen = append(errsSeen, observed{"AddRule(" + n + ")", e})
		}
		for _, oe := range []observed{{"Check", o.Check}, {"Len", o.LenErr}, {"Example", o.ExampleErr}, {"GetAST", o.ASTErr}, {"UsedUserTypes", o.UsedErr}} {
			if oe.err != nil {
				errsSeen = append(errsSeen, oe)
			}
		}
	case "enum":
		texts["@e"] = c.Text
		inputs = []string{c.Text}
		esc = sut.Trap("Enum", func() {
			e := enum.New("@e", c.Text)
			if err := e.Check(); err != nil {
				errsSeen = append(errsSeen, observed{"Enum.Check", sut.Describe(err)})
			}
			if _, err := e.Len(); err != nil {
				errsSeen = append(errsSeen, observed{"Enum.Len", sut.Describe(err)})
			}
		})
		// and through AddRule
		o := sut.Observe(sut.Project{Root: `1 // {enum: @e}`, Rules: []sut.Named{{Name: "@e", Text: c.Text}}})
		texts["@main"] = `1 // {enum: @e}`
		for n, e := range o.RuleErr {
			errsSeen = append(errsSeen, observed{"AddRule(" + n + ")", e})
		}
	case "regex":
		texts["@r"] = c.Text
		inputs = []string{c.Text}
		esc = sut.Trap("RSchema", func() {
			r := regex.New("@r", c.Text)
			if err := r.Check(); err != nil {
				errsSeen = append(errsSeen, observed{"RSchema.Check", sut.Describe(err)})
			}
		})
	case "doc":
		texts["doc"] = c.Text
		inputs = []string{c.Text}
		esc = sut.Trap("Document", func() {
			if err := jdoc.New("doc", c.Text).Check(); err != nil {
				errsSeen = append(errsSeen, observed{"Document.Check", sut.Describe(err)})
			}
			if _, err := jdoc.New("doc", c.Text).Len(); err != nil {
				errsSeen = append(errsSeen, observed{"Document.Len", sut.Describe(err)})
			}
			// one Document asked several things one after the other: every rejection is a diagnostic
			d := jdoc.New("doc", c.Text)
			if _, err := d.Len(); err != nil {
				errsSeen = append(errsSeen, observed{"Document.Len (same object, first)", sut.Describe(err)})
			}
			if err := d.Check(); err != nil {
				errsSeen = append(errsSeen, observed{"Document.Check (same object, after Len)", sut.Describe(err)})
			}
			if _, err := d.Len(); err != nil {
				errsSeen = append(errsSeen, observed{"Document.Len (same object, again)", sut.Describe(err)})
			}
			d2 := jdoc.New("doc", c.Text)
			for i := 0; i < 4*len(c.Text)+16; i++ {
				if _, err := d2.NextLexeme(); err != nil {
					if !errors.Is(err, io.EOF) {
						errsSeen = append(errsSeen, observed{"Document.NextLexeme", sut.Describe(err)})
					}
					break
				}
			}
			if err := d2.Check(); err != nil {
				errsSeen = append(errsSeen, observed{"Document.Check (same object, after the lexeme stream)", sut.Describe(err)})
			}
		})
	}
	return
}

func oracleNamed(name string) func(Case) *ev.Verdict {
	return func(c Case) *ev.Verdict {
		seen, texts, inputs, esc := run(c)
		if esc != nil {
			return ev.V("panic:"+esc.Op+":"+esc.Frame, "%s panicked: %s (%s)", esc.Op, esc.Value, describe(c))
		}
		if len(seen) == 0 {
			ev.Class(name, "accepted")
			return nil
		}
		for _, oe := range seen {
			if v := judgeError(name, oe.op, oe.err, texts, inputs); v != nil {
				v.Detail += "\ninput: " + describe(c)
				return v
			}
		}
		// stability of code and message
		seen2, _, _, _ := run(c)
		if len(seen2) != len(seen) {
			return ev.V("unstable:error-count", "a second identical run returns %d errors instead of %d (%s)", len(seen2), len(seen), describe(c))
		}
		for i := range seen {
			if seen[i].op == seen2[i].op && (seen[i].err.Code != seen2[i].err.Code || seen[i].err.Message != seen2[i].err.Message) {
				return ev.V("unstable:code-or-message", "%s: %d %q, then %d %q (%s)", seen[i].op, seen[i].err.Code, seen[i].err.Message, seen2[i].err.Code, seen2[i].err.Message, describe(c))
			}
		}
		return nil
	}
}

func describe(c Case) string {
	if c.Project != nil {
		return c.Project.String()
	}
	return fmt.Sprintf("%s %q", c.Entry, c.Text)
}

func nontrivialCase(c Case) bool {
	t := c.Text
	if c.Project != nil {
		t = c.Project.Root
		for _, ty := range c.Project.Types {
			t += ty.Text
		}
	}
	return strings.ContainsAny(t, "\r\n")
}

// ---- generation

var tokens = []string{"%", "%d", "100%", "%s%s", "{", "}", "[", "]", ",", ":", "\"", "\\", "a", "1", "0", "-", ".", "e", "true", "null", "@a", "|", "//", "/*", "*/", "*", "/", "#", "##", "###", " ", "\t", "min", "or", "enum", "type", "{min: 1}", "-", "x", "\"a\"", "@"}

// mutate applies one token-level mutation that never splits a CRLF pair
func mutate(t *rapid.T, s string) string {
	if len(s) == 0 {
		return rapid.SampledFrom(tokens).Draw(t, "tok")
	}
	pos := func(label string) int {
		i := rapid.IntRange(0, len(s)).Draw(t, label)
		if i > 0 && i < len(s) && s[i-1] == '\r' && s[i] == '\n' {
			i++
		}
		return i
	}
	i := pos("at")
	switch rapid.IntRange(0, 4).Draw(t, "mutation") {
	case 0: // truncate
		return s[:i]
	case 1: // insert a token
		return s[:i] + rapid.SampledFrom(tokens).Draw(t, "tok") + s[i:]
	case 2: // delete one byte (a whole CRLF pair if it is one)
		if i >= len(s) {
			return s[:len(s)-1]
		}
		j := i + 1
		if s[i] == '\r' && j < len(s) && s[j] == '\n' {
			j++
		}
		return s[:i] + s[j:]
	case 3: // replace one byte by a token
		if i >= len(s) {
			return s + rapid.SampledFrom(tokens).Draw(t, "tok")
		}
		j := i + 1
		if s[i] == '\r' && j < len(s) && s[j] == '\n' {
			return s
		}
		if s[i] == '\n' || s[i] == '\r' {
			return s // keep the line structure
		}
		return s[:i] + rapid.SampledFrom(tokens).Draw(t, "tok") + s[j:]
	default: // duplicate a byte
		if i >= len(s) || s[i] == '\r' || s[i] == '\n' {
			return s
		}
		return s[:i+1] + s[i:]
	}
}

func genCase(t *rapid.T) Case {
	switch rapid.IntRange(0, 15).Draw(t, "entry") {
	case 14, 15:
		// an error on a line that is long only because of its indentation (more than 200 bytes in all, fewer
		// after the leading blanks), in the middle of the text or as its last line
		ind := strings.Repeat(rapid.SampledFrom([]string{" ", "\t", "  \t"}).Draw(t, "indent"), rapid.IntRange(60, 400).Draw(t, "indentlen"))
		nl := rapid.SampledFrom([]string{"\n", "\r\n", "\r"}).Draw(t, "nl")
		tail := rapid.SampledFrom([]string{"", nl + "}", nl + ind + "\"z\": 3" + nl + "}", nl + "}" + nl + nl}).Draw(t, "tail")
		short := rapid.SampledFrom([]string{"\"k\": 1 // {min: 5}", "\"k\": tru", "\"k\": \"abc\" // {maxLength: 1}", "\"k\": @nowhere", "\"k\" 1", "\"k\": 1 // {unknownRule: 1}",
			"\"k\": \"" + strings.Repeat("x", rapid.IntRange(1, 150).Draw(t, "fill")) + "\" // {maxLength: 0}"}).Draw(t, "short")
		switch rapid.IntRange(0, 3).Draw(t, "indentkind") {
		case 0:
			return Case{Entry: "schema", Project: &sut.Project{Root: "{" + nl + "  \"a\": 1," + nl + ind + short + tail}}
		case 1:
			return Case{Entry: "schema", Project: &sut.Project{Root: "{" + nl + "  \"t\": @t" + nl + "}", Types: []sut.Named{{Name: "@t", Text: "{" + nl + ind + short + tail}}}}
		case 2:
			return Case{Entry: "doc", Text: "[" + nl + " 1," + nl + ind + "\"s\" x" + tail}
		default:
			return Case{Entry: "enum", Text: "[" + nl + "  \"a\"," + nl + ind + "\"a\"" + nl + "]"}
		}
	case 12, 13:
		// an error on a line longer than the 200 bytes the renderer quotes, not on the first line
		long := strings.Repeat(rapid.SampledFrom([]string{"x", "ab ", "é", "%d"}).Draw(t, "fill"), rapid.IntRange(70, 300).Draw(t, "longlen"))
		nl := rapid.SampledFrom([]string{"\n", "\r\n", "\r"}).Draw(t, "nl")
		lead := strings.Repeat(nl, rapid.IntRange(0, 3).Draw(t, "leadlines"))
		switch rapid.IntRange(0, 4).Draw(t, "longkind") {
		case 0:
			return Case{Entry: "schema", Project: &sut.Project{Root: lead + "{" + nl + "  \"a\": 1," + nl + "  \"long\": \"" + long + "\" // {maxLength: 3}" + nl + "}"}}
		case 1:
			return Case{Entry: "schema", Project: &sut.Project{Root: lead + "[" + nl + "  1, // " + long + nl + "  2 // {min: 3} - " + long + nl + "]"}}
		case 2:
			return Case{Entry: "doc", Text: lead + "[" + nl + " 1," + nl + " \"" + long + "\" x" + nl + "]"}
		case 3:
			return Case{Entry: "enum", Text: lead + "[" + nl + "  \"" + long + "\"," + nl + "  \"" + long + "\"" + nl + "]"}
		default:
			return Case{Entry: "schema", Project: &sut.Project{Root: "{" + nl + "  \"t\": @t" + nl + "}", Types: []sut.Named{{Name: "@t", Text: lead + "{" + nl + "  \"k\": 1," + nl + "  \"" + long + "\": 2 // {min: 5}" + nl + "}"}}}}
		}
	case 10, 11:
		// arbitrary reference graphs (self loops, mutual loops, missing types, odd file names)
		gp := gen.GraphProject(t)
		for i := range gp.Types {
			// distinct file names so that positions can be attributed to a text
			if gp.Types[i].File != "" {
				gp.Types[i].File = ""
			}
		}
		seen := map[string]bool{}
		var types []sut.Named
		for _, ty := range gp.Types {
			if !seen[ty.Name] {
				seen[ty.Name] = true
				types = append(types, ty)
			}
		}
		gp.Types = types
		return Case{Entry: "schema", Project: gp}
	case 0:
		items := rapid.SliceOfN(rapid.SampledFrom([]string{`"a"`, `1`, `1.5`, `true`, `null`, `"a"`, `{}`, `1e5`}), 0, 4).Draw(t, "items")
		nl := rapid.SampledFrom([]string{"\n", "\r\n", "\r"}).Draw(t, "nl")
		s := "[" + nl + "  " + strings.Join(items, ","+nl+"  ") + nl + "]"
		if rapid.Bool().Draw(t, "mutate") {
			s = mutate(t, s)
		}
		return Case{Entry: "enum", Text: s}
	case 1:
		s := rapid.SampledFrom([]string{"/^a/", "/[a-z]+/", "/a(b|c)/", "/\\//", "  /a/", "/a"}).Draw(t, "re")
		return Case{Entry: "regex", Text: mutate(t, s)}
	case 2:
		v := gen.JSONValue(t, gen.JSONOpts{Exponents: true, DupKeys: true, Depth: 3})
		s := mutate(t, gen.EncodeJSONDoc(t, v))
		return Case{Entry: "doc", Text: s}
	}
	p := gen.Project(t, gen.ProjectOpts{KeyType: true, RegexType: true, Container: true, EnumNotes: true})
	lay := gen.Layout(t, gen.LayoutOpts{Esc: 2})
	if rapid.IntRange(0, 2).Draw(t, "leadindent") == 0 {
		lay.LineIndent = 3
	}
	sp := p.Text(lay)
	// provoke the error in the root, in a type, or by withholding a type
	switch rapid.IntRange(0, 5).Draw(t, "where") {
	case 0, 1, 2:
		sp.Root = mutate(t, sp.Root)
	case 3, 4:
		if len(sp.Types) > 0 {
			i := rapid.IntRange(0, len(sp.Types)-1).Draw(t, "victim")
			if !sp.Types[i].Regex {
				sp.Types[i].Text = mutate(t, sp.Types[i].Text)
			}
		} else {
			sp.Root = mutate(t, sp.Root)
		}
	default:
		if len(sp.Types) > 0 {
			i := rapid.IntRange(0, len(sp.Types)-1).Draw(t, "withhold")
			sp.Types = append(sp.Types[:i:i], sp.Types[i+1:]...)
		}
	}
	return Case{Entry: "schema", Project: &sp}
}

var judgedMutations = func() func(Case) *ev.Verdict {
	o := oracleNamed("mutations")
	return func(c Case) *ev.Verdict {
		if nontrivialCase(c) {
			ev.NonTrivial("mutations", describe(c))
			if ev.WantSample("mutations") {
				ev.Sample("mutations", c)
			}
		}
		return o(c)
	}
}()

func registerAll() {
	ev.Register("mutations", judgedMutations)
	ev.Register("corpus", oracleNamed("corpus"))
	ev.Register("tokens", oracleNamed("tokens"))
	ev.Register("strings", judgedStrings)
}

func TestPropMutations(t *testing.T) {
	registerAll()
	ev.Rapid(t, "mutations", ev.N(8000, 40000), genCase, judgedMutations)
}

// every truncation of the corpus texts under the three newline conventions
func TestPropCorpusTruncations(t *testing.T) {
	registerAll()
	o := oracleNamed("corpus")
	ev.KeepFirst("corpus")
	var n, nt, bad int64
	idx := 0
	for _, s := range corpus.Literals() {
		if !corpus.LooksLikeSchema(s) || strings.Contains(s, "\r") {
			continue
		}
		idx++
		if !ev.Mine(idx) {
			continue
		}
		step := 1
		if ev.Quick() {
			step = 7
		}
		for _, nl := range []string{"\n", "\r\n", "\r"} {
			text := strings.ReplaceAll(s, "\n", nl)
			for cut := idx % step; cut < len(text); cut += step {
				if cut > 0 && cut < len(text) && text[cut-1] == '\r' && text[cut] == '\n' {
					continue
				}
				c := Case{Entry: "schema", Project: &sut.Project{Root: text[:cut]}}
				n++
				if nontrivialCase(c) {
					nt++
					if nt%3000 == 1 {
						ev.Sample("corpus", c)
					}
				}
				if v := o(c); v != nil && ev.Report("corpus", c, v) {
					bad++
				}
			}
		}
	}
	ev.Count("corpus", n)
	ev.NonTrivialEnum("corpus", nt)
	if bad > 0 {
		t.Errorf("VIOLATION-CANDIDATE corpus: %d", bad)
	}
}

// short token strings for the four entry points
func TestPropTokens(t *testing.T) {
	registerAll()
	o := oracleNamed("tokens")
	ev.KeepFirst("tokens")
	alpha := []string{"{", "}", "[", "]", ",", ":", "\"a\"", "\"", "1", "-", ".", "true", "null", "@a", "|", "// ", "/*", "*/", "#", "\n", " ", "{min: 1}", "x", "/", "\\"}
	maxLen := ev.N(3, 5)
	var n, nt, bad int64
	gen.Shortlex(alpha, maxLen, ev.Mine, func(b []byte, _ []int) {
		s := string(b)
		for _, entry := range []string{"schema", "enum", "regex", "doc"} {
			c := Case{Entry: entry, Text: s}
			if entry == "schema" {
				c = Case{Entry: entry, Project: &sut.Project{Root: s, Types: []sut.Named{{Name: "@a", Text: "1"}}}}
			}
			n++
			if strings.Contains(s, "\n") {
				nt++
				if nt%20000 == 1 {
					ev.Sample("tokens", c)
				}
			}
			if v := o(c); v != nil && ev.Report("tokens", c, v) {
				bad++
			}
		}
	})
	ev.Count("tokens", n)
	ev.NonTrivialEnum("tokens", nt)
	ev.Exhaustive("tokens", fmt.Sprintf("every concatenation of <= %d tokens from %q given to the schema, enum rule, regex and JSON document entry points", maxLen, alpha))
	if bad > 0 {
		t.Errorf("VIOLATION-CANDIDATE tokens: %d", bad)
	}
}

// arbitrary bytes (malformed UTF-8 runs, controls, escapes) in every string position of every language
func TestPropStrings(t *testing.T) {
	registerAll()
	ev.Rapid(t, "strings", ev.N(4000, 30000), func(t *rapid.T) Case {
		ctx := rapid.SampledFrom(gen.StringContexts).Draw(t, "context")
		text := strings.ReplaceAll(ctx, "%s", gen.HostileString(t, "s"))
		entry := rapid.SampledFrom([]string{"schema", "schema", "enum", "regex", "doc"}).Draw(t, "entry")
		if entry == "schema" {
			return Case{Entry: entry, Project: &sut.Project{Root: text, Types: []sut.Named{{Name: "@a", Text: `"s"`}}}}
		}
		return Case{Entry: entry, Text: text}
	}, judgedStrings)
}

var judgedStrings = func() func(Case) *ev.Verdict {
	o := oracleNamed("strings")
	return func(c Case) *ev.Verdict {
		txt := c.Text
		if c.Project != nil {
			txt = c.Project.Root
		}
		if !utf8.ValidString(txt) {
			ev.NonTrivial("strings", c.Entry+txt)
			ev.Class("strings", "text is not UTF-8")
			if ev.WantSample("strings") {
				ev.Sample("strings", c)
			}
		}
		return o(c)
	}
}()

func TestPropRegressions(t *testing.T) {
	registerAll()
	ev.ReplayDir(t, ev.Root()+"/regress/C16")
}

func TestReplay(t *testing.T) {
	registerAll()
	ev.Replay(t)
}

var _ = model.Num
