package c16

import (
	"testing"

	"verif/internal/corpus"
	"verif/internal/ev"
	"verif/internal/sut"
)

// FuzzDiagnostics: the whole C16 oracle (every rejection is a well-formed, correctly positioned
// diagnostic) on raw bytes. The first byte picks the entry point and how the text is used.
func FuzzDiagnostics(f *testing.F) {
	seeds := []string{`1 /* x *`, `{} ##`, `@a |`, `"" // {type: ""}`, "{\n  \"a\": 1 // {min: 2}\n}", "{\r\n  \"a\": 1, // {min: 2}\r\n  \"b\": x\r\n}", "[\r  1,\r  2 // {max: 1}\r]",
		"   {\n\t\"k\": tru\n}", `1 // {or: [{type: "@x"}, {type: "string"}]}`, `{ // {allOf: "@q"}` + "\n}", "1 /* {enum: [ // c\n 1]} */", `%d %s %!`, "\"\\u00", "[1] /*00", `[1, 1]`, `/(/`, ` */`,
		`{"a": 1, "a": 2}`, "{\n  @k: 1\n}", `"x" // {regex: "("}`, `1.5 // {precision: 0}`, "[\n1, // {min: 5}\n2\n]", "\xff\xfe", "{\"é\": 1 // {min: 2}\n}"}
	for i, s := range corpus.Literals() {
		if i%60 == 0 && len(s) < 200 {
			seeds = append(seeds, s)
		}
	}
	for _, s := range seeds {
		for _, m := range []byte{0, 1, 2, 3, 4, 5} {
			f.Add(append([]byte{m}, s...))
		}
	}
	judge := oracleNamed("fuzz")
	f.Fuzz(func(t *testing.T, data []byte) {
		if len(data) < 1 || len(data) > 2048 {
			return
		}
		text := string(data[1:])
		var c Case
		switch data[0] % 6 {
		case 0:
			c = Case{Entry: "schema", Project: &sut.Project{Root: text, Types: []sut.Named{{Name: "@a", Text: `"kk"`}}}}
		case 1:
			c = Case{Entry: "schema", Project: &sut.Project{Root: "{\n  \"k\": @t\n}", Types: []sut.Named{{Name: "@t", Text: text}, {Name: "@a", Text: "1"}}}}
		case 2:
			c = Case{Entry: "schema", Project: &sut.Project{Root: text, Self: true}}
		case 3:
			c = Case{Entry: "enum", Text: text}
		case 4:
			c = Case{Entry: "regex", Text: text}
		default:
			c = Case{Entry: "doc", Text: text}
		}
		ev.Fuzz(t, "diagnostics", judge(c))
	})
}
