// C04 - GetAST() reports exactly what the source says: structure, rules, notes, order.
package c04

import (
	"encoding/json"
	"fmt"
	"strings"
	"testing"

	"pgregory.net/rapid"

	"verif/internal/ev"
	"verif/internal/gen"
	"verif/internal/model"
	refast "verif/internal/ref/ast"
	"verif/internal/sut"
)

func TestMain(m *testing.M) { ev.Main(m, "C04") }

type Case struct {
	P *model.Project `json:"project"`
	L *model.Layout  `json:"layout"`
	// Prelude: sut.Disturb sequence run before the case (0 = none)
	Prelude int `json:"prelude,omitempty"`
}

func ruleClass(path string) string {
	if i := strings.LastIndex(path, "/rules/"); i >= 0 {
		return "rule:" + path[i+7:]
	}
	if strings.HasSuffix(path, "/rules") {
		return "rule-list"
	}
	if strings.HasSuffix(path, "/children") {
		return "children"
	}
	return "node"
}

func oracle(c Case) *ev.Verdict {
	if c.Prelude != 0 {
		// the answer for a project does not depend on what the process handled before it
		sut.Pristine()
		sut.Disturb(c.Prelude)
	}
	if c.P == nil || c.P.Root == nil {
		return nil
	}
	tp := c.P.Text(c.L)
	o := sut.Observe(tp)
	if len(o.Escapes) > 0 {
		e := o.Escapes[0]
		return ev.V("panic:"+e.Op+":"+e.Frame, "%s panicked: %s\n%s", e.Op, e.Value, tp)
	}
	if o.Again != "" {
		return ev.V("second-call-differs:"+strings.SplitN(o.Again, " ", 2)[0], "%s\n%s", o.Again, tp)
	}
	if o.Check != nil || len(o.AddErr) > 0 || len(o.RuleErr) > 0 {
		ev.Class("models", "rejected (nothing asserted)")
		return nil
	}
	if o.ASTErr != nil {
		return ev.V("ast-error", "Check() accepts but GetAST() fails: %s\n%s", o.ASTErr, tp)
	}
	got, err := refast.Project(o.AST)
	if err != nil {
		return ev.V("ast-json", "the marshalled AST is not valid JSON: %v\n%s", err, o.AST)
	}
	if v := untrimmedNote(o.AST); v != "" {
		// the note of an element is its text: the blanks and line breaks around it belong to the layout
		return ev.V("ast:note-untrimmed", "the note %q of an element is reported with blanks or line breaks around it\n%s", v, tp)
	}
	want := refast.Expect(c.P.Root, model.Key{})
	if path, d := refast.Diff(want, got, "$"); d != "" {
		return ev.V("ast:"+ruleClass(path), "AST differs from the source at %s: %s\n%s", path, d, tp)
	}
	return nil
}

// untrimmedNote: the first element note (the "Comment" of an AST node, not of a rule or an enum item) that
// begins or ends with a blank of the language
func untrimmedNote(astJSON string) string {
	var v any
	if json.Unmarshal([]byte(astJSON), &v) != nil {
		return ""
	}
	var walk func(x any) string
	walk = func(x any) string {
		m, ok := x.(map[string]any)
		if !ok {
			return ""
		}
		if c, ok := m["Comment"].(string); ok && c != strings.Trim(c, " \t\r\n") {
			return c
		}
		if kids, ok := m["Children"].([]any); ok {
			for _, k := range kids {
				if r := walk(k); r != "" {
					return r
				}
			}
		}
		return ""
	}
	return walk(v)
}

func nontrivial(p *model.Project, l *model.Layout) bool {
	nt := false
	p.Root.Walk(func(n *model.Node) {
		if len(n.Rules) >= 2 || (len(n.Rules) > 0 && n.Note != "") {
			nt = true
		}
		for _, r := range n.Rules {
			if r.Val.K == "list" || r.Val.K == "set" {
				nt = true
			}
		}
	})
	return nt || (l != nil && l.Annot >= 2)
}

var notePool = []string{"", "", "a note", "note with - dash", "Ünïcode ✓", "quotes \" and 'single'", "star * slash / x", "123", "trailing dash -", "two  blanks",
	// only space, TAB, CR and LF are blanks to the language: other Unicode spaces and controls belong to the note
	"- a bullet", "-5 is the lowest value", "-> see b", "--", "- ", "-",
	"\u00a0indented", "価格\u3000", "\u2009thin\u2009", "see page 2\f", "\vup", "\u0085nel", "\u3000"}

var bigUints = []string{"0", "1", "7", "007", "4294967296", "18446744073709551615", "18446744073709551616", "18446744073709551617", "99999999999999999999999999999"}

// bigUint draws a non-negative integer around and far beyond the machine word: the fixed corner
// values, or 19-24 random digits (any leading digits: overflow checks that only catch some of the
// wrapped products are a classic slip)
func bigUint(t *rapid.T) string {
	if rapid.Bool().Draw(t, "corner") {
		return rapid.SampledFrom(bigUints[3:]).Draw(t, "bigv")
	}
	return rapid.StringMatching(`[1-9][0-9]{18,23}`).Draw(t, "bigdigits")
}

// enrich adds the rule kinds the base generator does not produce: allOf, long numbers, notes
func enrich(t *rapid.T, p *model.Project) {
	p.Root.Walk(func(n *model.Node) {
		n.Note = rapid.SampledFrom(notePool).Draw(t, "note")
		for i, r := range n.Rules {
			switch r.Name {
			case "min", "max":
				if rapid.IntRange(0, 4).Draw(t, "longnum") == 0 {
					// same value, longer spelling
					if strings.Contains(r.Val.Lit, ".") {
						n.Rules[i].Val.Lit += "000"
					}
				}
			case "maxLength":
				if rapid.IntRange(0, 2).Draw(t, "big") == 0 {
					n.Rules[i].Val.Lit = bigUint(t)
				}
			case "maxItems":
				if rapid.IntRange(0, 2).Draw(t, "big") == 0 && len(n.Kids) > 0 {
					n.Rules[i].Val.Lit = bigUint(t)
				}
			case "precision":
				if rapid.IntRange(0, 3).Draw(t, "big") == 0 {
					n.Rules[i].Val.Lit = bigUint(t)
				}
			}
		}
	})
	if p.Root.Kind == "object" && !p.Root.HasRule("additionalProperties") {
		switch rapid.IntRange(0, 3).Draw(t, "allof") {
		case 0:
			p.Types = append(p.Types, model.Type{Name: "@base", Node: model.Obj().Add("base_k", model.Scalar("integer", "1"))})
			p.Root.Rules = append(p.Root.Rules, model.R("allOf", model.Str("@base")))
		case 1:
			p.Types = append(p.Types, model.Type{Name: "@base", Node: model.Obj().Add("base_k", model.Scalar("integer", "1"))},
				model.Type{Name: "@base2", Node: model.Obj().Add("base_k2", model.Scalar("string", `"x"`))})
			p.Root.Rules = append(p.Root.Rules, model.R("allOf", model.List(model.Str("@base"), model.Str("@base2"))))
		}
	}
}

func genCase(t *rapid.T) Case {
	p := gen.Project(t, gen.ProjectOpts{Satisfied: true, KeyType: true, RegexType: true, Container: true, EnumNotes: true})
	enrich(t, p)
	var l *model.Layout
	if rapid.IntRange(0, 3).Draw(t, "canonical") != 0 {
		l = gen.Layout(t, gen.LayoutOpts{Esc: 1})
	} else {
		l = &model.Layout{}
	}
	return Case{P: p, L: l}
}

func judged(c Case) *ev.Verdict {
	if c.P != nil && c.P.Root != nil && nontrivial(c.P, c.L) {
		ev.NonTrivial("models", c.P.Text(c.L).String())
		if ev.WantSample("models") {
			ev.Sample("models", c.P.Text(c.L))
		}
	}
	return oracle(c)
}

func registerAll() {
	ev.Register("models-after-prelude", judged)
	ev.Register("models", judged)
	ev.Register("table", oracle)
}

// the generated cases after a disturbing prelude on other objects (sut.Disturb), every case from emptied pools
func TestPropModelsAfterPreludeAfterPrelude(t *testing.T) {
	registerAll()
	ev.Rapid(t, "models-after-prelude", ev.N(250, 2500), func(t *rapid.T) Case {
		c := genCase(t)
		c.Prelude = rapid.IntRange(1, sut.DisturbMax).Draw(t, "prelude")
		return c
	}, judged)
	sut.Pristine()
}

func TestPropModels(t *testing.T) {
	registerAll()
	ev.Rapid(t, "models", ev.N(6000, 20000), genCase, judged)
}

// exhaustive single-rule table: every rule kind x value class x annotation placement
func TestPropTable(t *testing.T) {
	registerAll()
	if i, _ := ev.Shard(); i != 0 {
		t.Skip("not sharded")
	}
	type entry struct {
		node *model.Node
	}
	var nodes []*model.Node
	for _, u := range bigUints {
		nodes = append(nodes,
			model.Scalar("string", `"abc"`, model.R("maxLength", model.Num(u))),
			model.Scalar("string", `""`, model.R("minLength", model.Num("0")), model.R("maxLength", model.Num(u))),
			model.Arr(model.R("maxItems", model.Num(u))).Item(model.Scalar("integer", "1")),
			model.Scalar("float", "1.5", model.R("precision", model.Num(u))))
	}
	for lead := 10; lead <= 99; lead++ {
		for _, zeros := range []int{18, 19} {
			u := fmt.Sprint(lead) + strings.Repeat("0", zeros)
			nodes = append(nodes,
				model.Scalar("string", `"abc"`, model.R("maxLength", model.Num(u))),
				model.Arr(model.R("maxItems", model.Num(u))).Item(model.Scalar("integer", "1")))
		}
	}
	for _, d := range []string{"1", "-0", "0.000", "1.50", "-12.0010", "123456789012345678901234567890", "0.0000000000000000000000001"} {
		nodes = append(nodes, model.Scalar("float", "1000000000000000000000000000000000.5", model.R("min", model.Num(d))),
			model.Scalar("float", "-1000000000000000000000000000000000.5", model.R("max", model.Num(d))))
	}
	for _, tn := range []string{"string", "email", "uri", "uuid", "date", "datetime"} {
		ex := map[string]string{"string": `"x"`, "email": `"a@b.cc"`, "uri": `"http://a.b/c"`, "uuid": `"550e8400-e29b-41d4-a716-446655440000"`, "date": `"2020-02-29"`, "datetime": `"2021-01-02T07:23:12Z"`}[tn]
		nodes = append(nodes, model.Scalar("string", ex, model.R("type", model.Str(tn))))
	}
	nodes = append(nodes,
		model.Scalar("string", `"a"`, model.R("regex", model.Str(`^a\.\\"$|x`))),
		model.Scalar("string", `"a"`, model.R("enum", model.Val{K: "list", Items: []model.Val{model.Str("a"), model.Str(`q"\`), model.Num("1"), model.Num("1.50"), model.Bool(true), model.Val{K: "null", Lit: "null"}}, Notes: []string{"first", "", "the - number", "", "", "last"}})),
		model.Scalar("integer", "1", model.R("or", model.List(model.Str("integer"), model.Set(model.R("type", model.Str("string")), model.R("minLength", model.Num("1")), model.R("regex", model.Str("a"))), model.Set(model.R("type", model.Str("enum")), model.R("enum", model.List(model.Num("1"), model.Str("b"))))))),
		model.Obj(model.R("additionalProperties", model.Str("string")), model.R("nullable", model.Bool(true))),
		model.Scalar("boolean", "true", model.R("const", model.Bool(true)), model.R("nullable", model.Bool(false))),
	)
	ev.KeepFirst("table")
	n := 0
	for _, node := range nodes {
		for annot := 0; annot <= 2; annot++ {
			for quote := 0; quote <= 1; quote++ {
				for _, note := range []string{"", "a - note"} {
					nn := node.Clone()
					nn.Note = note
					// at the root, as a property and as an array item
					for pos := 0; pos < 3; pos++ {
						root := nn
						switch pos {
						case 1:
							root = model.Obj().Add("k", nn.Clone())
						case 2:
							root = model.Arr().Item(nn.Clone())
						}
						c := Case{P: &model.Project{Root: root}, L: &model.Layout{Annot: annot, Quote: quote, Seq: []int{1, 0, 2, 1, 0}}}
						n++
						ev.NonTrivial("table", fmt.Sprint(n))
						if n%37 == 0 {
							ev.Sample("table", c.P.Text(c.L))
						}
						if ev.Judge("table", c, oracle(c)) {
							t.Errorf("VIOLATION-CANDIDATE table case %d", n)
						}
					}
				}
			}
		}
	}
	ev.Exhaustive("table", fmt.Sprintf("%d single-rule nodes x 3 annotation styles x quoted/bare names x with/without note x 3 positions", len(nodes)))
}

func TestPropRegressions(t *testing.T) {
	registerAll()
	ev.ReplayDir(t, ev.Root()+"/regress/C04")
}

func TestReplay(t *testing.T) {
	registerAll()
	ev.Replay(t)
}
