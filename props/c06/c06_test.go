// C06 - no false recursion alarms; self-requiring roots are reported; Example() ends.
package c06

import (
	"encoding/json"
	"fmt"
	"testing"
	"time"

	"pgregory.net/rapid"

	"verif/internal/ev"
	"verif/internal/model"
	"verif/internal/ref/graph"
	"verif/internal/sut"
)

func TestMain(m *testing.M) { ev.Main(m, "C06") }

type Case struct {
	P *model.Project `json:"project"`
	// PreCheck: every type object has been asked Check() alone (failing for want of the types it names)
	// before the root registers it
	PreCheck bool `json:"pre_check,omitempty"`
}

const recursionCode = 104

func oracle(c Case) *ev.Verdict {
	p := c.P
	if p == nil || p.Root == nil {
		return nil
	}
	tp := p.Text(nil)
	tp.PreCheck = c.PreCheck
	ev.Guard("graphs", c)
	defer ev.Unguard()
	b := sut.Build(tp)
	var cerr *sut.ErrInfo
	if esc := sut.Trap("Check", func() { cerr = sut.Describe(b.S.Check()) }); esc != nil {
		return ev.V("panic:Check:"+esc.Frame, "Check() panicked: %s\n%s", esc.Value, tp)
	}
	if len(b.AddErr) > 0 && refWithOr(p) {
		return nil // (a type with an `or` rule beside a reference does not load: code 1108)
	}
	if len(b.AddErr) > 0 {
		for n, e := range b.AddErr {
			return ev.V(fmt.Sprintf("harness:addtype-%d", e.Code), "AddType(%s) fails: %s\n%s", n, e, tp)
		}
	}
	fin := graph.Finite(p)
	self, cycleLen := graph.SelfRequired(p)
	if cerr != nil && cerr.Code == 1108 && refWithOr(p) {
		return nil // an `or` rule needs a scalar example: refused whatever the graph is
	}
	if fin["@main"] && cerr != nil {
		if cerr.Code == recursionCode {
			return ev.V("false-alarm", "the root has a finite instance but Check() reports infinite recursion: %s\n%s", cerr.Message, tp)
		}
		return ev.V(fmt.Sprintf("rejects-finite:code-%d", cerr.Code), "the root has a finite instance and nothing else is wrong, but Check() fails: %s\n%s", cerr, tp)
	}
	if self && (cerr == nil || cerr.Code != recursionCode) {
		l := fmt.Sprint(cycleLen)
		if cycleLen >= 4 {
			l = "4+"
		}
		return ev.V("missed-self-requirement:cycle-"+l, "the root requires itself through %d mandatory plain links but Check() = %v\n%s", cycleLen, cerr, tp)
	}
	if cerr != nil {
		return nil
	}
	// accepted: Example() must terminate with finite JSON
	if unfoldWork(p, 100000) >= 100000 {
		// The example builder enters every type up to twice per path and tries the alternatives of a choice one
		// after the other: a handful of mutually referring types is, legitimately, millions of steps and
		// megabytes of output - finite, which is all the property asks for, but nothing a watchdog can tell
		// from a hang. Such projects are judged for their verdict only.
		ev.Excluded("graphs", "Example() not asked: the whole unfolding of the project exceeds 100 000 steps")
		return nil
	}
	type res struct {
		ex  []byte
		err error
		esc *sut.Escape
	}
	done := make(chan res, 1)
	go func() {
		var r res
		r.esc = sut.Trap("Example", func() { r.ex, r.err = b.S.Example() })
		done <- r
	}()
	select {
	case r := <-done:
		if r.esc != nil {
			return ev.V("panic:Example:"+r.esc.Frame, "Example() panicked: %s\n%s", r.esc.Value, tp)
		}
		if r.err != nil {
			if e := sut.Describe(r.err); e.Code == recursionCode && (p.Root.Kind == "ref" || p.Root.Kind == "choice") && !fin["@main"] {
				return ev.V("example:none:alias-root-without-finite-instance", "Check() passes (the cycle does not lead through the root) but the root is a reference and none of its targets has a finite instance, so Example() has nothing to return: %v\n%s", r.err, tp)
			}
			return ev.V("example:error", "Check() passes but Example() fails: %v\n%s", r.err, tp)
		}
		if len(r.ex) > 1<<20 {
			// finite is all the property asks for; the recursion cut-off allows every type twice per
			// path, so a handful of mutually referring types legitimately unfold to megabytes
			ev.Class("graphs", "example larger than 1 MB")
		}
		if !json.Valid(r.ex) {
			cl := "invalid-json"
			return ev.V("example:"+cl, "Example() is not RFC 8259 JSON: %s\n%s", clip(string(r.ex), 300), tp)
		}
	case <-time.After(180 * time.Second): // (generous: the machine may be busy; small projects take milliseconds)
		return ev.V("example:no-result-in-bounded-time", "Example() did not return within 180 s although the whole unfolding of the project is below 100 000 steps\n%s", tp)
	}
	return nil
}

// unfoldWork: an upper bound (capped at limit) of the number of nodes the example builder can visit: every
// type at most twice on a path, all alternatives of a choice, inherited properties as the heir's own
func unfoldWork(p *model.Project, limit int) int {
	steps := 0
	onPath := map[string]int{}
	var walk func(n *model.Node)
	enter := func(name string) {
		if onPath[name] >= 2 || steps >= limit {
			return
		}
		var node *model.Node
		if name == "@main" {
			node = p.Root
		} else if t := p.Type(name); t != nil {
			node = t.Node
		}
		if node == nil {
			return
		}
		onPath[name]++
		walk(node)
		onPath[name]--
	}
	var inherited func(n *model.Node, seen map[string]bool)
	inherited = func(n *model.Node, seen map[string]bool) {
		for _, r := range n.Rules {
			if r.Name != "allOf" {
				continue
			}
			names := []string{r.Val.Str}
			if r.Val.K == "list" {
				names = nil
				for _, it := range r.Val.Items {
					names = append(names, it.Str)
				}
			}
			for _, b := range names {
				if t := p.Type(b); t != nil && t.Node != nil && !seen[b] {
					seen[b] = true
					for _, k := range t.Node.Kids {
						walk(k)
					}
					inherited(t.Node, seen)
				}
			}
		}
	}
	walk = func(n *model.Node) {
		if n == nil || steps >= limit {
			return
		}
		steps++
		switch n.Kind {
		case "ref", "choice":
			for _, r := range n.Refs {
				enter(r)
			}
		default:
			for _, k := range n.Kids {
				walk(k)
			}
			if n.Kind == "object" {
				inherited(n, map[string]bool{})
			}
		}
	}
	walk(p.Root)
	return steps
}

func refWithOr(p *model.Project) bool {
	found := false
	visit := func(n *model.Node) {
		if n.Kind == "ref" && n.HasRule("or") {
			found = true
		}
	}
	p.Root.Walk(visit)
	for _, t := range p.Types {
		if t.Node != nil {
			t.Node.Walk(visit)
		}
	}
	return found
}

func clip(s string, n int) string {
	if len(s) > n {
		return s[:n] + "..."
	}
	return s
}

// ---- generation

func genLink(t *rapid.T, names []string, label string, bases ...string) *model.Node {
	var n *model.Node
	k := rapid.IntRange(0, 7).Draw(t, label+"k")
	if len(bases) > 0 && rapid.IntRange(0, 5).Draw(t, label+"inherits") == 0 {
		// a nested object that inherits: what its parent requires, it requires
		return model.Obj(model.R("allOf", model.Str(rapid.SampledFrom(bases).Draw(t, label+"base")))).Add("own", model.Scalar("integer", "1"))
	}
	switch k {
	case 0:
		return model.Scalar("integer", "1")
	case 1, 2, 3, 4:
		n = model.Ref(rapid.SampledFrom(names).Draw(t, label+"tg"))
	default:
		if len(names) >= 2 {
			n = model.Choice(rapid.SliceOfNDistinct(rapid.SampledFrom(names), 2, 3, func(s string) string { return s }).Draw(t, label+"tgs")...)
		} else {
			n = model.Ref(names[0])
		}
	}
	if n.Kind == "choice" && rapid.IntRange(0, 5).Draw(t, label+"mixed") == 0 {
		n.Rules = append(n.Rules, model.R("type", model.Str("mixed"))) // what a choice is anyway, written out
	}
	switch rapid.IntRange(0, 8).Draw(t, label+"attr") {
	case 0:
		n.Rules = append(n.Rules, model.R("optional", model.Bool(true)))
	case 1:
		n.Rules = append(n.Rules, model.R("nullable", model.Bool(true)))
	case 2:
		return model.Arr().Item(n)
	case 7: // arrays with several item templates, the link first, in the middle or last
		other := func(l string) *model.Node {
			if rapid.Bool().Draw(t, l) {
				return model.Scalar("integer", "1")
			}
			return model.Ref(rapid.SampledFrom(names).Draw(t, l+"tg"))
		}
		switch rapid.IntRange(0, 2).Draw(t, label+"tuple") {
		case 0:
			return model.Arr().Item(n).Item(other(label + "o1"))
		case 1:
			return model.Arr().Item(other(label + "o1")).Item(n)
		default:
			return model.Arr().Item(other(label + "o1")).Item(n).Item(other(label + "o2"))
		}
	case 8: // a written `or` beside a reference: refused (code 1108), never accepted without an example
		if n.Kind == "ref" && rapid.Bool().Draw(t, label+"refor") {
			n.Rules = append(n.Rules, model.R("or", model.List(model.Str("string"), model.Str("integer"))))
		}
	case 3:
		n.Rules = append(n.Rules, model.R("optional", model.Bool(false)))
	case 4:
		// nested plain object around the link
		return model.Obj().Add("in", n)
	}
	return n
}

func genCase(t *rapid.T) Case {
	n := rapid.IntRange(0, 5).Draw(t, "ntypes")
	names := []string{"@main"}
	// (names that are prefixes of one another: @t0 / @t00, @t1 / @t10 - a choice is a list of names, not a text to search)
	for i := 0; i < n; i++ {
		names = append(names, []string{"@t0", "@t00", "@t1", "@t10", "@t2"}[i])
	}
	// object types made to be inherited from (keys of their own; @b1 may inherit from @b0), and a string type
	// whose example reads like a property name that objects write out
	// (every inheriting object repeats the links of its parents, and Example() unfolds every type up to twice
	// per path: three inheriting objects per project keep the examples in the kilobytes)
	budget := 3
	var bases []string
	nb := rapid.IntRange(0, 2).Draw(t, "nbases")
	for i := 0; i < nb; i++ {
		bases = append(bases, fmt.Sprintf("@b%d", i))
	}
	build := func(name string) *model.Node {
		if name != "@main" && rapid.IntRange(0, 9).Draw(t, name+"leaf") == 0 {
			return rapid.SampledFrom([]*model.Node{model.Scalar("integer", "1"), model.Scalar("string", `"s"`), model.Arr().Item(model.Scalar("integer", "1"))}).Draw(t, name+"leafk")
		}
		// a type whose body is itself a link: alias, nullable alias, choice (the root: alias or choice)
		if rapid.IntRange(0, 7).Draw(t, name+"alias") == 0 {
			k := rapid.IntRange(0, 2).Draw(t, name+"aliask")
			if name == "@main" && k == 1 {
				k = 0
			}
			switch k {
			case 0:
				return model.Ref(rapid.SampledFrom(names).Draw(t, name+"aliastg"))
			case 1:
				return model.Ref(rapid.SampledFrom(names).Draw(t, name+"aliastg"), model.R("nullable", model.Bool(true)))
			default:
				if len(names) >= 2 {
					return model.Choice(rapid.SliceOfNDistinct(rapid.SampledFrom(names), 2, 2, func(s string) string { return s }).Draw(t, name+"aliastgs")...)
				}
			}
		}
		o := model.Obj()
		if name != "@main" && rapid.IntRange(0, 9).Draw(t, name+"bodynullable") == 0 {
			o.Rules = append(o.Rules, model.R("nullable", model.Bool(true)))
		}
		if len(bases) > 0 && budget > 0 && rapid.IntRange(0, 4).Draw(t, name+"inherits") == 0 {
			o.Rules = append(o.Rules, model.R("allOf", model.Str(rapid.SampledFrom(bases).Draw(t, name+"base"))))
			budget--
		}
		ne := rapid.IntRange(0, 3).Draw(t, name+"ne")
		for j := 0; j < ne; j++ {
			var l *model.Node
			if budget > 0 {
				l = genLink(t, names, fmt.Sprintf("%s.%d", name, j), bases...)
			} else {
				l = genLink(t, names, fmt.Sprintf("%s.%d", name, j))
			}
			if l.Kind == "object" && l.HasRule("allOf") {
				budget--
			}
			o.Add(fmt.Sprintf("k%d", j), l)
		}
		if ne > 0 && rapid.IntRange(0, 5).Draw(t, name+"shortcut") == 0 {
			// further properties named by a string type whose own example is a name the object has already
			o.AddShortcut("@kname", model.Scalar("integer", "2"))
		}
		return o
	}
	p := &model.Project{Self: true}
	p.Root = build("@main")
	for _, nm := range names[1:] {
		p.Types = append(p.Types, model.Type{Name: nm, Node: build(nm)})
	}
	for i, b := range bases {
		o := model.Obj()
		if i == 1 && rapid.Bool().Draw(t, "b1inherits") {
			o.Rules = append(o.Rules, model.R("allOf", model.Str("@b0")))
		}
		l := model.Ref(rapid.SampledFrom(names).Draw(t, b+"tg"))
		switch rapid.IntRange(0, 5).Draw(t, b+"attr") {
		case 0:
			l.Rules = append(l.Rules, model.R("optional", model.Bool(true)))
		case 1:
			l.Rules = append(l.Rules, model.R("nullable", model.Bool(true)))
		case 2:
			l = model.Arr().Item(l)
		}
		o.Add(fmt.Sprintf("b%d_link", i), l)
		p.Types = append(p.Types, model.Type{Name: b, Node: o})
	}
	p.Types = append(p.Types, model.Type{Name: "@kname", Node: model.Scalar("string", `"k0"`)})
	// long cycles are rare by chance: with probability 1/3 thread a chain @main -> @t0 -> ... -> @main
	// through the object types, one link of which may carry a cycle-breaking attribute
	if n >= 1 && rapid.IntRange(0, 2).Draw(t, "chain") == 0 {
		order := append([]string{"@main"}, names[1:1+rapid.IntRange(1, n).Draw(t, "chainlen")]...)
		breakAt := rapid.IntRange(-1, len(order)-1).Draw(t, "break")
		for i, nm := range order {
			node := p.Root
			if nm != "@main" {
				node = p.Type(nm).Node
			}
			if node.Kind != "object" {
				continue
			}
			link := model.Ref(order[(i+1)%len(order)])
			if i == breakAt {
				switch rapid.IntRange(0, 3).Draw(t, "breakkind") {
				case 0:
					link.Rules = append(link.Rules, model.R("optional", model.Bool(true)))
				case 1:
					link.Rules = append(link.Rules, model.R("nullable", model.Bool(true)))
				case 2:
					link = model.Arr().Item(link)
				default:
					link = model.Choice(link.Refs[0], "@leaf")
					if p.Type("@leaf") == nil {
						p.Types = append(p.Types, model.Type{Name: "@leaf", Node: model.Scalar("integer", "1")})
					}
				}
			}
			node.Add("chain", link)
		}
	}
	return Case{P: p, PreCheck: rapid.IntRange(0, 3).Draw(t, "precheck") == 0}
}

func classify(p *model.Project) (nontrivial bool, class string) {
	fin := graph.Finite(p)
	self, l := graph.SelfRequired(p)
	switch {
	case self:
		ll := fmt.Sprint(l)
		if l >= 4 {
			ll = "4+"
		}
		class = "self-required cycle length " + ll
	case fin["@main"]:
		class = "finite"
	default:
		class = "neither (unspecified)"
	}
	return graph.HasCycle(p), class
}

func judged(c Case) *ev.Verdict {
	if c.P != nil && c.P.Root != nil {
		nt, class := classify(c.P)
		ev.Class("graphs", class)
		if c.P.Root.Kind == "ref" || c.P.Root.Kind == "choice" {
			ev.Class("graphs", "the root is an alias / a choice")
		}
		if refWithOr(c.P) {
			ev.Class("graphs", "reference with a written or rule")
		}
		if nt {
			ev.NonTrivial("graphs", c.P.Text(nil).String())
			ev.Class("graphs", "has a cycle")
			if ev.WantSample("graphs") {
				ev.Sample("graphs", c.P.Text(nil))
			}
		}
	}
	return oracle(c)
}

func registerAll() {
	ev.Register("graphs", judged)
	ev.Register("small-graphs", oracle)
}

func TestPropGraphs(t *testing.T) {
	registerAll()
	ev.Rapid(t, "graphs", ev.N(8000, 30000), genCase, judged)
}

// exhaustive: all graphs over @main + 2 types, each with <= 2 properties, each property a plain /
// optional / nullable / array link to one of the three types or a choice of two
func TestPropSmallGraphs(t *testing.T) {
	registerAll()
	names := []string{"@main", "@a", "@b"}
	var links []func() *model.Node
	for _, tg := range names {
		tg := tg
		links = append(links,
			func() *model.Node { return model.Ref(tg) },
			func() *model.Node { return model.Ref(tg, model.R("optional", model.Bool(true))) },
			func() *model.Node { return model.Ref(tg, model.R("nullable", model.Bool(true))) },
			func() *model.Node { return model.Arr().Item(model.Ref(tg)) })
	}
	links = append(links,
		func() *model.Node { return model.Choice("@main", "@a") },
		func() *model.Node { return model.Choice("@a", "@b") },
		func() *model.Node { return model.Choice("@main", "@b") },
		func() *model.Node { return model.Scalar("integer", "1") })
	L := len(links)
	// a type = 0, 1 or 2 properties
	var shapes [][]int
	shapes = append(shapes, nil)
	for i := 0; i < L; i++ {
		shapes = append(shapes, []int{i})
	}
	if ev.Thorough() {
		for i := 0; i < L; i++ {
			for j := i; j < L; j++ {
				shapes = append(shapes, []int{i, j})
			}
		}
	}
	mk := func(sh []int) *model.Node {
		o := model.Obj()
		for i, l := range sh {
			o.Add(fmt.Sprintf("k%d", i), links[l]())
		}
		return o
	}
	ev.KeepFirst("small-graphs")
	idx := 0
	var n, nt, bad int64
	typeShapes := shapes
	if ev.Thorough() {
		// the full cube of 2-property shapes is 137^3; keep @b to <= 1 property
		typeShapes = shapes[:1+L]
	}
	for _, s0 := range shapes {
		for _, s1 := range shapes {
			for _, s2 := range typeShapes {
				idx++
				if !ev.Mine(idx) {
					continue
				}
				p := &model.Project{Self: true, Root: mk(s0), Types: []model.Type{{Name: "@a", Node: mk(s1)}, {Name: "@b", Node: mk(s2)}}}
				c := Case{P: p}
				n++
				if graph.HasCycle(p) {
					nt++
					if nt%5000 == 1 {
						ev.Sample("small-graphs", p.Text(nil))
					}
				}
				if v := oracle(c); v != nil && ev.Report("small-graphs", c, v) {
					bad++
				}
			}
		}
	}
	ev.Count("small-graphs", n)
	ev.NonTrivialEnum("small-graphs", nt)
	ev.Exhaustive("small-graphs", fmt.Sprintf("all projects @main/@a/@b built from %d property shapes (@main, @a) x %d (@b) over %d link kinds", len(shapes), len(typeShapes), L))
	if bad > 0 {
		t.Errorf("VIOLATION-CANDIDATE small-graphs: %d", bad)
	}
}

func TestPropRegressions(t *testing.T) {
	registerAll()
	ev.ReplayDir(t, ev.Root()+"/regress/C06")
}

func TestReplay(t *testing.T) {
	registerAll()
	ev.Replay(t)
}
