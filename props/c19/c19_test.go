// C19 - the ordered containers of the public API behave like insertion-ordered maps.
//
// Domain: operation sequences (as data) over the key universe {a, b, c, q"x}; bounded-exhaustive
// enumeration in shortlex order plus rapid-generated longer sequences.
// Oracle: internal/ref/odict receives the same operations; after every step Len, Has/Get/GetValue of
// every key, the visiting order of Each/EachSafe/Find and the marshalled JSON must agree.
package c19

import (
	"encoding/json"
	"errors"
	"fmt"
	"strings"
	"testing"
	"time"

	schema "github.com/jsightapi/jsight-schema-core"
	jbytes "github.com/jsightapi/jsight-schema-core/bytes"
	"github.com/jsightapi/jsight-schema-core/notations/jschema"
	"github.com/jsightapi/jsight-schema-core/notations/jschema/ischema"
	"github.com/jsightapi/jsight-schema-core/notations/jschema/ischema/constraint"
	"pgregory.net/rapid"

	"verif/internal/ev"
	"verif/internal/ref/jsonv"
	"verif/internal/ref/odict"
)

func TestMain(m *testing.M) { ev.Main(m, "C19") }

type Op struct {
	Op   string   `json:"op"`             // set update delete filter map find each add
	K    string   `json:"k,omitempty"`    // key (set/update/delete/add), fail key (map), stop key (each)
	V    string   `json:"v,omitempty"`    // value for set
	Keep []string `json:"keep,omitempty"` // filter: keys kept; find: keys matched
}

type Case struct {
	Container string   `json:"container"` // rule | ast | cons | set
	Ctor      string   `json:"ctor"`      // zero | make | new (with Init)
	Init      []string `json:"init,omitempty"`
	Ops       []Op     `json:"ops"`
}

var universe = []string{"a", "b", "c", `q"x`}

// adapter gives the four containers one face; values are strings.
type adapter interface {
	Set(k, v string)
	Update(k string, suffix string)
	Delete(k string)
	Filter(keep func(k, v string) bool)
	Map(fn func(k, v string) (string, error)) error
	Find(pred func(k, v string) bool) (string, string, bool)
	Each(fn func(k, v string) error) error
	EachSafe(fn func(k, v string))
	Get(k string) (string, bool)
	GetValue(k string) string
	Has(k string) bool
	Len() int
	Marshal() ([]byte, error)
}

// ---- RuleASTNodes

type ruleAd struct{ m *schema.RuleASTNodes }

func rv(v string) schema.RuleASTNode { return schema.RuleASTNode{Value: v} }
func (a ruleAd) Set(k, v string)     { a.m.Set(k, rv(v)) }
func (a ruleAd) Update(k, s string) {
	a.m.Update(k, func(v schema.RuleASTNode) schema.RuleASTNode { v.Value += s; return v })
}
func (a ruleAd) Delete(k string) { a.m.Delete(k) }
func (a ruleAd) Filter(keep func(k, v string) bool) {
	a.m.Filter(func(k string, v schema.RuleASTNode) bool { return keep(k, v.Value) })
}
func (a ruleAd) Map(fn func(k, v string) (string, error)) error {
	return a.m.Map(func(k string, v schema.RuleASTNode) (schema.RuleASTNode, error) {
		s, err := fn(k, v.Value)
		v.Value = s
		return v, err
	})
}
func (a ruleAd) Find(p func(k, v string) bool) (string, string, bool) {
	it, ok := a.m.Find(func(k string, v schema.RuleASTNode) bool { return p(k, v.Value) })
	return it.Key, it.Value.Value, ok
}
func (a ruleAd) Each(fn func(k, v string) error) error {
	return a.m.Each(func(k string, v schema.RuleASTNode) error { return fn(k, v.Value) })
}
func (a ruleAd) EachSafe(fn func(k, v string)) {
	a.m.EachSafe(func(k string, v schema.RuleASTNode) { fn(k, v.Value) })
}
func (a ruleAd) Get(k string) (string, bool) { v, ok := a.m.Get(k); return v.Value, ok }
func (a ruleAd) GetValue(k string) string    { return a.m.GetValue(k).Value }
func (a ruleAd) Has(k string) bool           { return a.m.Has(k) }
func (a ruleAd) Len() int                    { return a.m.Len() }
func (a ruleAd) Marshal() ([]byte, error)    { return a.m.MarshalJSON() }

// ---- ASTNodes

type astAd struct{ m *schema.ASTNodes }

func av(v string) schema.ASTNode { return schema.ASTNode{Value: v} }
func (a astAd) Set(k, v string)  { a.m.Set(k, av(v)) }
func (a astAd) Update(k, s string) {
	a.m.Update(k, func(v schema.ASTNode) schema.ASTNode { v.Value += s; return v })
}
func (a astAd) Delete(k string) { a.m.Delete(k) }
func (a astAd) Filter(keep func(k, v string) bool) {
	a.m.Filter(func(k string, v schema.ASTNode) bool { return keep(k, v.Value) })
}
func (a astAd) Map(fn func(k, v string) (string, error)) error {
	return a.m.Map(func(k string, v schema.ASTNode) (schema.ASTNode, error) {
		s, err := fn(k, v.Value)
		v.Value = s
		return v, err
	})
}
func (a astAd) Find(p func(k, v string) bool) (string, string, bool) {
	it, ok := a.m.Find(func(k string, v schema.ASTNode) bool { return p(k, v.Value) })
	return it.Key, it.Value.Value, ok
}
func (a astAd) Each(fn func(k, v string) error) error {
	return a.m.Each(func(k string, v schema.ASTNode) error { return fn(k, v.Value) })
}
func (a astAd) EachSafe(fn func(k, v string)) {
	a.m.EachSafe(func(k string, v schema.ASTNode) { fn(k, v.Value) })
}
func (a astAd) Get(k string) (string, bool) { v, ok := a.m.Get(k); return v.Value, ok }
func (a astAd) GetValue(k string) string    { return a.m.GetValue(k).Value }
func (a astAd) Has(k string) bool           { return a.m.Has(k) }
func (a astAd) Len() int                    { return a.m.Len() }
func (a astAd) Marshal() ([]byte, error)    { return a.m.MarshalJSON() }

// ---- ischema.Constraints (keys are constraint types, values carry a number)

type consAd struct{ m *ischema.Constraints }

var consKeys = map[string]constraint.Type{"a": constraint.MinLengthConstraintType, "b": constraint.MaxLengthConstraintType,
	"c": constraint.MinItemsConstraintType, `q"x`: constraint.MaxItemsConstraintType}

func consKeyName(t constraint.Type) string {
	for n, k := range consKeys {
		if k == t {
			return n
		}
	}
	return "?"
}

// the value v is carried as the numeric rule value of a minLength constraint ("1", "2", "10", ...)
func cv(v string) constraint.Constraint { return constraint.NewMinLength(jbytes.NewBytes(v)) }
func cs(c constraint.Constraint) string {
	if c == nil {
		return ""
	}
	return c.ASTNode().Value
}
func (a consAd) Set(k, v string) { a.m.Set(consKeys[k], cv(v)) }
func (a consAd) Update(k, s string) {
	a.m.Update(consKeys[k], func(v constraint.Constraint) constraint.Constraint { return cv(cs(v) + s) })
}
func (a consAd) Delete(k string) { a.m.Delete(consKeys[k]) }
func (a consAd) Filter(keep func(k, v string) bool) {
	a.m.Filter(func(k constraint.Type, v constraint.Constraint) bool { return keep(consKeyName(k), cs(v)) })
}
func (a consAd) Map(fn func(k, v string) (string, error)) error {
	return a.m.Map(func(k constraint.Type, v constraint.Constraint) (constraint.Constraint, error) {
		s, err := fn(consKeyName(k), cs(v))
		return cv(s), err
	})
}
func (a consAd) Find(p func(k, v string) bool) (string, string, bool) {
	it, ok := a.m.Find(func(k constraint.Type, v constraint.Constraint) bool { return p(consKeyName(k), cs(v)) })
	if !ok {
		return "", "", false
	}
	return consKeyName(it.Key), cs(it.Value), ok
}
func (a consAd) Each(fn func(k, v string) error) error {
	return a.m.Each(func(k constraint.Type, v constraint.Constraint) error { return fn(consKeyName(k), cs(v)) })
}
func (a consAd) EachSafe(fn func(k, v string)) {
	a.m.EachSafe(func(k constraint.Type, v constraint.Constraint) { fn(consKeyName(k), cs(v)) })
}
func (a consAd) Get(k string) (string, bool) { v, ok := a.m.Get(consKeys[k]); return cs(v), ok }
func (a consAd) GetValue(k string) string    { return cs(a.m.GetValue(consKeys[k])) }
func (a consAd) Has(k string) bool           { return a.m.Has(consKeys[k]) }
func (a consAd) Len() int                    { return a.m.Len() }
func (a consAd) Marshal() ([]byte, error)    { return nil, nil } // keys are integers: JSON form not part of the property

var errStop = errors.New("stop")

func build(c Case) (adapter, *odict.Dict, *Verdict0) {
	ref := odict.New()
	initKeys := c.Init
	switch c.Container {
	case "rule":
		switch c.Ctor {
		case "make":
			return ruleAd{schema.MakeRuleASTNodes(2)}, ref, nil
		case "make0":
			return ruleAd{schema.MakeRuleASTNodes(0)}, ref, nil
		case "make1":
			return ruleAd{schema.MakeRuleASTNodes(1)}, ref, nil
		case "new":
			data := map[string]schema.RuleASTNode{}
			for _, k := range initKeys {
				data[k] = rv("0")
				ref.Set(k, "0")
			}
			return ruleAd{schema.NewRuleASTNodes(data, append([]string{}, ref.Keys...))}, ref, nil
		}
		return ruleAd{&schema.RuleASTNodes{}}, ref, nil
	case "ast":
		return astAd{&schema.ASTNodes{}}, ref, nil
	case "cons":
		return consAd{&ischema.Constraints{}}, ref, nil
	}
	return nil, ref, nil
}

type Verdict0 struct{}

func oracle(c Case) *ev.Verdict { return oracleN(c, false) }

// oracleSparse compares with the dictionary when the kind of operation changes and at the end
// (bulk phases of hundreds of steps; the comparison is linear in the universe)
func oracleSparse(c Case) *ev.Verdict { return oracleN(c, true) }

func oracleN(c Case, sparse bool) *ev.Verdict {
	if c.Container == "set" {
		return oracleSet(c)
	}
	// a bystander: a second container made the same way before the first operation. Whatever happens to the
	// container under test, the bystander stays what it was (containers share nothing).
	by, byRef, _ := build(c)
	a, ref, _ := build(c)
	if a == nil {
		return ev.V("harness:bad-container", "%s", c.Container)
	}
	if v := compare(c, -1, a, ref); v != nil {
		return v
	}
	defer func() {
		_ = by
		_ = byRef
	}()
	for i, op := range c.Ops {
		var v *ev.Verdict
		func() {
			defer func() {
				if r := recover(); r != nil {
					v = ev.V(c.Container+":panic:"+op.Op, "step %d %v panicked: %v", i, op, r)
				}
			}()
			v = apply(c, i, op, a, ref)
		}()
		if v != nil {
			return v
		}
		if sparse && i+1 < len(c.Ops) && c.Ops[i+1].Op == op.Op {
			if a.Len() != ref.Len() {
				return compare(c, i, a, ref)
			}
			continue
		}
		if v := compare(c, i, a, ref); v != nil {
			return v
		}
	}
	if v := compare(c, -1, by, byRef); v != nil {
		v.Sig = "bystander:" + v.Sig
		v.Detail = "a second container made the same way and never touched: " + v.Detail
		return v
	}
	if later, laterRef, _ := build(c); later != nil {
		if v := compare(c, -1, later, laterRef); v != nil {
			v.Sig = "made-later:" + v.Sig
			v.Detail = "a container made the same way after the operations: " + v.Detail
			return v
		}
	}
	return nil
}

func in(list []string, k string) bool {
	for _, x := range list {
		if x == k {
			return true
		}
	}
	return false
}

func apply(c Case, i int, op Op, a adapter, ref *odict.Dict) *ev.Verdict {
	sig := func(what string) string { return c.Container + ":" + op.Op + ":" + what }
	switch op.Op {
	case "set":
		a.Set(op.K, op.V)
		ref.Set(op.K, op.V)
	case "update":
		a.Update(op.K, "0")
		if ref.Has(op.K) {
			ref.Vals[op.K] += "0"
		}
	case "delete":
		a.Delete(op.K)
		ref.Delete(op.K)
	case "filter":
		// pure predicate over the key (and, for keep=["#v"], over the value)
		a.Filter(func(k, v string) bool { return in(op.Keep, k) })
		for _, k := range ref.Snapshot() {
			if !in(op.Keep, k) {
				ref.Delete(k)
			}
		}
	case "map":
		old := map[string]string{}
		for k, v := range ref.Vals {
			old[k] = v
		}
		err := a.Map(func(k, v string) (string, error) {
			if k == op.K {
				// what a failing callback returns beside its error is not a new value
				return "77", errStop
			}
			return v + "1", nil
		})
		fails := ref.Has(op.K)
		if fails != (err != nil) {
			return ev.V(sig("error"), "step %d: Map returned %v, callback failed at a present key: %v", i, err, fails)
		}
		if !fails {
			for k := range ref.Vals {
				ref.Vals[k] += "1"
			}
		} else {
			// which of the values visited before the error were already replaced is not part of the
			// property: accept old or new per key and resynchronise the model
			for _, k := range ref.Keys {
				got, ok := a.Get(k)
				if k == op.K && ok && got != old[k] {
					return ev.V(sig("failed-key"), "step %d: Map stopped by the callback's error at key %q, which now holds %q (was %q)", i, k, got, old[k])
				}
				if !ok || (got != old[k] && got != old[k]+"1") {
					return ev.V(sig("value"), "step %d: after failing Map key %q holds %q,%v (was %q)", i, k, got, ok, old[k])
				}
				ref.Vals[k] = got
			}
		}
	case "find":
		k, v, ok := a.Find(func(k, v string) bool { return in(op.Keep, k) })
		wantK, wantOK := "", false
		for _, kk := range ref.Keys {
			if in(op.Keep, kk) {
				wantK, wantOK = kk, true
				break
			}
		}
		if ok != wantOK || (ok && (k != wantK || v != ref.Vals[wantK])) {
			return ev.V(sig("result"), "step %d: Find(%v) = %q,%q,%v want %q,%q,%v", i, op.Keep, k, v, ok, wantK, ref.Vals[wantK], wantOK)
		}
	case "each":
		var visited []string
		err := a.Each(func(k, v string) error {
			visited = append(visited, k+"="+v)
			if k == op.K {
				return errStop
			}
			return nil
		})
		var want []string
		stopped := false
		for _, k := range ref.Keys {
			want = append(want, k+"="+ref.Vals[k])
			if k == op.K {
				stopped = true
				break
			}
		}
		if strings.Join(visited, ",") != strings.Join(want, ",") || stopped != (err != nil) {
			return ev.V(sig("visit"), "step %d: Each(stop at %q) visited %v err=%v, want %v stopped=%v", i, op.K, visited, err, want, stopped)
		}
	default:
		return ev.V("harness:bad-op", "%v", op)
	}
	return nil
}

func compare(c Case, step int, a adapter, ref *odict.Dict) *ev.Verdict {
	last := "init"
	if step >= 0 {
		last = c.Ops[step].Op
	}
	sig := func(what string) string { return c.Container + ":" + last + ":" + what }
	if a.Len() != ref.Len() {
		return ev.V(sig("len"), "after step %d (%s): Len=%d, dictionary has %d %v", step, last, a.Len(), ref.Len(), ref.Keys)
	}
	for _, k := range keysOf(c) {
		got, ok := a.Get(k)
		if ok != ref.Has(k) || a.Has(k) != ref.Has(k) || (ok && got != ref.Vals[k]) || a.GetValue(k) != ref.Vals[k] {
			return ev.V(sig("get"), "after step %d (%s): key %q Get=%q,%v Has=%v GetValue=%q; dictionary %q,%v",
				step, last, k, got, ok, a.Has(k), a.GetValue(k), ref.Vals[k], ref.Has(k))
		}
	}
	var want, order, order2 []string
	for _, k := range ref.Keys {
		want = append(want, k+"="+ref.Vals[k])
	}
	a.EachSafe(func(k, v string) { order = append(order, k+"="+v) })
	a.Each(func(k, v string) error { order2 = append(order2, k+"="+v); return nil })
	if strings.Join(order, ",") != strings.Join(want, ",") || strings.Join(order2, ",") != strings.Join(want, ",") {
		return ev.V(sig("order"), "after step %d (%s): iteration EachSafe=%v Each=%v, dictionary %v", step, last, order, order2, want)
	}
	b, err := a.Marshal()
	if b == nil && err == nil {
		return nil
	}
	if err != nil {
		return ev.V(sig("json-error"), "after step %d: MarshalJSON error %v", step, err)
	}
	j, perr := jsonv.Parse(b)
	if perr != nil || j.Kind != jsonv.Object {
		return ev.V(sig("json-invalid"), "after step %d: MarshalJSON gave %s (%v)", step, b, perr)
	}
	// (encoding/json writes U+FFFD for every byte that is not UTF-8: the only spelling JSON has for such a key)
	wantKeys := make([]string, len(ref.Keys))
	for i, k := range ref.Keys {
		wantKeys[i] = string([]rune(k))
	}
	if strings.Join(j.Keys, "\x00") != strings.Join(wantKeys, "\x00") {
		return ev.V(sig("json-keys"), "after step %d (%s): JSON keys %q, dictionary %q", step, last, j.Keys, ref.Keys)
	}
	for i, k := range ref.Keys {
		var val struct{ Value string }
		vb := j.Vals[i]
		if vv := vb.Get("value"); vv != nil {
			val.Value = vv.Str
		} else if vv := vb.Get("Value"); vv != nil {
			val.Value = vv.Str
		}
		if val.Value != ref.Vals[k] {
			return ev.V(sig("json-value"), "after step %d: JSON value of %q is %s, dictionary %q", step, k, vb.Canon(), ref.Vals[k])
		}
	}
	return nil
}

// ---- StringSet

func oracleSet(c Case) *ev.Verdict {
	var s *jschema.StringSet
	ref := odict.New()
	if c.Ctor == "new" {
		// the caller's slice is its own again after the call: it is overwritten straight away
		mine := append(make([]string, 0, len(c.Init)+4), c.Init...)
		s = jschema.NewStringSet(mine...)
		for i := range mine {
			mine[i] = "@overwritten-by-the-caller"
		}
		mine = append(mine[:0], "@x1", "@x2", "@x3")
		_ = mine
		for _, k := range c.Init {
			ref.Set(k, "")
		}
	} else {
		s = &jschema.StringSet{}
	}
	cmp := func(step int, last string) *ev.Verdict {
		if s.Len() != ref.Len() {
			return ev.V("set:"+last+":len", "after step %d: Len=%d, reference %d %v", step, s.Len(), ref.Len(), ref.Keys)
		}
		for _, k := range keysOf(c) {
			if s.Has(k) != ref.Has(k) {
				return ev.V("set:"+last+":has", "after step %d: Has(%q)=%v", step, k, s.Has(k))
			}
		}
		if strings.Join(s.Data(), "\x00") != strings.Join(ref.Keys, "\x00") {
			return ev.V("set:"+last+":data", "after step %d: Data=%q, reference %q", step, s.Data(), ref.Keys)
		}
		return nil
	}
	if v := cmp(-1, "init"); v != nil {
		return v
	}
	for i, op := range c.Ops {
		if op.Op != "add" {
			continue
		}
		s.Add(op.K)
		ref.Set(op.K, "")
		if v := cmp(i, "add"); v != nil {
			return v
		}
	}
	return nil
}

// keysOf: the universe plus every key the case mentions
func keysOf(c Case) []string {
	seen := map[string]bool{}
	var out []string
	add := func(k string) {
		if !seen[k] {
			seen[k] = true
			out = append(out, k)
		}
	}
	for _, k := range universe {
		add(k)
	}
	for _, k := range c.Init {
		add(k)
	}
	for _, op := range c.Ops {
		if op.Op == "set" || op.Op == "update" || op.Op == "delete" || op.Op == "add" {
			add(op.K)
		}
		for _, k := range op.Keep {
			add(k)
		}
	}
	return out
}

// ---- generation

func nontrivial(c Case) bool {
	ins := map[string]bool{}
	for _, k := range c.Init {
		ins[k] = true
	}
	for _, op := range c.Ops {
		switch op.Op {
		case "set", "add":
			ins[op.K] = true
		case "delete", "filter":
			if len(ins) >= 2 {
				return true
			}
		}
	}
	return c.Container == "set" && len(ins) >= 2
}

func opAlphabet(keys []string) []Op {
	var ops []Op
	for _, k := range keys {
		for _, v := range []string{"1", "2"} {
			ops = append(ops, Op{Op: "set", K: k, V: v})
		}
	}
	for _, k := range keys {
		ops = append(ops, Op{Op: "update", K: k}, Op{Op: "delete", K: k})
	}
	// filters: every subset of keys kept
	for m := 0; m < 1<<len(keys); m++ {
		keep := []string{}
		for i, k := range keys {
			if m&(1<<i) != 0 {
				keep = append(keep, k)
			}
		}
		ops = append(ops, Op{Op: "filter", Keep: keep})
	}
	ops = append(ops, Op{Op: "map", K: "-"})
	for _, k := range keys {
		ops = append(ops, Op{Op: "map", K: k})
	}
	return ops
}

func TestPropExhaustive(t *testing.T) {
	registerAll()
	keys := []string{"a", "b", "c"}
	alpha := opAlphabet(keys)
	maxLen := ev.N(3, 5)
	for _, cont := range []string{"rule", "ast", "cons"} {
		name := "exhaustive-" + cont
		ev.KeepFirst(name)
		idx := 0
		var nt int64
		for l := 0; l <= maxLen; l++ {
			total := 1
			for i := 0; i < l; i++ {
				total *= len(alpha)
			}
			for n := 0; n < total; n++ {
				idx++
				if !ev.Mine(idx) {
					continue
				}
				ops := make([]Op, l)
				x := n
				for i := l - 1; i >= 0; i-- {
					ops[i] = alpha[x%len(alpha)]
					x /= len(alpha)
				}
				c := Case{Container: cont, Ctor: "zero", Ops: ops}
				if nontrivial(c) {
					nt++
					if ev.WantSample(name) && l == maxLen {
						ev.Sample(name, c)
					}
				}
				if ev.Judge(name, c, oracle(c)) {
					t.Errorf("VIOLATION-CANDIDATE %s: %+v", name, c)
				}
			}
		}
		ev.NonTrivialEnum(name, nt)
		ev.Exhaustive(name, fmt.Sprintf("all operation sequences of length <= %d over %d operations (set x2 values, update, delete, filter by every key subset, map with/without failure) on keys %v", maxLen, len(alpha), keys))
	}
	// string set: all add sequences and all constructor argument lists up to length 4/5 over 3 keys
	name := "exhaustive-set"
	ev.KeepFirst(name)
	var nt int64
	L := ev.N(4, 6)
	idx := 0
	for _, ctor := range []string{"zero", "new"} {
		for l := 0; l <= L; l++ {
			total := 1
			for i := 0; i < l; i++ {
				total *= 3
			}
			for n := 0; n < total; n++ {
				idx++
				if !ev.Mine(idx) {
					continue
				}
				seq := make([]string, l)
				x := n
				for i := l - 1; i >= 0; i-- {
					seq[i] = keys[x%3]
					x /= 3
				}
				// split: first half constructor args, rest adds
				for cut := 0; cut <= l; cut++ {
					if ctor == "zero" && cut > 0 {
						break
					}
					c := Case{Container: "set", Ctor: ctor, Init: seq[:cut]}
					for _, k := range seq[cut:] {
						c.Ops = append(c.Ops, Op{Op: "add", K: k})
					}
					if nontrivial(c) {
						nt++
						if ev.WantSample(name) && l >= 3 {
							ev.Sample(name, c)
						}
					}
					if ev.Judge(name, c, oracle(c)) {
						t.Errorf("VIOLATION-CANDIDATE %s: %+v", name, c)
					}
				}
			}
		}
	}
	ev.NonTrivialEnum(name, nt)
	ev.Exhaustive(name, fmt.Sprintf("all NewStringSet argument lists / Add sequences of total length <= %d over 3 keys", L))
}

func genCase(t *rapid.T) Case {
	cont := rapid.SampledFrom([]string{"rule", "rule", "ast", "cons", "set"}).Draw(t, "container")
	c := Case{Container: cont, Ctor: "zero"}
	key := rapid.SampledFrom(universe)
	if cont == "set" {
		if rapid.Bool().Draw(t, "ctor") {
			c.Ctor = "new"
			c.Init = rapid.SliceOfN(key, 0, 5).Draw(t, "init")
		}
		n := rapid.IntRange(0, 12).Draw(t, "n")
		for i := 0; i < n; i++ {
			c.Ops = append(c.Ops, Op{Op: "add", K: key.Draw(t, "k")})
		}
		return c
	}
	if cont == "rule" {
		c.Ctor = rapid.SampledFrom([]string{"zero", "make", "new", "make0", "make1"}).Draw(t, "ctor")
		if c.Ctor == "new" {
			c.Init = rapid.SliceOfNDistinct(key, 0, 4, func(s string) string { return s }).Draw(t, "init")
		}
	}
	n := rapid.IntRange(1, 40).Draw(t, "n")
	for i := 0; i < n; i++ {
		var op Op
		switch rapid.IntRange(0, 9).Draw(t, "op") {
		case 0, 1, 2:
			op = Op{Op: "set", K: key.Draw(t, "k"), V: rapid.SampledFrom([]string{"1", "2", "3"}).Draw(t, "v")}
		case 3:
			op = Op{Op: "update", K: key.Draw(t, "k")}
		case 4, 5:
			op = Op{Op: "delete", K: key.Draw(t, "k")}
		case 6:
			op = Op{Op: "filter", Keep: rapid.SliceOfDistinct(key, func(s string) string { return s }).Draw(t, "keep")}
		case 7:
			op = Op{Op: "map", K: rapid.SampledFrom(append([]string{"-"}, universe...)).Draw(t, "fail")}
		case 8:
			op = Op{Op: "find", Keep: rapid.SliceOfDistinct(key, func(s string) string { return s }).Draw(t, "match")}
		default:
			op = Op{Op: "each", K: rapid.SampledFrom(append([]string{"-"}, universe...)).Draw(t, "stop")}
		}
		if op.Keep == nil && (op.Op == "filter" || op.Op == "find") {
			op.Keep = []string{}
		}
		c.Ops = append(c.Ops, op)
	}
	return c
}

func judged(c Case) *ev.Verdict {
	if nontrivial(c) {
		b, _ := json.Marshal(c)
		ev.NonTrivial("random", string(b))
		ev.Class("random", "container="+c.Container)
		if ev.WantSample("random") {
			ev.Sample("random", c)
		}
	}
	return oracle(c)
}

// hostileKeys: what a property name of a rule object may be - any JSON string
var hostileKeys = []string{"", " ", "\x00", "\x01", "\x1f", "\a", "\v", "\b", "\f", "\n", "\r", "\t", "\x7f", "\xff", "\xc3", "\xe2\x82", "a\xffb", "\u0080", "\u2028", "\u2029", "\ufffd", "\U000e0001", "\U0001f600", "é", "€", "<", ">", "&", "\\", "/", "'", `"`, `\u0041`, "A", "a ", "ａ", strings.Repeat("k", 300)}

// genWide: large key universes and bulk phases (grow far beyond the usual handful of rules, shrink
// to a few by Delete / Filter, grow again), and keys that are arbitrary strings
func genWide(t *rapid.T) Case {
	cont := rapid.SampledFrom([]string{"rule", "ast", "set"}).Draw(t, "container")
	c := Case{Container: cont, Ctor: "zero"}
	n := rapid.SampledFrom([]int{6, 20, 66, 70, 130, 150, 260, 300}).Draw(t, "universe")
	var keys []string
	nh := rapid.IntRange(0, 8).Draw(t, "hostile")
	keys = append(keys, rapid.SliceOfNDistinct(rapid.SampledFrom(hostileKeys), nh, nh, func(s string) string { return s }).Draw(t, "hk")...)
	for i := len(keys); i < n; i++ {
		keys = append(keys, fmt.Sprintf("k%03d", i))
	}
	perm := func(label string) []string {
		out := append([]string{}, keys...)
		if rapid.Bool().Draw(t, label+"shuffled") {
			for i := len(out) - 1; i > 0; i-- {
				j := rapid.IntRange(0, i).Draw(t, label)
				out[i], out[j] = out[j], out[i]
			}
		}
		return out
	}
	if cont == "set" {
		if rapid.Bool().Draw(t, "ctor") {
			c.Ctor = "new"
			c.Init = perm("init")[:rapid.IntRange(0, n).Draw(t, "ninit")]
		}
		for _, k := range perm("adds") {
			c.Ops = append(c.Ops, Op{Op: "add", K: k})
		}
		return c
	}
	if cont == "rule" {
		c.Ctor = rapid.SampledFrom([]string{"zero", "make", "new", "make0", "make1"}).Draw(t, "ctor")
		if c.Ctor == "new" {
			c.Init = perm("init")[:rapid.IntRange(0, n).Draw(t, "ninit")]
		}
	}
	phases := rapid.IntRange(1, 4).Draw(t, "phases")
	for ph := 0; ph < phases; ph++ {
		switch rapid.IntRange(0, 5).Draw(t, "phase") {
		case 0, 1: // grow
			for _, k := range perm("grow")[:rapid.IntRange(1, n).Draw(t, "ngrow")] {
				c.Ops = append(c.Ops, Op{Op: "set", K: k, V: rapid.SampledFrom([]string{"1", "2"}).Draw(t, "v")})
			}
		case 2: // shrink by delete, leaving few
			left := rapid.IntRange(0, 6).Draw(t, "left")
			for _, k := range perm("del")[left:] {
				c.Ops = append(c.Ops, Op{Op: "delete", K: k})
			}
		case 3: // shrink by filter
			left := rapid.IntRange(0, 6).Draw(t, "fleft")
			c.Ops = append(c.Ops, Op{Op: "filter", Keep: perm("keep")[:left]})
		case 4:
			c.Ops = append(c.Ops, Op{Op: "map", K: rapid.SampledFrom(append([]string{"-"}, keys...)).Draw(t, "fail")})
		default:
			c.Ops = append(c.Ops, Op{Op: "each", K: rapid.SampledFrom(append([]string{"-"}, keys...)).Draw(t, "stop")},
				Op{Op: "find", Keep: perm("match")[:rapid.IntRange(0, 3).Draw(t, "nm")]})
		}
	}
	return c
}

// compareEvery: in a wide case the full comparison runs after the steps that end a phase only
func judgedWide(c Case) *ev.Verdict {
	grown, shrunk, hostile := 0, false, false
	live := map[string]bool{}
	for _, k := range c.Init {
		live[k] = true
	}
	for _, op := range c.Ops {
		switch op.Op {
		case "set", "add":
			live[op.K] = true
			if len(live) > grown {
				grown = len(live)
			}
		case "delete":
			delete(live, op.K)
		case "filter":
			for k := range live {
				if !in(op.Keep, k) {
					delete(live, k)
				}
			}
		}
		if grown > 64 && len(live)*4 <= grown {
			shrunk = true
		}
	}
	for _, k := range keysOf(c) {
		if in(hostileKeys, k) && k != "A" && k != "<" {
			hostile = true
		}
	}
	if grown > 64 {
		ev.Class("wide", "more than 64 keys")
	}
	if shrunk {
		ev.Class("wide", "grown beyond 64 then shrunk to a quarter or less")
	}
	if hostile {
		ev.Class("wide", "keys with control / non-UTF-8 / non-BMP / JSON-special characters")
	}
	if shrunk || hostile {
		b, _ := json.Marshal(c)
		ev.NonTrivial("wide", string(b))
		if ev.WantSample("wide") && len(b) < 3000 {
			ev.Sample("wide", c)
		}
	}
	return oracleSparse(c)
}

func registerAll() {
	ev.Register("wide", judgedWide)
	ev.Register("random", judged)
	ev.Register("interleaved", judgedInterleaved)
	for _, n := range []string{"exhaustive-rule", "exhaustive-ast", "exhaustive-cons", "exhaustive-set"} {
		ev.Register(n, oracle)
	}
}

func TestPropRandom(t *testing.T) {
	registerAll()
	ev.Rapid(t, "random", ev.N(8000, 20000), genCase, judged)
}

// ---- an iteration and a mutation by another goroutine: the iteration is one operation of the history

// ICase: goroutine A iterates; inside the callback for the At-th element goroutine B is released and
// performs one mutating operation. Whatever the schedule, the two operations take effect one after the
// other: the iteration shows the content before the mutation or after it, never a mixture, and the final
// content is that of the dictionary after the mutation.
type ICase struct {
	Container string   `json:"container"` // rule | ast | cons
	Keys      []string `json:"keys"`
	Iter      string   `json:"iter"` // each | eachsafe | find
	At        int      `json:"at"`
	Mut       Op       `json:"mut"`
}

var universe8 = []string{"a", "b", "c", `q"x`, "e", "f", "g", "h"}

func interleaved(c ICase) *ev.Verdict {
	base := Case{Container: c.Container, Ctor: "zero"}
	a, ref, _ := build(base)
	if a == nil {
		return ev.V("harness:bad-container", "%s", c.Container)
	}
	for i, k := range c.Keys {
		a.Set(k, fmt.Sprint(i+1))
		ref.Set(k, fmt.Sprint(i+1))
	}
	var before []string
	for _, k := range ref.Keys {
		before = append(before, k+"="+ref.Vals[k])
	}
	release, done := make(chan struct{}), make(chan struct{})
	go func() {
		defer close(done)
		defer func() { _ = recover() }()
		<-release
		switch c.Mut.Op {
		case "delete":
			a.Delete(c.Mut.K)
		case "filter":
			a.Filter(func(k, v string) bool { return in(c.Mut.Keep, k) })
		case "set":
			a.Set(c.Mut.K, c.Mut.V)
		case "update":
			a.Update(c.Mut.K, "0")
		}
	}()
	var visited []string
	n := 0
	visit := func(k, v string) {
		visited = append(visited, k+"="+v)
		if n == c.At {
			close(release)
			time.Sleep(2 * time.Millisecond) // time for the other goroutine to run into the operation
		}
		n++
	}
	switch c.Iter {
	case "each":
		_ = a.Each(func(k, v string) error { visit(k, v); return nil })
	case "eachsafe":
		a.EachSafe(visit)
	default:
		a.Find(func(k, v string) bool { visit(k, v); return false })
	}
	if n <= c.At {
		close(release)
	}
	select {
	case <-done:
	case <-time.After(120 * time.Second):
		return ev.V(c.Container+":interleaved:mutation-never-returns", "%s by another goroutine during %s did not return within 120 s (keys %q)", c.Mut.Op, c.Iter, c.Keys)
	}
	// the model after the mutation
	switch c.Mut.Op {
	case "delete":
		ref.Delete(c.Mut.K)
	case "filter":
		for _, k := range ref.Snapshot() {
			if !in(c.Mut.Keep, k) {
				ref.Delete(k)
			}
		}
	case "set":
		ref.Set(c.Mut.K, c.Mut.V)
	case "update":
		if ref.Has(c.Mut.K) {
			ref.Vals[c.Mut.K] += "0"
		}
	}
	var after []string
	for _, k := range ref.Keys {
		after = append(after, k+"="+ref.Vals[k])
	}
	got := strings.Join(visited, ",")
	if got != strings.Join(before, ",") && got != strings.Join(after, ",") {
		return ev.V(c.Container+":interleaved:"+c.Iter+":torn-by-"+c.Mut.Op, "%s over %v while another goroutine performs %v visited %v: neither the content before (%v) nor after (%v) the operation", c.Iter, c.Keys, c.Mut, visited, before, after)
	}
	fake := Case{Container: c.Container, Ops: []Op{c.Mut}}
	for _, k := range c.Keys {
		fake.Init = append(fake.Init, k)
	}
	return compare(fake, 0, a, ref)
}

func genICase(t *rapid.T) ICase {
	c := ICase{Container: rapid.SampledFrom([]string{"rule", "ast", "cons"}).Draw(t, "container"), Iter: rapid.SampledFrom([]string{"each", "eachsafe", "find"}).Draw(t, "iter")}
	uni := universe8
	if c.Container == "cons" {
		uni = universe
	}
	c.Keys = rapid.SliceOfNDistinct(rapid.SampledFrom(uni), 2, len(uni), func(s string) string { return s }).Draw(t, "keys")
	c.At = rapid.IntRange(0, len(c.Keys)-1).Draw(t, "at")
	key := rapid.SampledFrom(uni)
	switch rapid.IntRange(0, 5).Draw(t, "mut") {
	case 0, 1, 2:
		c.Mut = Op{Op: "delete", K: key.Draw(t, "k")}
	case 3:
		c.Mut = Op{Op: "filter", Keep: rapid.SliceOfDistinct(key, func(s string) string { return s }).Draw(t, "keep")}
		if c.Mut.Keep == nil {
			c.Mut.Keep = []string{}
		}
	case 4:
		c.Mut = Op{Op: "set", K: key.Draw(t, "k"), V: "9"}
	default:
		c.Mut = Op{Op: "update", K: key.Draw(t, "k")}
	}
	return c
}

func judgedInterleaved(c ICase) *ev.Verdict {
	present := false
	for i, k := range c.Keys {
		if (c.Mut.Op == "delete" && k == c.Mut.K && i >= c.At) || (c.Mut.Op == "filter" && !in(c.Mut.Keep, k) && i >= c.At) {
			present = true
		}
	}
	if present {
		b, _ := json.Marshal(c)
		ev.NonTrivial("interleaved", string(b))
		if ev.WantSample("interleaved") {
			ev.Sample("interleaved", c)
		}
	}
	ev.Class("interleaved", c.Iter+" while "+c.Mut.Op)
	return interleaved(c)
}

func TestPropInterleaved(t *testing.T) {
	registerAll()
	ev.Rapid(t, "interleaved", ev.N(250, 2500), genICase, judgedInterleaved)
}

func TestPropWide(t *testing.T) {
	registerAll()
	ev.Rapid(t, "wide", ev.N(1500, 12000), genWide, judgedWide)
}

func TestPropRegressions(t *testing.T) {
	registerAll()
	ev.ReplayDir(t, ev.Root()+"/regress/C19")
}

func TestReplay(t *testing.T) {
	registerAll()
	ev.Replay(t)
}
