package c19

import (
	"testing"

	"verif/internal/ev"
)

// FuzzContainers: bytes decoded into an operation history (container, constructor, initial keys, then
// one operation per two bytes) judged by the whole C19 oracle against the reference dictionary.
func FuzzContainers(f *testing.F) {
	f.Add([]byte{0, 0, 0, 0, 1, 9, 0, 12, 3})
	f.Add([]byte{1, 0, 0, 0, 0, 2, 1, 8, 0, 13, 5, 30, 2})
	f.Add([]byte{2, 0, 0, 4, 0, 0, 1, 12, 0})
	f.Add([]byte{3, 1, 3, 0, 1, 0, 0, 1, 1, 0, 0})
	f.Add([]byte{0, 2, 7, 1, 2, 3, 12, 1, 0, 0})
	keys := universe
	ops := opAlphabet(keys)
	for _, k := range append([]string{"-"}, keys...) {
		ops = append(ops, Op{Op: "each", K: k})
	}
	for m := 0; m < 1<<len(keys); m++ {
		keep := []string{}
		for i, k := range keys {
			if m&(1<<i) != 0 {
				keep = append(keep, k)
			}
		}
		ops = append(ops, Op{Op: "find", Keep: keep})
	}
	f.Fuzz(func(t *testing.T, data []byte) {
		if len(data) < 3 || len(data) > 200 {
			return
		}
		c := Case{Container: []string{"rule", "ast", "cons", "set"}[data[0]%4], Ctor: "zero"}
		pos := 3
		grow := 0
		if c.Container == "rule" {
			c.Ctor = []string{"zero", "make", "new"}[data[1]%3]
		}
		if c.Container == "set" && data[1]%2 == 1 {
			c.Ctor = "new"
		}
		if c.Ctor == "new" {
			n := int(data[2] % 5)
			seen := map[string]bool{}
			for i := 0; i < n && pos < len(data); i++ {
				k := keys[int(data[pos])%len(keys)]
				pos++
				if c.Container == "rule" && seen[k] {
					continue // NewRuleASTNodes takes a map and an order: one entry per key
				}
				seen[k] = true
				c.Init = append(c.Init, k)
			}
		}
		for ; pos < len(data); pos++ {
			if c.Container == "set" {
				c.Ops = append(c.Ops, Op{Op: "add", K: keys[int(data[pos])%len(keys)]})
				continue
			}
			op := ops[int(data[pos])%len(ops)]
			if c.Container == "cons" && (op.Op == "map" || op.Op == "update") {
				// the value of a constraint is a number that these operations make one digit longer:
				// beyond 18 digits the adapter could not build the constraint any more
				if grow++; grow > 15 {
					continue
				}
			}
			c.Ops = append(c.Ops, op)
		}
		ev.Fuzz(t, "containers", oracle(c))
	})
}
