package c14

import (
	"testing"

	"verif/internal/corpus"
	"verif/internal/ev"
)

// FuzzLayout: any text under the context-free re-layouts (newline convention, padding at line starts
// and ends, blank lines around) judged by the corpus oracle: same verdict and code and, when accepted,
// the same AST, example, used types and OpenAPI text. Texts with CR are left to the model-based check
// (a CR inside the input already is a line end of another convention).
func FuzzLayout(f *testing.F) {
	seeds := []string{"{\n  \"a\": 1, // {min: 0} - note\n  \"b\": [\n    \"x\" // {minLength: 1}\n  ]\n}", "1 /* {min: 0,\n max: 5} */", "{ // {additionalProperties: \"string\"}\n  \"k\": \"v\" # c\n}",
		"[ // {minItems: 1}\n  1, # one\n  2\n]", "\"s\" /* {enum: [\n \"s\", // first\n \"t\"\n]} */", "{\n  \"a\": 1 // {min: 2}\n}", "###\nblock\n###\n{}", "1 // {or: [ {type: \"integer\"},\n {type: \"string\"} ]}"}
	for i, s := range corpus.Literals() {
		if i%25 == 0 && len(s) < 300 {
			seeds = append(seeds, s)
		}
	}
	trs := []string{"crlf", "cr", "pad-line-ends", "pad-line-starts", "blank-lines-around"}
	for _, s := range seeds {
		for i := range trs {
			f.Add(append([]byte{byte(i)}, s...))
		}
	}
	f.Fuzz(func(t *testing.T, data []byte) {
		if len(data) < 1 || len(data) > 1024 {
			return
		}
		text := string(data[1:])
		for i := 0; i < len(text); i++ {
			if text[i] == '\r' {
				return
			}
		}
		ev.Fuzz(t, "layout", corpusOracle(CorpusCase{Text: text, Transform: trs[int(data[0])%len(trs)]}))
	})
}
