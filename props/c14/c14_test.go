// C14 - meaning is independent of layout: spacing, newlines, annotation style, comments.
package c14

import (
	"fmt"
	"sort"
	"strings"
	"testing"

	"pgregory.net/rapid"

	"verif/internal/corpus"
	"verif/internal/ev"
	"verif/internal/gen"
	"verif/internal/model"
	"verif/internal/norm"
	"verif/internal/sut"
)

func TestMain(m *testing.M) { ev.Main(m, "C14") }

type Case struct {
	P *model.Project `json:"project"`
	A *model.Layout  `json:"a"`
	B *model.Layout  `json:"b"`
}

// firstDiff names the first observable that differs between two outcomes of one model
func firstDiff(a, b *sut.Outcome) (string, string) {
	regCode := func(o *sut.Outcome) string {
		var parts []string
		for n, e := range o.AddErr {
			parts = append(parts, fmt.Sprintf("%s:%d", n, e.Code))
		}
		for n, e := range o.RuleErr {
			parts = append(parts, fmt.Sprintf("%s:%d", n, e.Code))
		}
		sort.Strings(parts)
		return strings.Join(parts, " ")
	}
	if regCode(a) != regCode(b) {
		return "registration", fmt.Sprintf("registration errors %q vs %q", regCode(a), regCode(b))
	}
	if sut.CodeOf(a.Check) != sut.CodeOf(b.Check) {
		return "verdict", fmt.Sprintf("Check() %v vs %v", a.Check, b.Check)
	}
	if a.Check != nil {
		return "", ""
	}
	if norm.AST(a.AST) != norm.AST(b.AST) {
		return "ast", fmt.Sprintf("AST\n%s\nvs\n%s", a.AST, b.AST)
	}
	if a.Example != b.Example || (a.ExampleErr == nil) != (b.ExampleErr == nil) {
		return "example", fmt.Sprintf("Example %q,%v vs %q,%v", a.Example, a.ExampleErr, b.Example, b.ExampleErr)
	}
	if fmt.Sprint(a.Used) != fmt.Sprint(b.Used) {
		return "used-types", fmt.Sprintf("UsedUserTypes %v vs %v", a.Used, b.Used)
	}
	if a.OpenAPI != b.OpenAPI || a.OpenAPIErr != b.OpenAPIErr {
		return "openapi", fmt.Sprintf("OpenAPI %s,%s vs %s,%s", a.OpenAPI, a.OpenAPIErr, b.OpenAPI, b.OpenAPIErr)
	}
	for n, x := range a.TypeOpenAPI {
		if b.TypeOpenAPI[n] != x {
			return "openapi-type", fmt.Sprintf("OpenAPI of %s: %s vs %s", n, x, b.TypeOpenAPI[n])
		}
	}
	return "", ""
}

func layoutFeature(a, b *model.Layout) string {
	switch {
	case a.EmptyComments != b.EmptyComments:
		return "empty-comment"
	case a.BreakColon != b.BreakColon:
		return "break-after-rule-colon"
	case a.Annot != b.Annot:
		return "annotation-style"
	case a.Comments != b.Comments:
		return "user-comments"
	case a.NL != b.NL:
		return "newline"
	case a.Quote != b.Quote:
		return "quoted-names"
	case a.Compact != b.Compact:
		return "compact"
	}
	return "padding"
}

func oracle(c Case) *ev.Verdict {
	if c.P == nil || c.P.Root == nil {
		return nil
	}
	ta, tb := c.P.Text(c.A), c.P.Text(c.B)
	oa, ob := sut.Observe(ta), sut.Observe(tb)
	for _, o := range []*sut.Outcome{oa, ob} {
		if len(o.Escapes) > 0 {
			e := o.Escapes[0]
			return ev.V("panic:"+e.Op+":"+e.Frame, "%s panicked: %s\n%s", e.Op, e.Value, ta)
		}
	}
	if what, detail := firstDiff(oa, ob); what != "" {
		return ev.V(layoutFeature(c.A, c.B)+":"+what, "two spellings of one schema differ in %s\n--- A (%+v)\n%s\n--- B (%+v)\n%s", detail, *c.A, ta, *c.B, tb)
	}
	return nil
}

func annotated(p *model.Project) bool {
	has := false
	visit := func(n *model.Node) {
		if len(n.Rules) > 0 || n.Note != "" {
			has = true
		}
	}
	p.Root.Walk(visit)
	for _, t := range p.Types {
		t.Node.Walk(visit)
	}
	return has
}

var notePool = []string{"", "", "", "a note", "note with - dash", "Ünïcode ✓", "quotes \" and 'single'", "star * slash / x", "123", "{not rules}"}

func addNotes(t *rapid.T, n *model.Node) {
	n.Walk(func(k *model.Node) {
		k.Note = rapid.SampledFrom(notePool).Draw(t, "note")
		if k.Note == "{not rules}" && len(k.Rules) == 0 {
			k.Note = "" // a note-only annotation that starts with '{' would be read as rules
		}
	})
}

// structural defects: the text stays scannable, the rejection has a non-value reason
func breakStructure(t *rapid.T, p *model.Project) {
	var scalars []*model.Node
	p.Root.Walk(func(n *model.Node) {
		if n.Kind != "object" && n.Kind != "array" && n.Kind != "ref" && n.Kind != "choice" {
			scalars = append(scalars, n)
		}
	})
	if len(scalars) == 0 {
		return
	}
	n := rapid.SampledFrom(scalars).Draw(t, "victim")
	switch rapid.IntRange(0, 3).Draw(t, "defect") {
	case 0:
		n.Rules = append(n.Rules, model.R("unknownRule", model.Num("1")))
	case 1:
		n.Rules = []model.Rule{model.R("minItems", model.Num("1"))}
	case 2:
		n.Rules = []model.Rule{model.R("type", model.Str("nosuchtype"))}
	default:
		n.Rules = append(n.Rules, model.R("optional", model.Bool(true)), model.R("optional", model.Bool(true)))
	}
}

func genCase(t *rapid.T) Case {
	p := genProject(t)
	if rapid.IntRange(0, 1).Draw(t, "notes") == 0 {
		addNotes(t, p.Root)
		for _, ty := range p.Types {
			if ty.Node != nil {
				addNotes(t, ty.Node)
			}
		}
	}
	if rapid.IntRange(0, 5).Draw(t, "structural") == 0 {
		breakStructure(t, p)
	}
	o := gen.LayoutOpts{}
	a := gen.Layout(t, o)
	var b *model.Layout
	if rapid.IntRange(0, 3).Draw(t, "canonical") == 0 {
		b = &model.Layout{}
	} else {
		b = gen.Layout(t, o)
	}
	return Case{P: p, A: a, B: b}
}

func genProject(t *rapid.T) *model.Project {
	return gen.Project(t, gen.ProjectOpts{MaxTypes: 2, KeyType: true, EnumNotes: true})
}

func judged(c Case) *ev.Verdict {
	if c.P != nil && c.P.Root != nil && annotated(c.P) && (c.A.Annot != c.B.Annot || c.A.NL != c.B.NL || c.A.Comments != c.B.Comments) {
		ev.NonTrivial("models", c.P.Text(c.A).String()+"\x00"+c.P.Text(c.B).String())
		ev.Class("models", "pair:"+layoutFeature(c.A, c.B))
		if ev.WantSample("models") {
			ev.Sample("models", map[string]any{"a": c.P.Text(c.A), "b": c.P.Text(c.B)})
		}
	}
	return oracle(c)
}

// ---- the same textual defect in a text without and with `# comment`s at its line ends

// DCase: a model printed canonically (annotations as `// ...`) without comments and with `# c` comments
// at line ends - the two texts have the same lines. One defect is applied to both at the same line:
// a line inserted after it (an annotation on a line of its own, a second rule annotation, garbage) or
// the text cut off after it. Comments are presentation: both texts must get the same verdict and code.
type DCase struct {
	P      *model.Project `json:"project"`
	Seq    []int          `json:"seq"`
	Line   int            `json:"line"`
	Defect int            `json:"defect"`
}

var lineDefects = []string{"// extra note", "// {min: 0}", "/* {optional: true} */", "x", "// {min: 0} - and a note", "}", "  # only a comment", ""}

func defectOracle(c DCase) *ev.Verdict {
	if c.P == nil || c.P.Root == nil {
		return nil
	}
	plain := c.P.Text(&model.Layout{Seq: c.Seq})
	noted := c.P.Text(&model.Layout{Seq: c.Seq, Comments: 1})
	la, lb := strings.Split(plain.Root, "\n"), strings.Split(noted.Root, "\n")
	if len(la) != len(lb) || len(la) == 0 {
		ev.Excluded("defects", "the commented text has other lines than the plain one")
		return nil
	}
	differs := false
	for i := range la {
		if la[i] != lb[i] {
			differs = true
			if !strings.HasPrefix(lb[i], la[i]) {
				ev.Excluded("defects", "a comment is not at a line end")
				return nil
			}
		}
	}
	if !differs {
		return nil
	}
	i := c.Line % len(la)
	d := lineDefects[c.Defect%len(lineDefects)]
	apply := func(lines []string) string {
		out := append([]string{}, lines[:i+1]...)
		if d != "" {
			out = append(out, d)
			out = append(out, lines[i+1:]...)
		}
		return strings.Join(out, "\n")
	}
	pa, pb := plain, noted
	pa.Root, pb.Root = apply(la), apply(lb)
	oa, ob := sut.Observe(pa), sut.Observe(pb)
	for _, o := range []*sut.Outcome{oa, ob} {
		if len(o.Escapes) > 0 {
			e := o.Escapes[0]
			return ev.V("panic:"+e.Op+":"+e.Frame, "%s panicked: %s\n%s", e.Op, e.Value, pb.Root)
		}
	}
	if la[i] != lb[i] {
		ev.NonTrivial("defects", pb.Root)
		ev.Class("defects", fmt.Sprintf("defect %q after a commented line: code %d", d, sut.CodeOf(oa.Check)))
		if ev.WantSample("defects") {
			ev.Sample("defects", map[string]string{"plain": pa.Root, "commented": pb.Root})
		}
	}
	if sut.CodeOf(oa.Check) != sut.CodeOf(ob.Check) {
		return ev.V(fmt.Sprintf("defect-under-comments:code-%d-vs-%d", sut.CodeOf(oa.Check), sut.CodeOf(ob.Check)), "the same defect (%q after line %d) gives %v without and %v with `# c` comments at line ends\n--- plain\n%s\n--- commented\n%s", d, i+1, oa.Check, ob.Check, pa.Root, pb.Root)
	}
	if oa.Check == nil {
		if what, detail := firstDiff(oa, ob); what != "" {
			return ev.V("defect-under-comments:"+what, "texts that differ only in `# c` comments differ in %s\n--- plain\n%s\n--- commented\n%s", detail, pa.Root, pb.Root)
		}
	}
	return nil
}

// ---- every beginning of a text, with and without a blank or a line break behind it

// TCase: a generated text cut after Cut bytes. Blanks and line breaks after the end of a text are
// presentation: if the beginning is accepted as it stands it is accepted with them, and the other way
// round (the error code of a rejected beginning may differ - "unexpected end" versus "invalid character").
type TCase struct {
	P   *model.Project `json:"project"`
	L   *model.Layout  `json:"layout"`
	Cut int            `json:"cut"`
}

func truncationOracle(c TCase) *ev.Verdict {
	if c.P == nil || c.P.Root == nil {
		return nil
	}
	tp := c.P.Text(c.L)
	cut := c.Cut % (len(tp.Root) + 1)
	base := tp.Root[:cut]
	accepted := func(tail string) (bool, *sut.Outcome) {
		q := tp
		q.Root = base + tail
		o := sut.Observe(q)
		return o.Check == nil && len(o.AddErr) == 0 && len(o.RuleErr) == 0, o
	}
	a0, o0 := accepted("")
	if len(o0.Escapes) > 0 {
		e := o0.Escapes[0]
		return ev.V("panic:"+e.Op+":"+e.Frame, "%s panicked: %s\n%q", e.Op, e.Value, base)
	}
	if a0 {
		ev.NonTrivial("truncations", base)
	}
	for _, tail := range []string{"\n", " ", "\r\n", "\t\n\n", "\r"} {
		if strings.Contains(base, "\r") != strings.Contains(tail, "\r") && strings.ContainsAny(base, "\r\n") && strings.ContainsAny(tail, "\r\n") {
			continue // keep one newline convention per text
		}
		a, o := accepted(tail)
		if len(o.Escapes) > 0 {
			e := o.Escapes[0]
			return ev.V("panic:"+e.Op+":"+e.Frame, "%s panicked: %s\n%q", e.Op, e.Value, base+tail)
		}
		if a != a0 {
			return ev.V(fmt.Sprintf("truncation:verdict-flips:accepted=%v", a0), "%q: Check() = %v; followed by %q: %v", base, o0.Check, tail, o.Check)
		}
		if a && a0 && o0.AST != "" && !strings.Contains(o0.AST, `"TokenType":""`) {
			if what, detail := firstDiff(o0, o); what != "" && what != "len" {
				return ev.V("truncation:"+what, "%q and the same text followed by %q differ in %s", base, tail, detail)
			}
		}
	}
	return nil
}

func TestPropTruncations(t *testing.T) {
	registerAll()
	ev.Rapid(t, "truncations", ev.N(2500, 20000), func(t *rapid.T) TCase {
		p := genProject(t)
		addNotes(t, p.Root)
		return TCase{P: p, L: gen.Layout(t, gen.LayoutOpts{}), Cut: rapid.IntRange(0, 400).Draw(t, "cut")}
	}, truncationOracle)
}

func TestPropDefectsUnderComments(t *testing.T) {
	registerAll()
	ev.Rapid(t, "defects", ev.N(3000, 20000), func(t *rapid.T) DCase {
		p := genProject(t)
		addNotes(t, p.Root)
		return DCase{P: p, Seq: rapid.SliceOfN(rapid.IntRange(0, 7), 4, 12).Draw(t, "seq"), Line: rapid.IntRange(0, 40).Draw(t, "line"), Defect: rapid.IntRange(0, len(lineDefects)-1).Draw(t, "defect")}
	}, defectOracle)
}

func registerAll() {
	ev.Register("defects", defectOracle)
	ev.Register("truncations", truncationOracle)
	ev.Register("models", judged)
	ev.Register("corpus", corpusOracle)
	ev.Register("edge-spellings", corpusOracle)
	ev.Register("annotation-twins", twinOracle)
	ev.Register("comment-twins", commentOracle)
	ev.Register("feature-table", oracle)
}

func TestPropModels(t *testing.T) {
	registerAll()
	ev.Rapid(t, "models", ev.N(5000, 15000), genCase, judged)
}

// CorpusCase: a text of the repository's own test corpus under a context-free transformation.
type CorpusCase struct {
	Text      string `json:"text"`
	Transform string `json:"transform"`
}

func transform(text, tr string) string {
	lines := strings.Split(text, "\n")
	switch tr {
	case "crlf":
		return strings.Join(lines, "\r\n")
	case "cr":
		return strings.Join(lines, "\r")
	case "pad-line-ends":
		for i := range lines {
			lines[i] += []string{" ", "\t", "  ", ""}[i%4]
		}
		return strings.Join(lines, "\n")
	case "pad-line-starts":
		for i := range lines {
			lines[i] = []string{"  ", "\t", " ", ""}[i%4] + lines[i]
		}
		return strings.Join(lines, "\n")
	case "blank-lines-around":
		return "\n \n" + text + "\n\t\n\n"
	}
	return text
}

// codes raised only after the whole text has been scanned and loaded (so that a context-free
// re-layout cannot legitimately change which error is met first)
func lateCode(c int) bool {
	switch {
	// (604 invalid rule value and 605 zero precision are raised while the rule is being read)
	case c >= 1100 && c < 1400, c == 617, c == 618, c == 204, c >= 602 && c <= 616 && c != 604 && c != 605, c >= 700 && c < 710:
		return true
	}
	return false
}

func corpusOracle(c CorpusCase) *ev.Verdict {
	a := sut.Observe(sut.Project{Root: c.Text})
	if len(a.Escapes) > 0 {
		return nil
	}
	if a.Check != nil && !lateCode(a.Check.Code) {
		// refused while it is being read: the re-layout may move the error, but it cannot make the text valid
		b := sut.Observe(sut.Project{Root: transform(c.Text, c.Transform)})
		if len(b.Escapes) == 0 && b.Check == nil && b.AST != "" && !strings.Contains(b.AST, `"TokenType":""`) {
			return ev.V("corpus:"+c.Transform+":verdict", "the text %q is refused (%s) but its %s form is accepted", c.Text, a.Check, c.Transform)
		}
		return nil
	}
	if a.Check == nil && (a.AST == "" || strings.Contains(a.AST, `"TokenType":""`)) {
		return nil // no root value
	}
	b := sut.Observe(sut.Project{Root: transform(c.Text, c.Transform)})
	if len(b.Escapes) > 0 {
		return ev.V("panic:"+b.Escapes[0].Op, "%s panicked on the transformed text: %s", b.Escapes[0].Op, b.Escapes[0].Value)
	}
	if what, detail := firstDiff(a, b); what != "" {
		return ev.V("corpus:"+c.Transform+":"+what, "the corpus text %q and its %s form differ in %s", c.Text, c.Transform, detail)
	}
	return nil
}

func TestPropCorpus(t *testing.T) {
	registerAll()
	ev.KeepFirst("corpus")
	var n, nt, bad int64
	idx := 0
	for _, s := range corpus.Literals() {
		if !corpus.LooksLikeSchema(s) || strings.Contains(s, "\r") {
			continue
		}
		idx++
		if !ev.Mine(idx) {
			continue
		}
		for _, tr := range []string{"crlf", "cr", "pad-line-ends", "pad-line-starts", "blank-lines-around"} {
			c := CorpusCase{Text: s, Transform: tr}
			n++
			if strings.Contains(s, "\n") && strings.ContainsAny(s, "/") {
				nt++
				if nt%300 == 1 {
					ev.Sample("corpus", c)
				}
			}
			if v := corpusOracle(c); v != nil && ev.Report("corpus", c, v) {
				bad++
			}
		}
	}
	ev.Count("corpus", n)
	ev.NonTrivialEnum("corpus", nt)
	if bad > 0 {
		t.Errorf("VIOLATION-CANDIDATE corpus: %d", bad)
	}
}

// exhaustive layout-feature combinations on fixed models, each against the canonical layout
// hand-written spellings at the edges of the comment / annotation grammar, each under every context-free
// re-layout: whatever of them the library accepts must stay accepted with the same meaning
func TestPropEdgeSpellings(t *testing.T) {
	registerAll()
	ev.KeepFirst("edge-spellings")
	texts := []string{"12 // {min: 1 ### c ### }", "12 // {min: 1} ### c ###", "12 // {min: 1 # c\n}", "12 /* {min: 1 ### c ### } */", "\"s\" // {minLength: 1 ### c ###, maxLength: 2}", "12// {min: 1}",
		"12/* {min: 1} */", "12# c", "\"s\"// n", "true# c", "null/* n */", "{}// n", "[]# c", "{ // {additionalProperties: true ### c ###}\n}", "[ // {minItems: 0 ### c ###}\n]",
		"{\n  \"a\": 1 // {min: 1 ### c ### }\n}", "{\n  \"a\": 1, // {min: 1 # c\n  \"b\": 2\n}", "1 // n ### c ###", "1 ### c ### // n", "1 ### a ### ### b ###", "1 // {min: 1} - n # c", "1 // {min: 1}# c",
		"{ // n # c\n  \"a\": 1 # c\n} # c", "[\n  1, // {min: 1} # c\n  2 /* {min: 1} */ # c\n]", "1 /* n # not a comment */", "1 /* {min: 1} - n ### x ### */", "###\nblock\n###\n1", "1\n###\nblock\n###",
		"{ ### c ###\n  \"a\" ### c ### : 1\n}", "[ 1 ### c ###, 2 ]", "1 //", "1 // ", "1 /**/", "1 // -", "1 // - n", "{} // {}", "1 // {} - n", "1 /* {}\n*/",
		// a second annotation on the line after a rules-only one, bare dashes, hash-only comments
		"1 // {min: 0}\n// more", "1 // {min: 0}\n/* more */", "{\n  \"a\": 1 // {min: 0}\n// about a\n}", "{\n  \"a\": 1, // {min: 0}\n  // about a\n  \"b\": 2\n}", "[\n  1 // {min: 0}\n  /* one */\n]",
		"1 // {min: 0} # c\n// more", "1 // {min: 0} -", "1 // {min: 0} -\n", "{}\n#####", "1 #####\n", "1 // {min: 0} - n\n#####"}
	var n, bad int64
	idx := 0
	for _, tx := range texts {
		for _, tr := range []string{"crlf", "cr", "pad-line-ends", "pad-line-starts", "blank-lines-around"} {
			idx++
			if !ev.Mine(idx) {
				continue
			}
			c := CorpusCase{Text: tx, Transform: tr}
			n++
			ev.NonTrivial("edge-spellings", tx+"\x00"+tr)
			if v := corpusOracle(c); v != nil && ev.Report("edge-spellings", c, v) {
				bad++
			}
		}
	}
	ev.Count("edge-spellings", n)
	ev.Exhaustive("edge-spellings", fmt.Sprintf("%d hand-written texts x 5 context-free re-layouts", len(texts)))
	if bad > 0 {
		t.Errorf("VIOLATION-CANDIDATE edge-spellings: %d", bad)
	}
}

// TwinCase: the same annotation written inline and as a block (`// A` versus `/* A */`), in one of several
// places; the block form in one of its spellings
type TwinCase struct {
	Body  string `json:"body"`  // what stands inside the annotation
	Place int    `json:"place"` // 0 root scalar; 1 property of an object; 2 item of an array; 3 on the opening brace
	Block int    `json:"block"` // spelling of the block form
}

func (c TwinCase) texts() (inline, block string) {
	bl := []string{"/* " + c.Body + " */", "/*" + c.Body + "*/", "/* " + c.Body + "\n*/", "/*\n  " + c.Body + "\n*/", "/* " + c.Body + "\n */"}[c.Block%5]
	in := "// " + c.Body
	if c.Block%5 == 1 {
		in = "//" + c.Body
	}
	wrap := func(a string) string {
		switch c.Place % 4 {
		case 1:
			return "{\n  \"a\": 12, " + a + "\n  \"b\": 2\n}"
		case 2:
			return "[\n  12 " + a + "\n]"
		case 3:
			return "{ " + a + "\n  \"k\": 12\n}"
		}
		return "12 " + a
	}
	return wrap(in), wrap(bl)
}

func twinOracle(c TwinCase) *ev.Verdict {
	ti, tb := c.texts()
	a, b := sut.Observe(sut.Project{Root: ti}), sut.Observe(sut.Project{Root: tb})
	if len(a.Escapes)+len(b.Escapes) > 0 {
		return nil // (C02)
	}
	if (a.Check == nil) != (b.Check == nil) {
		return ev.V("twins:verdict", "inline %q: %v; block %q: %v", ti, a.Check, tb, b.Check)
	}
	if a.Check != nil {
		if lateCode(a.Check.Code) && a.Check.Code != b.Check.Code {
			return ev.V("twins:code", "inline %q: %v; block %q: %v", ti, a.Check, tb, b.Check)
		}
		return nil
	}
	if what, detail := firstDiff(a, b); what != "" && what != "len" {
		return ev.V("twins:"+what, "inline %q and block %q differ in %s", ti, tb, detail)
	}
	return nil
}

// every annotation body of a small grammar (rules / no rules, dash / no dash, note / empty note, blanks) in
// inline and in block style
func TestPropAnnotationTwins(t *testing.T) {
	registerAll()
	ev.KeepFirst("annotation-twins")
	var bodies []string
	for _, rules := range []string{"", "{min: 1}", "{}", "{min: 1, max: 20}", "{\"min\": 1}"} {
		for _, dash := range []string{"", "-", " -", " - ", "-  "} {
			for _, note := range []string{"", "n", "a note", "-5 is low", "note - with dash"} {
				if rules == "" && dash == "" && note == "" {
					continue
				}
				bodies = append(bodies, rules+dash+note)
			}
		}
	}
	var n, bad int64
	idx := 0
	for _, body := range bodies {
		for place := 0; place < 4; place++ {
			if place == 3 && strings.Contains(body, "min") {
				continue // (min is not a rule of objects)
			}
			for block := 0; block < 5; block++ {
				idx++
				if !ev.Mine(idx) {
					continue
				}
				c := TwinCase{Body: body, Place: place, Block: block}
				n++
				ev.NonTrivial("annotation-twins", fmt.Sprintf("%s/%d/%d", body, place, block))
				if n%97 == 1 {
					ev.Sample("annotation-twins", c)
				}
				if v := twinOracle(c); v != nil && ev.Report("annotation-twins", c, v) {
					bad++
				}
			}
		}
	}
	ev.Count("annotation-twins", n)
	ev.Exhaustive("annotation-twins", fmt.Sprintf("%d annotation bodies (rules x dash x note) x 4 places x 5 block spellings, each against its inline twin", len(bodies)))
	if bad > 0 {
		t.Errorf("VIOLATION-CANDIDATE annotation-twins: %d", bad)
	}
}

// CommentCase: a text and the same text with one user comment put at a gap between two tokens
type CommentCase struct {
	Text    string `json:"text"`
	At      int    `json:"at"`      // byte offset of the gap
	Comment string `json:"comment"` // what is inserted there
}

// gaps: the offsets of a schema text at which a blank could stand - outside strings, outside annotations and
// comments, not inside a name / number / keyword (between two characters of which one is structural or blank)
func gaps(text string) []int {
	var out []int
	inStr := false
	structural := func(c byte) bool { return strings.IndexByte("{}[],: \t\n", c) >= 0 }
	for i := 0; i <= len(text); i++ {
		if i < len(text) {
			c := text[i]
			if inStr {
				if c == '\\' {
					i++
				} else if c == '"' {
					inStr = false
				}
				continue
			}
			if c == '/' || c == '#' {
				// an annotation or a comment starts: up to the end of the line (block forms: up to their end)
				if strings.HasPrefix(text[i:], "/*") {
					j := strings.Index(text[i:], "*/")
					if j < 0 {
						return out
					}
					i += j + 1
				} else if strings.HasPrefix(text[i:], "###") {
					j := strings.Index(text[i+3:], "###")
					if j < 0 {
						return out
					}
					i += j + 5
				} else {
					j := strings.IndexByte(text[i:], '\n')
					if j < 0 {
						return out
					}
					i += j
				}
				continue
			}
			if c == '"' {
				if i == 0 || structural(text[i-1]) {
					out = append(out, i)
				}
				inStr = true
				continue
			}
		}
		prev, next := byte(' '), byte(' ')
		if i > 0 {
			prev = text[i-1]
		}
		if i < len(text) {
			next = text[i]
		}
		if structural(prev) || structural(next) {
			out = append(out, i)
		}
	}
	// a user comment may stand wherever a value, a comma or a closing bracket is awaited - not between a
	// property name and its colon, nor between the colon and the value (the scanner says so: "after object key")
	var legal []int
	for _, i := range out {
		p, q := strings.TrimRight(text[:i], " \t\n"), strings.TrimLeft(text[i:], " \t\n")
		if strings.HasSuffix(p, ":") || strings.HasPrefix(q, ":") {
			continue
		}
		legal = append(legal, i)
	}
	return legal
}

func commentOracle(c CommentCase) *ev.Verdict {
	if c.At < 0 || c.At > len(c.Text) {
		return nil
	}
	with := c.Text[:c.At] + c.Comment + c.Text[c.At:]
	a, b := sut.Observe(sut.Project{Root: c.Text}), sut.Observe(sut.Project{Root: with})
	if len(a.Escapes)+len(b.Escapes) > 0 || a.Check != nil {
		return nil // (the table holds accepted texts; panics are C02's)
	}
	if what, detail := firstDiff(a, b); what != "" {
		return ev.V("comment-twins:"+what, "the text %q and the same text with a user comment at offset %d, %q, differ in %s", c.Text, c.At, with, detail)
	}
	return nil
}

// every gap of a table of accepted texts x three user comments
func TestPropCommentTwins(t *testing.T) {
	registerAll()
	ev.KeepFirst("comment-twins")
	texts := []string{"[ ] // {maxItems: 0}", "[] // {maxItems: 0}", "{ } // {additionalProperties: true}", "[\n  1, // {min: 0}\n  2\n]", "{\n  \"a\": 1, // {min: 0}\n  \"b\": [ ],\n  \"c\": { }\n}",
		"12 // {min: 1}", "{\n  \"a\": [ ], // {maxItems: 0}\n  \"b\": 2\n}", "[\n  [ ], // {maxItems: 0}\n  { } // {additionalProperties: true}\n]", "{\n  \"k\": \"v\" // {minLength: 1}\n}",
		"[ 1, 2 ]", "{ \"a\": 1, \"b\": 2 }", "[\n  true\n] // n", "{\n  \"a\": null\n} /* {additionalProperties: false} */"}
	var n, bad int64
	idx := 0
	for _, tx := range texts {
		for _, at := range gaps(tx) {
			for _, cm := range []string{" ### c ### ", "### c ###", " ###\nblock\n### "} {
				idx++
				if !ev.Mine(idx) {
					continue
				}
				c := CommentCase{Text: tx, At: at, Comment: cm}
				n++
				ev.NonTrivial("comment-twins", fmt.Sprintf("%s/%d/%s", tx, at, cm))
				if n%53 == 1 {
					ev.Sample("comment-twins", c)
				}
				if v := commentOracle(c); v != nil && ev.Report("comment-twins", c, v) {
					bad++
				}
			}
		}
	}
	ev.Count("comment-twins", n)
	ev.Exhaustive("comment-twins", fmt.Sprintf("%d accepted texts x every gap between tokens x three user comments", len(texts)))
	if bad > 0 {
		t.Errorf("VIOLATION-CANDIDATE comment-twins: %d", bad)
	}
}

func TestPropFeatureTable(t *testing.T) {
	registerAll()
	ev.KeepFirst("feature-table")
	ty := []model.Type{{Name: "@t", Node: model.Scalar("integer", "5", model.R("min", model.Num("1")))}, {Name: "@k", Node: model.Scalar("string", `"kk"`)}}
	enumNotes := model.Val{K: "list", Items: []model.Val{model.Str("x"), model.Num("1"), model.Bool(true)}, Notes: []string{"first", "", "the last - one"}}
	models := []*model.Project{
		{Root: model.Scalar("integer", "1", model.R("min", model.Num("1")), model.R("max", model.Num("2.50")))},
		{Root: &model.Node{Kind: "string", Lit: `"x"`, Note: "a note - with dash", Rules: []model.Rule{model.R("enum", enumNotes)}}},
		{Root: model.Obj(model.R("additionalProperties", model.Bool(true))).Add("a", model.Scalar("integer", "1", model.R("optional", model.Bool(true)))).Add("b q", &model.Node{Kind: "null", Lit: "null", Note: "only a note"}), Types: ty},
		{Root: model.Arr(model.R("minItems", model.Num("1"))).Item(model.Ref("@t", model.R("nullable", model.Bool(true)))).Item(model.Choice("@t", "@k")).Item(model.Arr()).Item(model.Obj()), Types: ty},
		{Root: model.Obj().AddShortcut("@k", model.Scalar("float", "1.5", model.R("or", model.List(model.Set(model.R("type", model.Str("float")), model.R("min", model.Num("1"))), model.Str("string"), model.Str("@t"))))).Add("deep", model.Obj().Add("er", model.Arr().Item(model.Scalar("integer", "1")).Item(model.Scalar("integer", "2")))), Types: ty},
		{Root: model.Obj(model.R("allOf", model.Str("@base"))).Add("own", model.Scalar("boolean", "true", model.R("const", model.Bool(true)))), Types: []model.Type{{Name: "@base", Node: model.Obj().Add("base", model.Scalar("integer", "1"))}}},
		{Root: model.Obj().Add("bad", model.Scalar("integer", "1", model.R("min", model.Num("2")))).Add("fine", model.Scalar("string", `"s"`, model.R("regex", model.Str("^s$"))))},
		{Root: model.Scalar("string", `"2021-02-29"`, model.R("type", model.Str("date")))},
		{Root: model.Scalar("integer", "1", model.R("unknownRule", model.Num("1")))},
		{Root: model.Scalar("string", `"a"`, model.R("enum", model.RuleRef("@e"))), Enums: []model.EnumRule{{Name: "@e", Items: []model.Val{model.Str("a"), model.Str("b")}, Notes: []string{"one", "two"}}}},
	}
	var n, bad int64
	idx := 0
	canonical := &model.Layout{}
	for mi, m := range models {
		for _, nl := range []string{"\n", "\r\n", "\r"} {
			for annot := 0; annot <= 2; annot++ {
				for quote := 0; quote <= 1; quote++ {
					for pad := 0; pad <= 2; pad++ {
						for comments := 0; comments <= 4; comments++ {
							for flags := 0; flags < 16; flags++ {
								idx++
								if !ev.Mine(idx) {
									continue
								}
								if ev.Quick() && (idx/7)%3 != 0 {
									continue
								}
								l := &model.Layout{NL: nl, Annot: annot, Quote: quote, Pad: pad, Comments: comments,
									Compact: flags&1 != 0, BreakColon: flags&2 != 0, TrailComma: flags&4 != 0, EmptyComments: flags&8 != 0 && comments != 0,
									Lead: idx % 3, Trail: (idx / 3) % 3, LineIndent: (idx / 5) % 4, LineTail: (idx / 11) % 3,
									Seq: []int{idx % 7, 1, idx % 5, 3, 0, idx % 3, 2, 5, 1, 4}}
								c := Case{P: m, A: l, B: canonical}
								n++
								ev.NonTrivial("feature-table", fmt.Sprintf("%d/%d", mi, idx))
								if idx%40000 == 1 {
									ev.Sample("feature-table", map[string]any{"a": m.Text(l), "b": m.Text(canonical)})
								}
								if v := oracle(c); v != nil && ev.Report("feature-table", c, v) {
									bad++
								}
							}
						}
					}
				}
			}
		}
	}
	ev.Count("feature-table", n)
	ev.Exhaustive("feature-table", fmt.Sprintf("%d fixed models x 3 newline conventions x 3 annotation styles x quoted/bare names x 3 padding modes x 5 comment modes x {compact, break after colon, trailing comma, empty comments} (quick: every third combination)", len(models)))
	if bad > 0 {
		t.Errorf("VIOLATION-CANDIDATE feature-table: %d", bad)
	}
}

func TestPropRegressions(t *testing.T) {
	registerAll()
	ev.ReplayDir(t, ev.Root()+"/regress/C14")
}

func TestReplay(t *testing.T) {
	registerAll()
	ev.Replay(t)
}
