// C09 - same input, same answer: independent of map order, addresses, registration order.
package c09

import (
	"bufio"
	"encoding/json"
	"fmt"
	"os"
	"os/exec"
	"regexp"
	"strings"
	"testing"
	"unicode/utf8"

	schema "github.com/jsightapi/jsight-schema-core"
	jdoc "github.com/jsightapi/jsight-schema-core/formats/json"
	jjson "github.com/jsightapi/jsight-schema-core/json"
	"github.com/jsightapi/jsight-schema-core/notations/regex"
	"github.com/jsightapi/jsight-schema-core/rules/enum"
	"pgregory.net/rapid"

	"verif/internal/ev"
	"verif/internal/gen"
	"verif/internal/model"
	"verif/internal/norm"
	"verif/internal/sut"
)

func TestMain(m *testing.M) { ev.Main(m, "C09") }

// Case is one input for one of the entry points.
type Case struct {
	Kind    string       `json:"kind"` // project | enum | regex | doc | guess
	Project *sut.Project `json:"project,omitempty"`
	Perms   [][]int      `json:"perms,omitempty"` // alternative registration orders of Project.Types
	Text    string       `json:"text,omitempty"`
}

const repeats = 12

// render computes the full observable outcome of a case as canonical text
func render(c Case, perm []int) string {
	switch c.Kind {
	case "project":
		p := *c.Project
		if perm != nil && len(perm) == len(p.Types) {
			types := make([]sut.Named, len(p.Types))
			for i, j := range perm {
				types[i] = p.Types[j]
			}
			p.Types = types
		}
		return sut.Observe(p).Render()
	case "enum":
		var b strings.Builder
		esc := sut.Trap("enum", func() {
			e := enum.New("@e", c.Text)
			fmt.Fprintf(&b, "check=%s\n", errText(e.Check()))
			vals, err := e.Values()
			fmt.Fprintf(&b, "values-err=%s\n", errText(err))
			for _, v := range vals {
				fmt.Fprintf(&b, "  %s:%s:%q\n", v.Value.String(), v.Type, v.Comment)
			}
			a, err := e.GetAST()
			j, _ := json.Marshal(a)
			fmt.Fprintf(&b, "ast=%s,%s\n", j, errText(err))
			l, err := e.Len()
			fmt.Fprintf(&b, "len=%d,%s\n", l, errText(err))
		})
		if esc != nil {
			fmt.Fprintf(&b, "PANIC %s", esc.Value)
		}
		return b.String()
	case "regex":
		var b strings.Builder
		esc := sut.Trap("regex", func() {
			r := regex.New("@r", c.Text)
			fmt.Fprintf(&b, "check=%s\n", errText(r.Check()))
			p, err := r.Pattern()
			fmt.Fprintf(&b, "pattern=%q,%s\n", p, errText(err))
			ex, err := r.Example()
			fmt.Fprintf(&b, "example=%q,%s\n", ex, errText(err))
			l, err := r.Len()
			fmt.Fprintf(&b, "len=%d,%s\n", l, errText(err))
		})
		if esc != nil {
			fmt.Fprintf(&b, "PANIC %s", esc.Value)
		}
		// and as a registered type
		o := sut.Observe(sut.Project{Root: `"abc" // {type: "@r"}`, Types: []sut.Named{{Name: "@r", Text: c.Text, Regex: true}}})
		return b.String() + o.Render()
	case "doc":
		o := sut.ObserveDoc(c.Text, false, true)
		j, _ := json.Marshal(o)
		return string(j)
	case "guess":
		t, err := schema.GuessSchemaType([]byte(c.Text))
		return fmt.Sprintf("%s,%s", t, errText(err))
	}
	return "?"
}

func errText(err error) string {
	if err == nil {
		return "<nil>"
	}
	e := sut.Describe(err)
	return fmt.Sprintf("%s|%d|%s|%d|%d|%d|%s|%s", e.GoType, e.Code, e.Message, e.Index, e.Line, e.Column, e.UserType, e.Rendered)
}

// firstDiff locates the first differing line / field
func firstDiff(a, b string) (field, detail string) {
	i := 0
	for i < len(a) && i < len(b) && a[i] == b[i] {
		i++
	}
	lo := i - 120
	if lo < 0 {
		lo = 0
	}
	hi := func(s string) int {
		if i+120 < len(s) {
			return i + 120
		}
		return len(s)
	}
	// the JSON field name that precedes the difference
	field = "?"
	if k := strings.LastIndex(a[:i], `":`); k >= 0 {
		if q := strings.LastIndex(a[:k], `"`); q >= 0 {
			field = a[q+1 : k]
		}
	}
	return field, fmt.Sprintf("...%s\n   vs\n...%s", a[lo:hi(a)], b[lo:hi(b)])
}

// guessWalk: the lexemes of a document are walked twice - plainly, and with every literal handed to the type
// guessers (GuessSchemaType, json.Guess, NewNumber) on the way, as a reader of API files does. Looking at a
// literal must not change what the walk finds afterwards.
func guessWalk(text string) *ev.Verdict {
	walk := func(guess bool) (string, *sut.Escape) {
		var b strings.Builder
		esc := sut.Trap("doc-walk", func() {
			d := jdoc.New("doc", text)
			for i := 0; i < 4*len(text)+16; i++ {
				lex, err := d.NextLexeme()
				if err != nil {
					fmt.Fprintf(&b, "END %s", errText(err))
					return
				}
				fmt.Fprintf(&b, "%s@%d-%d;", lex.Type(), lex.Begin(), lex.End())
				if guess && lex.Type().String() == "literal-end" {
					v := lex.Value().Data()
					t, err := schema.GuessSchemaType(v)
					fmt.Fprintf(&b, "\x01%s,%v\x02", t, err != nil)
					_ = sut.Trap("json.Guess", func() { _ = jjson.Guess(lex.Value()).IsNull() })
					_ = sut.Trap("NewNumber", func() { _, _ = jjson.NewNumber(lex.Value()) })
				}
			}
		})
		return b.String(), esc
	}
	plain, e1 := walk(false)
	guessed, e2 := walk(true)
	if e1 != nil || e2 != nil {
		return nil // (C02 / C12)
	}
	strip := regexp.MustCompile("\x01[^\x02]*\x02")
	if g := strip.ReplaceAllString(guessed, ""); g != plain {
		return ev.V("doc:guessing-changes-the-walk", "document %q: the lexeme walk gives\n  %.300s\nbut with every literal handed to the type guessers on the way\n  %.300s", text, plain, g)
	}
	return nil
}

func oracle(c Case) *ev.Verdict {
	if c.Kind == "doc" {
		if v := guessWalk(c.Text); v != nil {
			return v
		}
	}
	base := render(c, nil)
	if i := strings.Index(base, `"again":"`); c.Kind == "project" && i >= 0 {
		// (sut.ObserveBuilt asks every question a second time on the same object)
		return ev.V("project:same-object:second-answer-differs", "the same object gives another answer when asked again: %.400s\ninput: %s", base[i:], describe(c))
	}
	for i := 1; i < repeats; i++ {
		if r := render(c, nil); r != base {
			field, d := firstDiff(base, r)
			cls := "value"
			if norm.MaskAddr(base) == norm.MaskAddr(r) {
				cls = "heap-address"
			}
			return ev.V(c.Kind+":repetition:"+cls+":"+field, "repetition %d of the same input gives a different result at %q:\n%s\ninput: %s", i, field, d, describe(c))
		}
	}
	// the same type and rule OBJECTS registered in a second and a third root schema object: same text,
	// same user types and rules - same result
	if c.Kind == "project" && !usesAllOf(c.Project) {
		first := sut.Build(*c.Project)
		r1 := sut.ObserveBuilt(first).Render()
		for i := 0; i < 2; i++ {
			r := sut.ObserveBuilt(sut.BuildSharing(*c.Project, first)).Render()
			if r != r1 || r1 != base {
				if r1 != base {
					r = r1
				}
				field, d := firstDiff(base, r)
				return ev.V("project:shared-objects:"+field, "root schema object %d built from the same type and rule objects gives a different result at %q:\n%s\ninput: %s", i+2, field, d, describe(c))
			}
		}
	}
	for _, perm := range c.Perms {
		if r := render(c, perm); r != base {
			field, d := firstDiff(base, r)
			cls := "value"
			if norm.MaskAddr(base) == norm.MaskAddr(r) {
				cls = "heap-address"
			}
			return ev.V(c.Kind+":registration-order:"+cls+":"+field, "registering the types in order %v gives a different result at %q:\n%s\ninput: %s", perm, field, d, describe(c))
		}
	}
	return nil
}

// (allOf is compiled into the type object by the first root schema that uses it: C10 known finding)
func usesAllOf(p *sut.Project) bool {
	if strings.Contains(p.Root, "allOf") {
		return true
	}
	for _, t := range p.Types {
		if strings.Contains(t.Text, "allOf") {
			return true
		}
	}
	return false
}

func describe(c Case) string {
	if c.Project != nil {
		return c.Project.String()
	}
	return fmt.Sprintf("%q", c.Text)
}

// ---- cross-process comparison: the test binary re-executes itself as a worker

func TestWorker(t *testing.T) {
	path := os.Getenv("C09_WORKER_IN")
	if path == "" {
		t.Skip("worker mode only")
	}
	in, err := os.Open(path)
	if err != nil {
		t.Fatal(err)
	}
	defer in.Close()
	out, err := os.Create(os.Getenv("C09_WORKER_OUT"))
	if err != nil {
		t.Fatal(err)
	}
	defer out.Close()
	w := bufio.NewWriter(out)
	defer w.Flush()
	sc := bufio.NewScanner(in)
	sc.Buffer(make([]byte, 1<<20), 1<<26)
	for sc.Scan() {
		var c Case
		if json.Unmarshal(sc.Bytes(), &c) != nil {
			continue
		}
		j, _ := json.Marshal(render(c, nil))
		w.Write(j)
		w.WriteByte('\n')
	}
}

func crossProcess(t *testing.T, name string, cases []Case, renders []string) {
	if len(cases) == 0 {
		return
	}
	dir := t.TempDir()
	in := dir + "/cases.jsonl"
	f, _ := os.Create(in)
	w := bufio.NewWriter(f)
	for _, c := range cases {
		j, _ := json.Marshal(c)
		w.Write(j)
		w.WriteByte('\n')
	}
	w.Flush()
	f.Close()
	const procs = 3
	for p := 0; p < procs; p++ {
		out := fmt.Sprintf("%s/out-%d.jsonl", dir, p)
		cmd := exec.Command(os.Args[0], "-test.run", "^TestWorker$", "-test.timeout", "300s")
		cmd.Env = append(os.Environ(), "C09_WORKER_IN="+in, "C09_WORKER_OUT="+out, "VERIF_OUT=")
		if b, err := cmd.CombinedOutput(); err != nil {
			t.Errorf("INCONCLUSIVE worker process failed: %v\n%s", err, b)
			return
		}
		of, err := os.Open(out)
		if err != nil {
			t.Errorf("INCONCLUSIVE worker output missing: %v", err)
			return
		}
		sc := bufio.NewScanner(of)
		sc.Buffer(make([]byte, 1<<20), 1<<26)
		i := 0
		for sc.Scan() {
			var r string
			json.Unmarshal(sc.Bytes(), &r)
			if i < len(renders) && r != renders[i] {
				field, d := firstDiff(renders[i], r)
				cls := "value"
				if norm.MaskAddr(renders[i]) == norm.MaskAddr(r) {
					cls = "heap-address"
				}
				v := ev.V(cases[i].Kind+":other-process:"+cls+":"+field, "a separately started process gives a different result at %q:\n%s\ninput: %s", field, d, describe(cases[i]))
				if ev.Report(name, cases[i], v) {
					t.Errorf("VIOLATION-CANDIDATE %s: %s", name, v.Sig)
				}
			}
			i++
		}
		of.Close()
		if i != len(cases) {
			t.Errorf("INCONCLUSIVE worker answered %d of %d cases", i, len(cases))
		}
		ev.Count(name+"-other-process", int64(i))
	}
}

// ---- generation

// multiDefect appends independent defects so that several errors compete
func multiDefect(t *rapid.T, p *model.Project) {
	n := rapid.IntRange(0, 3).Draw(t, "defects")
	for i := 0; i < n; i++ {
		switch rapid.IntRange(0, 9).Draw(t, "defect") {
		case 9: // broken types whose names differ only in the case of their letters (any ordering of names that folds case leaves them tied)
			kind := rapid.IntRange(0, 2).Draw(t, "casekind")
			for _, nm := range []string{fmt.Sprintf("@Pet%d", i), fmt.Sprintf("@pet%d", i), fmt.Sprintf("@PET%d", i)}[:rapid.IntRange(2, 3).Draw(t, "casecount")] {
				var node *model.Node
				switch kind {
				case 0:
					node = model.Obj().Add("owner", model.Ref("@nobody"+strings.ToLower(nm[1:])))
				case 1:
					node = model.Scalar("integer", "1", model.R("min", model.Num("2")))
				default:
					node = model.Obj().Add("k", model.Scalar("integer", "1", model.R("or", model.List(model.Set(model.R("type", model.Str("@gone"+nm[1:]))), model.Str("integer")))))
				}
				p.Types = append(p.Types, model.Type{Name: nm, Node: node})
			}
		case 5: // two types with the same text whose only defect sits in an unnamed (rule-set) type: same offsets, different files
			p.Types = append(p.Types,
				model.Type{Name: fmt.Sprintf("@ua%d", i), Node: model.Scalar("string", `"x"`, model.R("or", model.List(model.Set(model.R("type", model.Str("@unum")), model.R("nullable", model.Bool(true))), model.Set(model.R("type", model.Str("string"))))))},
				model.Type{Name: fmt.Sprintf("@uc%d", i), Node: model.Scalar("string", `"x"`, model.R("or", model.List(model.Set(model.R("type", model.Str("@unum")), model.R("nullable", model.Bool(true))), model.Set(model.R("type", model.Str("string"))))))})
			if p.Type("@unum") == nil {
				p.Types = append(p.Types, model.Type{Name: "@unum", Node: model.Scalar("integer", "123")})
			}
		case 6: // two types whose allOf fails for different reasons
			p.Types = append(p.Types,
				model.Type{Name: fmt.Sprintf("@allofmissing%d", i), Node: model.Obj(model.R("allOf", model.Str("@nowhere"))).Add("k", model.Scalar("integer", "1"))},
				model.Type{Name: fmt.Sprintf("@allofscalar%d", i), Node: model.Obj(model.R("allOf", model.Str("@scalar"))).Add("k", model.Scalar("integer", "1"))})
			if p.Type("@scalar") == nil {
				p.Types = append(p.Types, model.Type{Name: "@scalar", Node: model.Scalar("integer", "5")})
			}
		case 7: // duplicate key through inheritance next to a cycle
			p.Types = append(p.Types,
				model.Type{Name: fmt.Sprintf("@dupa%d", i), Node: model.Obj(model.R("allOf", model.Str(fmt.Sprintf("@dupb%d", i)))).Add("same", model.Scalar("integer", "1"))},
				model.Type{Name: fmt.Sprintf("@dupb%d", i), Node: model.Obj().Add("same", model.Scalar("integer", "2"))},
				model.Type{Name: fmt.Sprintf("@cyc%d", i), Node: model.Obj(model.R("allOf", model.Str(fmt.Sprintf("@cyc%d", i))))})
		case 8: // several rules at once that do not go with the node's type: which one is named?
			ty := rapid.SampledFrom([]string{"email", "uri", "uuid", "date", "datetime", "any", "string", "integer", "boolean", "null", "float", "decimal", "enum", "mixed", "object", "array"}).Draw(t, "souptype")
			soup := rapid.SliceOfNDistinct(rapid.SampledFrom([]model.Rule{
				model.R("minLength", model.Num("2")), model.R("maxLength", model.Num("256")), model.R("regex", model.Str("^.+$")), model.R("const", model.Bool(true)),
				model.R("min", model.Num("1")), model.R("max", model.Num("9")), model.R("exclusiveMinimum", model.Bool(true)), model.R("exclusiveMaximum", model.Bool(false)), model.R("precision", model.Num("2")),
				model.R("minItems", model.Num("0")), model.R("maxItems", model.Num("3")), model.R("additionalProperties", model.Bool(true)), model.R("nullable", model.Bool(true)),
				model.R("enum", model.List(model.Str("user@example.com"), model.Num("5"))), model.R("allOf", model.Str("@s0")), model.R("or", model.List(model.Str("string"), model.Str("integer"))),
			}), 2, 4, func(r model.Rule) string { return r.Name }).Draw(t, "soup")
			lit := rapid.SampledFrom([]string{`"user@example.com"`, "5", "5.25", "true", "null"}).Draw(t, "souplit")
			n := &model.Node{Kind: model.KindOfLit(lit), Lit: lit, Rules: append([]model.Rule{model.R("type", model.Str(ty))}, soup...)}
			if rapid.Bool().Draw(t, "typelast") {
				n.Rules = append(n.Rules[1:], n.Rules[0])
			}
			if p.Root.Kind == "object" && rapid.Bool().Draw(t, "soupinroot") {
				p.Root.Add(fmt.Sprintf("soup%d", i), n)
			} else {
				p.Types = append(p.Types, model.Type{Name: fmt.Sprintf("@soup%d", i), Node: n})
			}
		case 0: // another broken type
			name := fmt.Sprintf("@bad%d", i)
			p.Types = append(p.Types, model.Type{Name: name, Node: model.Scalar("integer", "1", model.R("min", model.Num("2")))})
		case 1: // a broken property in the root
			if p.Root.Kind == "object" {
				p.Root.Add(fmt.Sprintf("bad%d", i), model.Scalar("string", `"abc"`, model.R("maxLength", model.Num("1"))))
			}
		case 2: // a type that refers to a missing type inside an unnamed (or / choice) type
			name := fmt.Sprintf("@miss%d", i)
			p.Types = append(p.Types, model.Type{Name: name, Node: model.Obj().Add("k", model.Choice("@nowhere", "@s0")).Add("q", model.Scalar("integer", "1", model.R("or", model.List(model.Set(model.R("type", model.Str("@gone"))), model.Str("integer")))))})
		case 3: // a type that does not even load
			p.Types = append(p.Types, model.Type{Name: fmt.Sprintf("@noload%d", i), Node: model.Scalar("integer", "1", model.R("unknownRule", model.Num("1")))})
		default: // reference to a missing type from the root
			if p.Root.Kind == "object" {
				p.Root.Add(fmt.Sprintf("m%d", i), model.Ref("@missing"))
			}
		}
	}
}

func genCase(t *rapid.T) Case {
	switch rapid.IntRange(0, 9).Draw(t, "entry") {
	case 0:
		items := rapid.SliceOfN(rapid.SampledFrom([]string{`"a.b"`, `"1.5"`, `"1"`, `1`, `1.0`, `"true"`, `true`, `null`, `"1e5"`, `"."`, `"a"`, `"e"`}), 0, 5).Draw(t, "items")
		return Case{Kind: "enum", Text: "[" + strings.Join(items, ", ") + "]"}
	case 1:
		return Case{Kind: "regex", Text: rapid.SampledFrom([]string{"/^a/", "/[a-z]{2,4}x?/", "/(a|b)+c/", "/a", "x", "/[/", `/\d{3}-\d{2}/`, "/.*/ tail"}).Draw(t, "re")}
	case 2:
		v := gen.JSONValue(t, gen.JSONOpts{Exponents: true, DupKeys: true, Depth: 3})
		s := gen.EncodeJSONDoc(t, v)
		if rapid.Bool().Draw(t, "mutate") {
			// (cases travel to the worker processes as JSON, which cannot carry invalid UTF-8)
			if m := gen.Mutate(t, s, []string{"{", "}", ",", "\"", "1", " "}); utf8.ValidString(m) {
				s = m
			}
		}
		return Case{Kind: "doc", Text: s}
	case 3:
		return Case{Kind: "guess", Text: rapid.SampledFrom([]string{`"a.b"`, `"1.5"`, `"1e5"`, `1`, `1.5`, `1e2`, `true`, `null`, `"true"`, `{`, `[`, `"."`, `x`, ``, `"e"`}).Draw(t, "lit")}
	}
	var sp sut.Project
	if rapid.IntRange(0, 5).Draw(t, "ownregs") == 0 {
		// types that register types of their own: two or more of them bring their own, different type under
		// one name, which the root schema itself may or may not register as well
		texts := []string{`"x1"`, `2`, "{\n  \"k\": 1\n}", "[\n  true\n]", `"x" // {minLength: 1}`, `2.5 // {min: 1}`}
		n := rapid.IntRange(2, 4).Draw(t, "holders")
		var root strings.Builder
		root.WriteString("{")
		for i := 0; i < n; i++ {
			name := fmt.Sprintf("@%c", 'a'+i)
			body := rapid.SampledFrom([]string{"{\n  \"p\": @x\n}", "{\n  \"p\": [\n    @x\n  ]\n}", "@x", "{\n  \"p\": @x, // {optional: true}\n  \"q\": @y\n}"}).Draw(t, name+"body")
			ty := sut.Named{Name: name, Text: body, Own: []sut.Named{{Name: "@x", Text: rapid.SampledFrom(texts).Draw(t, name+"x")}}}
			if strings.Contains(body, "@y") {
				ty.Own = append(ty.Own, sut.Named{Name: "@y", Text: rapid.SampledFrom(texts).Draw(t, name+"y")})
			}
			sp.Types = append(sp.Types, ty)
			if i > 0 {
				root.WriteString(",")
			}
			fmt.Fprintf(&root, "\n  \"h%d\": %s", i, name)
		}
		if rapid.Bool().Draw(t, "rootusesx") {
			root.WriteString(",\n  \"direct\": @x")
		}
		root.WriteString("\n}")
		sp.Root = root.String()
		if rapid.IntRange(0, 3).Draw(t, "rootregsx") == 0 {
			sp.Types = append(sp.Types, sut.Named{Name: "@x", Text: rapid.SampledFrom(texts).Draw(t, "rootx")})
		}
	} else if rapid.IntRange(0, 3).Draw(t, "graph") == 0 {
		gp := gen.GraphProject(t)
		seen := map[string]bool{}
		var types []sut.Named
		for _, ty := range gp.Types { // one registration per name: the permutation must not change which text a name has
			if !seen[ty.Name] {
				seen[ty.Name] = true
				ty.File = ""
				types = append(types, ty)
			}
		}
		gp.Types = types
		sp = *gp
	} else {
		p := gen.Project(t, gen.ProjectOpts{RegexType: true, Container: true, KeyType: true, EnumNotes: true})
		multiDefect(t, p)
		sp = p.Text(nil)
	}
	// who registers what: the root everything, or every schema the types it names itself
	sp.Nest = rapid.IntRange(0, 2).Draw(t, "nest") == 0 && (len(sp.Types) == 0 || len(sp.Types[0].Own) == 0)
	c := Case{Kind: "project", Project: &sp}
	n := len(sp.Types)
	if n >= 2 {
		// all permutations for <= 3 registrations, sampled ones above
		if n <= 3 {
			var rec func(cur []int, used []bool)
			rec = func(cur []int, used []bool) {
				if len(cur) == n {
					c.Perms = append(c.Perms, append([]int(nil), cur...))
					return
				}
				for i := 0; i < n; i++ {
					if !used[i] {
						used[i] = true
						rec(append(cur, i), used)
						used[i] = false
					}
				}
			}
			rec(nil, make([]bool, n))
		} else {
			for k := 0; k < 6; k++ {
				c.Perms = append(c.Perms, gen.Permutation(t, n, "perm"))
			}
			rev := make([]int, n)
			for i := range rev {
				rev[i] = n - 1 - i
			}
			c.Perms = append(c.Perms, rev)
		}
	}
	return c
}

func nontrivial(c Case) bool {
	switch c.Kind {
	case "project":
		return len(c.Project.Types) >= 2
	case "enum", "guess":
		return strings.ContainsAny(c.Text, ".e")
	}
	return len(c.Text) > 4
}

var collected []Case
var collectedRenders []string

func judged(c Case) *ev.Verdict {
	if nontrivial(c) {
		j, _ := json.Marshal(c)
		ev.NonTrivial("inputs", string(j))
		ev.Class("inputs", "entry:"+c.Kind)
		if c.Project != nil && c.Project.Nest {
			ev.Class("inputs", "types registered on the types that name them")
		}
		if ev.WantSample("inputs") && c.Kind == "project" {
			ev.Sample("inputs", c)
		}
	}
	v := oracle(c)
	if v == nil && len(collected) < 400 {
		collected = append(collected, c)
		collectedRenders = append(collectedRenders, render(c, nil))
	}
	return v
}

func registerAll() {
	ev.Register("inputs", judged)
}

func TestPropInputs(t *testing.T) {
	registerAll()
	collected, collectedRenders = nil, nil
	ev.Rapid(t, "inputs", ev.N(700, 2500), genCase, judged)
	crossProcess(t, "inputs", collected, collectedRenders)
}

func TestPropRegressions(t *testing.T) {
	registerAll()
	ev.ReplayDir(t, ev.Root()+"/regress/C09")
}

func TestReplay(t *testing.T) {
	registerAll()
	ev.Replay(t)
}
