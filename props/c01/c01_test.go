// C01 - Check() verdict equals the rule semantics applied to the example values.
package c01

import (
	"fmt"
	"strings"
	"testing"

	"pgregory.net/rapid"

	"verif/internal/ev"
	"verif/internal/gen"
	"verif/internal/model"
	"verif/internal/ref/rules"
	"verif/internal/sut"
)

func TestMain(m *testing.M) { ev.Main(m, "C01") }

type Case struct {
	P *model.Project `json:"project"`
}

func genProject(t *rapid.T) *model.Project {
	return gen.Project(t, gen.ProjectOpts{RegexType: true, Container: true})
}

func oracle(c Case) *ev.Verdict {
	p := c.P
	if p == nil || p.Root == nil {
		return nil
	}
	res := rules.Evaluate(p)
	if len(res.Ambiguous) > 0 {
		ev.Excluded("projects", "ambiguous: "+res.Ambiguous[0])
		return nil
	}
	o := sut.Observe(p.Text(nil))
	if len(o.Escapes) > 0 {
		e := o.Escapes[0]
		return ev.V("panic:"+e.Op+":"+e.Frame, "%s panicked: %s\n%s", e.Op, e.Value, p.Text(nil))
	}
	// a type or rule that cannot even be registered makes the project rejected as a whole
	var regErr *sut.ErrInfo
	for _, e := range o.AddErr {
		regErr = e
	}
	for _, e := range o.RuleErr {
		regErr = e
	}
	want := res.Satisfied()
	got := o.Check == nil && regErr == nil
	rej := o.Check
	if regErr != nil {
		rej = regErr
	}
	if got == want {
		return nil
	}
	if want {
		return ev.V(fmt.Sprintf("rejects-satisfied:code-%d", rej.Code), "every example satisfies its rules but the project is rejected: %s\n%s", rej, p.Text(nil))
	}
	f := res.Failures[0]
	return ev.V("accepts-violated:"+f.Rule, "Check() accepts although %s\n%s", f, p.Text(nil))
}

func judged(c Case) *ev.Verdict {
	if c.P != nil && c.P.Root != nil {
		res := rules.Evaluate(c.P)
		if len(res.Ambiguous) == 0 {
			if len(res.Boundary) > 0 || res.Depth >= 2 {
				ev.NonTrivial("projects", c.P.Text(nil).String())
				if ev.WantSample("projects") {
					ev.Sample("projects", c.P.Text(nil))
				}
			}
			for _, b := range res.Boundary {
				ev.Class("projects", "boundary "+b)
			}
			if res.Satisfied() {
				ev.Class("projects", "expected: accepted")
			} else {
				ev.Class("projects", "expected: rejected by "+res.Failures[0].Rule)
			}
		}
	}
	return oracle(c)
}

func registerAll() {
	ev.Register("projects", judged)
	ev.Register("grid", oracle)
}

func TestPropProjects(t *testing.T) {
	registerAll()
	ev.Rapid(t, "projects", ev.N(3000, 40000), func(t *rapid.T) Case { return Case{P: genProject(t)} }, judged)
}

func TestPropRegressions(t *testing.T) {
	registerAll()
	ev.ReplayDir(t, ev.Root()+"/regress/C01")
}

func TestReplay(t *testing.T) {
	registerAll()
	ev.Replay(t)
}

var _ = strings.Contains
