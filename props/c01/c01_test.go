// C01 - Check() verdict equals the rule semantics applied to the example values.
package c01

import (
	"fmt"
	"strings"
	"testing"

	"pgregory.net/rapid"

	"verif/internal/ev"
	"verif/internal/gen"
	"verif/internal/model"
	"verif/internal/ref/rules"
	"verif/internal/sut"
)

func TestMain(m *testing.M) { ev.Main(m, "C01") }

type Case struct {
	P *model.Project `json:"project"`
	// Prelude: sut.Disturb sequence run before the case (0 = none)
	Prelude int `json:"prelude,omitempty"`
}

func genPCase(t *rapid.T) Case { return Case{P: genProject(t)} }

func genProject(t *rapid.T) *model.Project {
	return gen.Project(t, gen.ProjectOpts{RegexType: true, Container: true})
}

func oracle(c Case) *ev.Verdict {
	if c.Prelude != 0 {
		// the answer for a project does not depend on what the process handled before it
		sut.Pristine()
		sut.Disturb(c.Prelude)
	}
	p := c.P
	if p == nil || p.Root == nil {
		return nil
	}
	res := rules.Evaluate(p)
	if len(res.Ambiguous) > 0 {
		ev.Excluded("projects", "ambiguous: "+res.Ambiguous[0])
		return nil
	}
	o := sut.Observe(p.Text(nil))
	if len(o.Escapes) > 0 {
		e := o.Escapes[0]
		return ev.V("panic:"+e.Op+":"+e.Frame, "%s panicked: %s\n%s", e.Op, e.Value, p.Text(nil))
	}
	if o.Again != "" {
		// the verdict of a schema object is the verdict, also when it is asked for a second time
		return ev.V("second-call-differs:"+strings.SplitN(o.Again, " ", 2)[0], "%s\n%s", o.Again, p.Text(nil))
	}
	// a type or rule that cannot even be registered makes the project rejected as a whole
	var regErr *sut.ErrInfo
	for _, e := range o.AddErr {
		regErr = e
	}
	for _, e := range o.RuleErr {
		regErr = e
	}
	want := res.Satisfied()
	got := o.Check == nil && regErr == nil
	rej := o.Check
	if regErr != nil {
		rej = regErr
	}
	if got == want {
		return nil
	}
	if want {
		return ev.V(fmt.Sprintf("rejects-satisfied:code-%d", rej.Code), "every example satisfies its rules but the project is rejected: %s\n%s", rej, p.Text(nil))
	}
	f := res.Failures[0]
	return ev.V("accepts-violated:"+f.Rule, "Check() accepts although %s\n%s", f, p.Text(nil))
}

func judged(c Case) *ev.Verdict {
	if c.P != nil && c.P.Root != nil {
		res := rules.Evaluate(c.P)
		if len(res.Ambiguous) == 0 {
			if len(res.Boundary) > 0 || res.Depth >= 2 {
				ev.NonTrivial("projects", c.P.Text(nil).String())
				if ev.WantSample("projects") {
					ev.Sample("projects", c.P.Text(nil))
				}
			}
			for _, b := range res.Boundary {
				ev.Class("projects", "boundary "+b)
			}
			if res.Satisfied() {
				ev.Class("projects", "expected: accepted")
			} else {
				ev.Class("projects", "expected: rejected by "+res.Failures[0].Rule)
			}
		}
	}
	return oracle(c)
}

// ---- one parsed type object registered in two root schemas that define another type differently

// SCase: project P, and the same project with type number Vary pinned to its own example (`const: true`
// instead of its rules), so that examples elsewhere that are judged through that type now violate it.
// The type objects of P (parsed, registered and checked there) are registered again in the second root
// schema: its verdict must be the verdict of the second project built from fresh objects - what a type
// means is decided by the schema it is checked in, not by where it was checked first.
type SCase struct {
	P    *model.Project `json:"project"`
	Vary int            `json:"vary"`
}

func sharedOracle(c SCase) *ev.Verdict {
	p := c.P
	if p == nil || p.Root == nil || len(p.Types) == 0 {
		return nil
	}
	q := p.Clone()
	t := &q.Types[c.Vary%len(q.Types)]
	if t.Node == nil || t.Node.Lit == "" || t.Node.Kind == "null" {
		ev.Excluded("shared-types", "the varied type is not a scalar")
		return nil
	}
	t.Node.Rules = []model.Rule{model.R("const", model.Bool(true))}
	t1, t2 := p.Text(nil), q.Text(nil)
	if strings.Contains(t1.String(), "allOf") {
		ev.Excluded("shared-types", "project uses allOf (compiled in place, C10 known finding)")
		return nil
	}
	b1 := sut.Build(t1)
	o1 := sut.ObserveBuilt(b1)
	b2 := sut.BuildSharing(t2, b1)
	shared := sut.ObserveBuilt(b2)
	fresh := sut.Observe(t2)
	if n := len(o1.Escapes) + len(shared.Escapes) + len(fresh.Escapes); n > 0 {
		e := append(append(o1.Escapes, shared.Escapes...), fresh.Escapes...)[0]
		return ev.V("shared:panic:"+e.Op+":"+e.Frame, "%s panicked: %s\n%s", e.Op, e.Value, t2)
	}
	if o1.Check == nil && fresh.Check != nil {
		ev.NonTrivial("shared-types", t2.String())
		ev.Class("shared-types", "accepted with the first definition, rejected with the second")
		if ev.WantSample("shared-types") {
			ev.Sample("shared-types", c)
		}
	}
	if sut.CodeOf(shared.Check) != sut.CodeOf(fresh.Check) || (fresh.Check != nil && shared.Check.Message != fresh.Check.Message) {
		return ev.V("shared-types:verdict-differs", "type objects that were registered and checked in a first root schema (where %s has other rules): Check() = %v; with fresh objects: %v\nfirst project:\n%s\nsecond project:\n%s", t.Name, shared.Check, fresh.Check, t1, t2)
	}
	return nil
}

func TestPropSharedTypes(t *testing.T) {
	registerAll()
	ev.Rapid(t, "shared-types", ev.N(2500, 15000), func(t *rapid.T) SCase {
		if rapid.IntRange(0, 3).Draw(t, "planted") == 0 {
			return SCase{P: genProject(t), Vary: rapid.IntRange(0, 7).Draw(t, "vary")}
		}
		// a project that is accepted, with one more scalar type without rules and an example elsewhere that is
		// judged through it and differs from the type's own example: pinning the type turns the verdict
		p := gen.Project(t, gen.ProjectOpts{Satisfied: true, RegexType: true, Container: true})
		pin, via := model.Scalar("string", `"pin"`), model.Scalar("string", rapid.SampledFrom([]string{`"other"`, `"pi"`, `"pin "`, `"Pin"`, `""`}).Draw(t, "via"))
		if rapid.Bool().Draw(t, "pinint") {
			pin, via = model.Scalar("integer", "7"), model.Scalar("integer", rapid.SampledFrom([]string{"8", "-7", "70", "0"}).Draw(t, "viaint"))
		}
		via.Rules = append(via.Rules, model.R("type", model.Str("@pin")))
		p.Types = append(p.Types, model.Type{Name: "@pin", Node: pin})
		switch rapid.IntRange(0, 2).Draw(t, "place") {
		case 0:
			p.Root = model.Obj().Add("was_root", p.Root).Add("via", via)
		case 1:
			p.Root = model.Obj().Add("via", model.Arr().Item(via)).Add("was_root", p.Root)
		default:
			// judged inside another registered type
			p.Types = append(p.Types, model.Type{Name: "@holder", Node: model.Obj().Add("via", via)})
			p.Root = model.Obj().Add("was_root", p.Root).Add("h", model.Ref("@holder"))
			return SCase{P: p, Vary: len(p.Types) - 2}
		}
		return SCase{P: p, Vary: len(p.Types) - 1}
	}, sharedOracle)
}

func registerAll() {
	ev.Register("projects-after-prelude", judged)
	ev.Register("shared-types", sharedOracle)
	ev.Register("projects", judged)
	ev.Register("grid", oracle)
	ev.Register("spellings", spellingOracle)
}

// the generated cases after a disturbing prelude on other objects (sut.Disturb), every case from emptied pools
func TestPropProjectsAfterPreludeAfterPrelude(t *testing.T) {
	registerAll()
	ev.Rapid(t, "projects-after-prelude", ev.N(300, 3000), func(t *rapid.T) Case {
		c := genPCase(t)
		c.Prelude = rapid.IntRange(1, sut.DisturbMax).Draw(t, "prelude")
		return c
	}, judged)
	sut.Pristine()
}

func TestPropProjects(t *testing.T) {
	registerAll()
	ev.Rapid(t, "projects", ev.N(12000, 40000), func(t *rapid.T) Case { return Case{P: genProject(t)} }, judged)
}

// decimalLiterals: -?d{1,n}(\.d{1,n})? over the given digits (no superfluous leading zeros)
func decimalLiterals(digits string, n int) []string {
	var ints, fracs []string
	var rec func(cur string, left int, out *[]string, frac bool)
	rec = func(cur string, left int, out *[]string, frac bool) {
		if cur != "" {
			*out = append(*out, cur)
		}
		if left == 0 {
			return
		}
		for _, d := range digits {
			if !frac && cur == "0" {
				continue
			}
			rec(cur+string(d), left-1, out, frac)
		}
	}
	rec("", n, &ints, false)
	rec("", n, &fracs, true)
	var out []string
	for _, sign := range []string{"", "-"} {
		for _, i := range ints {
			out = append(out, sign+i)
			for _, f := range fracs {
				out = append(out, sign+i+"."+f)
			}
		}
	}
	return out
}

// bounded-exhaustive boundary grid: every small decimal as example x as bound x min/max x exclusivity;
// every short string x length limits; every item count x item limits
func TestPropGrid(t *testing.T) {
	registerAll()
	ev.KeepFirst("grid")
	lits := decimalLiterals("019", 1)
	if ev.Thorough() {
		lits = decimalLiterals("0159", 2)
	}
	var n, nt, bad int64
	idx := 0
	judge := func(node *model.Node, boundary bool) {
		c := Case{P: &model.Project{Root: node}}
		n++
		if boundary {
			nt++
			if nt%50000 == 1 {
				ev.Sample("grid", c.P.Text(nil))
			}
		}
		if v := oracle(c); v != nil && ev.Report("grid", c, v) {
			bad++
		}
	}
	for _, ex := range lits {
		kind := "integer"
		if strings.Contains(ex, ".") {
			kind = "float"
		}
		for _, b := range lits {
			idx++
			if !ev.Mine(idx) {
				continue
			}
			eq := ex == b || strings.TrimLeft(ex, "-") == strings.TrimLeft(b, "-")
			for _, rule := range []string{"min", "max"} {
				judge(model.Scalar(kind, ex, model.R(rule, model.Num(b))), eq)
				exName := "exclusiveMinimum"
				if rule == "max" {
					exName = "exclusiveMaximum"
				}
				judge(model.Scalar(kind, ex, model.R(rule, model.Num(b)), model.R(exName, model.Bool(true))), eq)
			}
		}
	}
	strs := []string{""}
	alpha := []string{"a", "\\n", "\\\"", "Z"}
	for l := 1; l <= 3; l++ {
		var next []string
		for _, s := range strs {
			if len(strings.ReplaceAll(strings.ReplaceAll(s, "\\n", "n"), "\\\"", "q")) == l-1 {
				for _, a := range alpha {
					next = append(next, s+a)
				}
			}
		}
		strs = append(strs, next...)
	}
	for _, s := range strs {
		idx++
		if !ev.Mine(idx) {
			continue
		}
		for lim := 0; lim <= 4; lim++ {
			for _, rule := range []string{"minLength", "maxLength"} {
				judge(model.Scalar("string", `"`+s+`"`, model.R(rule, model.Num(fmt.Sprint(lim)))), true)
			}
		}
	}
	for cnt := 1; cnt <= 3; cnt++ {
		for lim := 0; lim <= 4; lim++ {
			idx++
			if !ev.Mine(idx) {
				continue
			}
			for _, rule := range []string{"minItems", "maxItems"} {
				a := model.Arr(model.R(rule, model.Num(fmt.Sprint(lim))))
				for i := 0; i < cnt; i++ {
					a.Item(model.Scalar("integer", fmt.Sprint(i)))
				}
				judge(a, true)
			}
		}
	}
	ev.Count("grid", n)
	ev.NonTrivialEnum("grid", nt)
	ev.Exhaustive("grid", fmt.Sprintf("%d decimal literals as example x as bound x {min, max} x {inclusive, exclusive}; %d strings of length <= 3 (with escapes) x minLength/maxLength 0..4; item counts 1..3 x minItems/maxItems 0..4", len(lits), len(strs)))
	if bad > 0 {
		t.Errorf("VIOLATION-CANDIDATE grid: %d", bad)
	}
}

// Spelling is a rule set and a literal for the metamorphic relation: the verdict must not depend on
// whether the rules are written on the example, inside a one-real-alternative `or`, or behind a type.
type Spelling struct {
	Lit   string       `json:"lit"`
	Kind  string       `json:"kind"`
	Rules []model.Rule `json:"rules"`
}

func spellingOracle(sp Spelling) *ev.Verdict {
	inline := &model.Project{Root: &model.Node{Kind: sp.Kind, Lit: sp.Lit, Rules: sp.Rules}}
	res := rules.Evaluate(inline)
	if len(res.Ambiguous) > 0 {
		return nil
	}
	tn := sp.Kind
	for _, r := range sp.Rules {
		if r.Name == "precision" {
			tn = "decimal"
		}
	}
	set := append([]model.Rule{model.R("type", model.Str(tn))}, sp.Rules...)
	impossible := model.Set(model.R("type", model.Str("boolean")))
	if sp.Kind == "boolean" {
		impossible = model.Set(model.R("type", model.Str("integer")), model.R("min", model.Num("1000000")))
	}
	viaOr := &model.Project{Root: &model.Node{Kind: sp.Kind, Lit: sp.Lit, Rules: []model.Rule{model.R("or", model.List(model.Set(set...), impossible))}}}
	viaType := &model.Project{Root: model.Obj().Add("v", &model.Node{Kind: sp.Kind, Lit: sp.Lit, Rules: []model.Rule{model.R("type", model.Str("@t"))}}),
		Types: []model.Type{{Name: "@t", Node: &model.Node{Kind: sp.Kind, Lit: sp.Lit, Rules: sp.Rules}}}}
	// the type's own example is the same literal, so "accepted" means the same in all three spellings
	var verdicts []bool
	var texts []string
	for _, p := range []*model.Project{inline, viaOr, viaType} {
		o := sut.Observe(p.Text(nil))
		if len(o.Escapes) > 0 {
			return ev.V("panic:"+o.Escapes[0].Op, "%s panicked: %s\n%s", o.Escapes[0].Op, o.Escapes[0].Value, p.Text(nil))
		}
		verdicts = append(verdicts, o.Check == nil && len(o.AddErr) == 0)
		texts = append(texts, p.Text(nil).String())
	}
	for _, r := range sp.Rules {
		// const / nullable / enum are not admitted inside an or rule-set or beside a type reference in
		// the same way: only plain value rules take part in this relation
		if r.Name == "const" || r.Name == "nullable" || r.Name == "enum" || r.Name == "or" || r.Name == "type" {
			return nil
		}
	}
	if verdicts[0] != verdicts[1] {
		return ev.V("spelling:inline-vs-or", "the same rules accept=%v inline but accept=%v inside an or rule-set\n%s\n---\n%s", verdicts[0], verdicts[1], texts[0], texts[1])
	}
	if verdicts[0] != verdicts[2] {
		return ev.V("spelling:inline-vs-type", "the same rules accept=%v inline but accept=%v behind a user type\n%s\n---\n%s", verdicts[0], verdicts[2], texts[0], texts[2])
	}
	return nil
}

func TestPropSpellings(t *testing.T) {
	registerAll()
	ev.Rapid(t, "spellings", ev.N(4000, 15000), func(t *rapid.T) Spelling {
		n := gen.Scalar(t, gen.ScalarOpts{NoRefs: true}, "sp")
		return Spelling{Lit: n.Lit, Kind: n.Kind, Rules: n.Rules}
	}, func(sp Spelling) *ev.Verdict {
		if len(sp.Rules) > 0 {
			ev.NonTrivial("spellings", sp.Lit+fmt.Sprint(sp.Rules))
			if ev.WantSample("spellings") {
				ev.Sample("spellings", sp)
			}
		}
		return spellingOracle(sp)
	})
}

func TestPropRegressions(t *testing.T) {
	registerAll()
	ev.ReplayDir(t, ev.Root()+"/regress/C01")
}

func TestReplay(t *testing.T) {
	registerAll()
	ev.Replay(t)
}

var _ = strings.Contains
