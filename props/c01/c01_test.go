// C01 - Check() verdict equals the rule semantics applied to the example values.
package c01

import (
	"fmt"
	"strings"
	"testing"

	"pgregory.net/rapid"

	"verif/internal/ev"
	"verif/internal/gen"
	"verif/internal/model"
	"verif/internal/ref/rules"
	"verif/internal/sut"
)

func TestMain(m *testing.M) { ev.Main(m, "C01") }

type Case struct {
	P *model.Project `json:"project"`
}

func genProject(t *rapid.T) *model.Project {
	p := &model.Project{}
	if rapid.IntRange(0, 2).Draw(t, "enumrules") == 0 {
		items := []model.Val{}
		for _, l := range rapid.SliceOfNDistinct(rapid.SampledFrom([]string{`"a"`, `"A"`, `1`, `2.5`, `true`, `null`, `"ab"`, `0`, `"1"`}), 1, 4, func(s string) string { return s }).Draw(t, "enumitems") {
			items = append(items, model.LitVal(l))
		}
		p.Enums = append(p.Enums, model.EnumRule{Name: "@e0", Items: items})
	}
	so := gen.ScalarOpts{Enums: p.Enums}
	nt := rapid.IntRange(0, 3).Draw(t, "ntypes")
	for i := 0; i < nt; i++ {
		name := fmt.Sprintf("@s%d", i)
		so.Types = p.Types // earlier types only: no reference cycles here
		p.Types = append(p.Types, model.Type{Name: name, Node: gen.Scalar(t, so, name)})
	}
	if rapid.IntRange(0, 3).Draw(t, "regextype") == 0 {
		p.Types = append(p.Types, model.Type{Name: "@re", Regex: rapid.SampledFrom([]string{"/^a/", "/b$/", `/^[a-z]+$/`, `/\d/`}).Draw(t, "re")})
	}
	so.Types = p.Types
	var refNames []string
	for _, ty := range p.Types {
		refNames = append(refNames, ty.Name)
	}
	to := gen.TreeOpts{Scalar: so, RefTypes: refNames}
	if rapid.IntRange(0, 3).Draw(t, "containertype") == 0 {
		// a container type that is only reachable through value shortcuts
		p.Types = append(p.Types, model.Type{Name: "@obj", Node: gen.Tree(t, to, 2, "@obj")})
		to.RefTypes = append(to.RefTypes, "@obj")
	}
	p.Root = gen.Tree(t, to, rapid.IntRange(0, 3).Draw(t, "depth"), "root")
	return p
}

func oracle(c Case) *ev.Verdict {
	p := c.P
	if p == nil || p.Root == nil {
		return nil
	}
	res := rules.Evaluate(p)
	if len(res.Ambiguous) > 0 {
		ev.Excluded("projects", "ambiguous: "+res.Ambiguous[0])
		return nil
	}
	o := sut.Observe(p.Text(nil))
	if len(o.Escapes) > 0 {
		e := o.Escapes[0]
		return ev.V("panic:"+e.Op+":"+e.Frame, "%s panicked: %s\n%s", e.Op, e.Value, p.Text(nil))
	}
	// a type or rule that cannot even be registered makes the project rejected as a whole
	var regErr *sut.ErrInfo
	for _, e := range o.AddErr {
		regErr = e
	}
	for _, e := range o.RuleErr {
		regErr = e
	}
	want := res.Satisfied()
	got := o.Check == nil && regErr == nil
	rej := o.Check
	if regErr != nil {
		rej = regErr
	}
	if got == want {
		return nil
	}
	if want {
		return ev.V(fmt.Sprintf("rejects-satisfied:code-%d", rej.Code), "every example satisfies its rules but the project is rejected: %s\n%s", rej, p.Text(nil))
	}
	f := res.Failures[0]
	return ev.V("accepts-violated:"+f.Rule, "Check() accepts although %s\n%s", f, p.Text(nil))
}

func judged(c Case) *ev.Verdict {
	if c.P != nil && c.P.Root != nil {
		res := rules.Evaluate(c.P)
		if len(res.Ambiguous) == 0 {
			if len(res.Boundary) > 0 || res.Depth >= 2 {
				ev.NonTrivial("projects", c.P.Text(nil).String())
				if ev.WantSample("projects") {
					ev.Sample("projects", c.P.Text(nil))
				}
			}
			for _, b := range res.Boundary {
				ev.Class("projects", "boundary "+b)
			}
			if res.Satisfied() {
				ev.Class("projects", "expected: accepted")
			} else {
				ev.Class("projects", "expected: rejected by "+res.Failures[0].Rule)
			}
		}
	}
	return oracle(c)
}

func registerAll() {
	ev.Register("projects", judged)
	ev.Register("grid", oracle)
}

func TestPropProjects(t *testing.T) {
	registerAll()
	ev.Rapid(t, "projects", ev.N(3000, 40000), func(t *rapid.T) Case { return Case{P: genProject(t)} }, judged)
}

func TestPropRegressions(t *testing.T) {
	registerAll()
	ev.ReplayDir(t, ev.Root()+"/regress/C01")
}

func TestReplay(t *testing.T) {
	registerAll()
	ev.Replay(t)
}

var _ = strings.Contains
