// C07 - allOf inheritance yields exactly own + inherited properties, or a clear refusal.
package c07

import (
	"fmt"
	"sort"
	"strings"
	"testing"

	"github.com/jsightapi/jsight-schema-core/notations/jschema"
	"github.com/jsightapi/jsight-schema-core/notations/jschema/ischema"
	"github.com/jsightapi/jsight-schema-core/notations/jschema/ischema/constraint"
	"github.com/jsightapi/jsight-schema-core/openapi"
	"pgregory.net/rapid"

	"verif/internal/ev"
	"verif/internal/model"
	"verif/internal/ref/jsonv"
	"verif/internal/sut"
)

func TestMain(m *testing.M) { ev.Main(m, "C07") }

// OType is an object type of the inheritance model.
type OType struct {
	Name     string   `json:"name"`
	NonObj   bool     `json:"non_obj,omitempty"`
	Keys     []string `json:"keys,omitempty"`
	Opt      []bool   `json:"opt,omitempty"`
	Vals     []string `json:"vals,omitempty"` // "" = 1; "obj" nested object; "@x" reference
	AllOf    []string `json:"all_of,omitempty"`
	AP       string   `json:"ap,omitempty"` // "", true, false, "any", "string", "integer", "@t"
	Withheld bool     `json:"withheld,omitempty"`
}

type Case struct {
	Types []OType `json:"types"` // Types[0] is the root @main
	Order []int   `json:"order,omitempty"`
	Wrap  int     `json:"wrap,omitempty"` // 0: root inherits itself; 1: root nests the inheriting object; 2: root only references @t0
	// Extra: 1 = every type object is asked Check() alone before it is registered; 2 = after all registrations
	// the root is offered another type under the name of every parent (refused: the name is taken)
	Extra int `json:"extra,omitempty"`
}

func (o OType) node() *model.Node {
	if o.NonObj {
		return model.Arr().Item(model.Scalar("integer", "1"))
	}
	n := model.Obj()
	if len(o.AllOf) == 1 {
		n.Rules = append(n.Rules, model.R("allOf", model.Str(o.AllOf[0])))
	} else if len(o.AllOf) > 1 {
		var items []model.Val
		for _, a := range o.AllOf {
			items = append(items, model.Str(a))
		}
		n.Rules = append(n.Rules, model.R("allOf", model.List(items...)))
	}
	switch o.AP {
	case "":
	case "true", "false":
		n.Rules = append(n.Rules, model.R("additionalProperties", model.Bool(o.AP == "true")))
	default:
		n.Rules = append(n.Rules, model.R("additionalProperties", model.Str(o.AP)))
	}
	for i, k := range o.Keys {
		var kid *model.Node
		switch {
		case i < len(o.Vals) && o.Vals[i] == "obj":
			kid = model.Obj().Add("inner", model.Scalar("integer", "1"))
		case i < len(o.Vals) && strings.HasPrefix(o.Vals[i], "obj+"):
			// a nested object that inherits on its own
			kid = model.Obj(model.R("allOf", model.Str(strings.TrimPrefix(o.Vals[i], "obj+")))).Add("inner", model.Scalar("integer", "1"))
		case i < len(o.Vals) && strings.HasPrefix(o.Vals[i], "arr+"):
			// an array whose item is an object that inherits on its own
			kid = model.Arr().Item(model.Obj(model.R("allOf", model.Str(strings.TrimPrefix(o.Vals[i], "arr+")))).Add("inner", model.Scalar("integer", "1")))
		case i < len(o.Vals) && strings.HasPrefix(o.Vals[i], "@"):
			kid = model.Ref(o.Vals[i])
		default:
			kid = model.Scalar("integer", "1")
		}
		if i < len(o.Opt) && o.Opt[i] {
			kid.Rules = append(kid.Rules, model.R("optional", model.Bool(true)))
		}
		n.Add(k, kid)
	}
	return n
}

type keyInfo struct {
	key, origin string
	opt         bool
}

type merger struct {
	ts     map[string]OType
	memo   map[string][]keyInfo
	codes  map[int]bool
	nested map[string][]string // "type.key" -> expected key list of a nested inheriting object
}

// apPool: what an additionalProperties rule may say; every name of a schema type is a value of its own,
// two different names never agree (only "any" and true mean the same)
var apPool = []string{"true", "false", "any", "string", "integer", "@t0",
	"string", "email", "uri", "uuid", "date", "datetime", "float", "decimal", "boolean", "object", "array", "null", "enum", "mixed"}

func normAP(s string) string {
	if s == "any" {
		return "true"
	}
	return s
}

// effAP: the additionalProperties an object ends up with (own, else the first inherited one)
func (m *merger) effAP(name string, stack map[string]bool) string {
	o := m.ts[name]
	if o.AP != "" {
		return o.AP
	}
	if stack[name] {
		return ""
	}
	stack[name] = true
	defer delete(stack, name)
	for _, p := range o.AllOf {
		if pt, ok := m.ts[p]; ok && !pt.Withheld && !pt.NonObj {
			if a := m.effAP(p, stack); a != "" {
				return a
			}
		}
	}
	return ""
}

func (m *merger) merge(name string, stack map[string]bool) []keyInfo {
	if r, ok := m.memo[name]; ok {
		return r
	}
	o := m.ts[name]
	var out []keyInfo
	for i, k := range o.Keys {
		out = append(out, keyInfo{k, "", i < len(o.Opt) && o.Opt[i]})
	}
	stack[name] = true
	// nested objects with their own allOf are separate inheriting objects
	for i, k := range o.Keys {
		if i < len(o.Vals) && (strings.HasPrefix(o.Vals[i], "obj+") || strings.HasPrefix(o.Vals[i], "arr+")) {
			p := o.Vals[i][4:]
			keys := []string{"inner"}
			pt, ok := m.ts[p]
			switch {
			case !ok || pt.Withheld:
				m.codes[1302] = true
			case stack[p]:
				m.codes[703] = true
			case pt.NonObj:
				m.codes[704] = true
			default:
				for _, s := range m.merge(p, stack) {
					if s.key == "inner" {
						m.codes[402] = true
					}
					keys = append(keys, s.key)
				}
			}
			if m.nested == nil {
				m.nested = map[string][]string{}
			}
			m.nested[name+"."+k] = keys
		}
	}
	ap := o.AP
	for _, p := range o.AllOf {
		pt, ok := m.ts[p]
		switch {
		case !ok || pt.Withheld:
			m.codes[1302] = true
			continue
		case stack[p]:
			m.codes[703] = true
			continue
		case pt.NonObj:
			m.codes[704] = true
			continue
		}
		for _, s := range m.merge(p, stack) {
			out = append(out, keyInfo{s.key, p, s.opt})
		}
		if pap := m.effAP(p, map[string]bool{}); pap != "" {
			if ap == "" {
				ap = pap
			} else if normAP(ap) != normAP(pap) {
				m.codes[705] = true
			}
		}
	}
	delete(stack, name)
	seen := map[string]bool{}
	for _, k := range out {
		if seen[k.key] {
			m.codes[402] = true
		}
		seen[k.key] = true
	}
	m.memo[name] = out
	return out
}

// mark: one property of a compiled object with the type it is inherited from and, when its value is an
// object (or an array of one object), the properties of that object
type mark struct {
	key, from string
	arr       bool
	kids      []mark
	leaf      bool
}

// marks: the expected tree of an object type that merges without a defect. An inherited property is marked
// with the parent it comes from; what is below it is a copy of what the parent holds.
func (m *merger) marks(name string) []mark {
	o := m.ts[name]
	var out []mark
	for i, k := range o.Keys {
		v := ""
		if i < len(o.Vals) {
			v = o.Vals[i]
		}
		mk := mark{key: k, leaf: true}
		switch {
		case v == "obj":
			mk.leaf = false
			mk.kids = []mark{{key: "inner", leaf: true}}
		case strings.HasPrefix(v, "obj+"), strings.HasPrefix(v, "arr+"):
			mk.leaf = false
			mk.arr = strings.HasPrefix(v, "arr+")
			mk.kids = []mark{{key: "inner", leaf: true}}
			for _, s := range m.marks(v[4:]) {
				s.from = v[4:]
				mk.kids = append(mk.kids, s)
			}
		}
		out = append(out, mk)
	}
	for _, p := range o.AllOf {
		for _, s := range m.marks(p) {
			s.from = p
			out = append(out, s)
		}
	}
	return out
}

func marksString(ms []mark) string {
	var sb strings.Builder
	for i, k := range ms {
		if i > 0 {
			sb.WriteByte(',')
		}
		fmt.Fprintf(&sb, "%s<%s>", k.key, k.from)
		if !k.leaf {
			if k.arr {
				sb.WriteString("[(" + marksString(k.kids) + ")]")
			} else {
				sb.WriteString("(" + marksString(k.kids) + ")")
			}
		}
	}
	return sb.String()
}

func (m *merger) marksText(name string) string { return "(" + marksString(m.marks(name)) + ")" }

// renderMarks: the same text from the compiled tree
func renderMarks(n ischema.Node) string {
	switch x := n.(type) {
	case *ischema.ObjectNode:
		var sb strings.Builder
		sb.WriteByte('(')
		for i, ch := range x.Children() {
			if i > 0 {
				sb.WriteByte(',')
			}
			fmt.Fprintf(&sb, "%s<%s>%s", x.Key(i).Key, ch.InheritedFrom(), renderMarks(ch))
		}
		sb.WriteByte(')')
		return sb.String()
	case *ischema.ArrayNode:
		var sb strings.Builder
		sb.WriteByte('[')
		for i, ch := range x.Children() {
			if i > 0 {
				sb.WriteByte(',')
			}
			sb.WriteString(renderMarks(ch))
		}
		sb.WriteByte(']')
		return sb.String()
	}
	return ""
}

var refusalFamily = map[int]bool{402: true, 703: true, 704: true, 705: true, 1302: true}

func (c Case) project() (*model.Project, string) {
	p := &model.Project{}
	root := c.Types[0]
	inheriting := "@main"
	switch c.Wrap {
	case 1:
		// the root nests the inheriting object under a key
		p.Root = model.Obj().Add("nested", root.node())
	case 2:
		// the root only references the first type, which does the inheriting
		if len(c.Types) > 1 && !c.Types[1].Withheld && !c.Types[1].NonObj {
			p.Root = model.Obj().Add("ref", model.Ref(c.Types[1].Name))
			inheriting = c.Types[1].Name
		} else {
			p.Root = root.node()
		}
	default:
		p.Root = root.node()
	}
	for _, t := range c.Types[1:] {
		p.Types = append(p.Types, model.Type{Name: t.Name, Node: t.node()})
		if t.Withheld {
			p.Withheld = append(p.Withheld, t.Name)
		}
	}
	p.Order = c.Order
	// the root must be known under its name when somebody inherits from / refers to it
	for _, t := range c.Types {
		for _, a := range t.AllOf {
			if a == "@main" {
				p.Self = true
			}
		}
		for _, v := range t.Vals {
			if v == "@main" {
				p.Self = true
			}
		}
	}
	return p, inheriting
}

func keysOf(n ischema.Node) ([]string, []string, []string) {
	on, ok := n.(*ischema.ObjectNode)
	if !ok {
		return nil, nil, nil
	}
	var keys, origins, req []string
	for i, ch := range on.Children() {
		keys = append(keys, on.Key(i).Key)
		origins = append(origins, ch.InheritedFrom())
	}
	if rk := on.Constraint(constraint.RequiredKeysConstraintType); rk != nil {
		req = append(req, rk.(*constraint.RequiredKeys).Keys()...)
	}
	sort.Strings(req)
	return keys, origins, req
}

// reachableOnly: the case without the types nobody names (with nested registrations a type that no text
// mentions is registered nowhere: it is not part of the project at all)
func reachableOnly(c Case) Case {
	mention := func(o OType, name string) bool {
		if o.NonObj {
			return false // (printed as an array of one integer)
		}
		for _, a := range o.AllOf {
			if a == name {
				return true
			}
		}
		for _, v := range o.Vals {
			if v == name || strings.HasSuffix(v, "+"+name) {
				return true
			}
		}
		return o.AP == name
	}
	reach := map[string]bool{c.Types[0].Name: true}
	rootOnlyRefers := c.Wrap == 2 && len(c.Types) > 1 && !c.Types[1].Withheld && !c.Types[1].NonObj
	if rootOnlyRefers {
		// the root text is {"ref": @t0}: what Types[0] says is not in the project
		reach = map[string]bool{c.Types[1].Name: true}
	}
	for changed := true; changed; {
		changed = false
		for _, t := range c.Types {
			if !reach[t.Name] || t.Withheld {
				continue
			}
			for _, u := range c.Types {
				if !reach[u.Name] && mention(t, u.Name) {
					reach[u.Name] = true
					changed = true
				}
			}
		}
	}
	out := c
	out.Types = nil
	out.Order = nil
	for i, t := range c.Types {
		if reach[t.Name] || (i == 0 && rootOnlyRefers) {
			out.Types = append(out.Types, t)
		}
	}
	return out
}

func oracle(c Case) *ev.Verdict {
	if len(c.Types) == 0 {
		return nil
	}
	if c.Extra == 3 && c.Wrap == 2 {
		c.Extra = 0 // (a root that only refers to the first type: which type that is would change with the filter)
	}
	if c.Extra == 3 {
		c = reachableOnly(c)
	}
	p, inheriting := c.project()
	tp := p.Text(nil)
	ts := map[string]OType{}
	for _, t := range c.Types {
		ts[t.Name] = t
	}
	m := &merger{ts: ts, memo: map[string][]keyInfo{}, codes: map[int]bool{}}
	want := m.merge(inheriting, map[string]bool{})
	rootUnused := c.Wrap == 2 && inheriting != "@main" // Types[0] is not part of the project then
	// every registered object type is compiled too
	for _, t := range c.Types[1:] {
		if !t.Withheld && !t.NonObj {
			m.merge(t.Name, map[string]bool{})
		}
	}
	// value references to withheld types are missing types as well
	for i, t := range c.Types {
		if t.Withheld || t.NonObj || (i == 0 && rootUnused) {
			continue
		}
		for _, v := range t.Vals {
			if strings.HasPrefix(v, "@") {
				if vt, ok := ts[v]; !ok || vt.Withheld {
					m.codes[1302] = true
				}
			}
		}
		if strings.HasPrefix(t.AP, "@") {
			if vt, ok := ts[t.AP]; !ok || vt.Withheld {
				m.codes[1302] = true
			}
		}
	}
	if v := failedFirst(c); v != nil {
		return v
	}
	ev.Guard("inheritance", c)
	defer ev.Unguard()
	single := true // (a merge that fails after its first parent leaves the type half-extended: C10 known finding)
	for _, t := range c.Types {
		single = single && len(t.AllOf) <= 1
	}
	tp.PreCheck = c.Extra == 1 && single
	// 3 = every schema registers only the types its own text names: parents and referred types are known to
	// the type that names them, not to the root (the root inheriting itself needs no such thing: Wrap 0 only)
	tp.Nest = c.Extra == 3 && !p.Self
	b := sut.Build(tp)
	if c.Extra == 2 {
		// a second registration under a taken name is refused and changes nothing
		for _, t := range c.Types[1:] {
			t := t
			if t.Withheld {
				continue
			}
			var err error
			if esc := sut.Trap("AddType(taken name)", func() {
				err = b.S.AddType(t.Name, jschema.New(t.Name, "{\n  \"intruder\": 1, // {optional: true}\n  \"intruder2\": \"x\"\n}"))
			}); esc != nil {
				return ev.V("panic:AddType-taken-name:"+esc.Frame, "AddType under the taken name %s panicked: %s\n%s", t.Name, esc.Value, tp)
			}
			if err == nil {
				return ev.V("taken-name:accepted", "a second AddType(%s) is accepted\n%s", t.Name, tp)
			}
		}
	}
	var cerr *sut.ErrInfo
	if esc := sut.Trap("Check", func() { cerr = sut.Describe(b.S.Check()) }); esc != nil {
		return ev.V("panic:Check:"+esc.Frame, "Check() panicked: %s\n%s", esc.Value, tp)
	}
	for n, e := range b.AddErr {
		return ev.V(fmt.Sprintf("harness:addtype-%d", e.Code), "AddType(%s) fails: %s\n%s", n, e, tp)
	}
	var defects []string
	for k := range m.codes {
		defects = append(defects, fmt.Sprint(k))
	}
	sort.Strings(defects)
	if len(defects) > 0 {
		if cerr == nil {
			return ev.V("merged-despite:"+strings.Join(defects, "+"), "inheritance has defect(s) %v (402 duplicate key, 703 cycle, 704 non-object, 705 conflicting additionalProperties, 1302 missing type) but Check() accepts\n%s", defects, tp)
		}
		if !refusalFamily[cerr.Code] {
			return ev.V(fmt.Sprintf("refused-with-unrelated-code-%d", cerr.Code), "defects %v; refused with %s\n%s", defects, cerr, tp)
		}
		if m.codes[cerr.Code] {
			ev.Class("inheritance", "refusal code is one of the computed ones")
		} else {
			ev.Class("inheritance", "refusal code outside the computed set (tolerated)")
		}
		return nil
	}
	if cerr != nil {
		return ev.V(fmt.Sprintf("refuses-valid:code-%d", cerr.Code), "the inheritance is sound but Check() fails: %s\n%s", cerr, tp)
	}
	// locate the inheriting object in the compiled tree and in the example
	var node ischema.Node
	var exb []byte
	var exErr error
	var infos []string
	esc := sut.Trap("observe", func() {
		node = b.S.Inner.RootNode()
		exb, exErr = b.S.Example()
		for _, inf := range openapi.Dereference(b.S) {
			if oi, ok := inf.(openapi.ObjectInformer); ok {
				for _, pi := range oi.PropertiesInfos() {
					infos = append(infos, fmt.Sprintf("%s:%v", pi.Key(), pi.Optional()))
				}
			}
		}
	})
	if esc != nil {
		return ev.V("panic:"+esc.Frame, "inspecting the accepted schema panicked: %s\n%s", esc.Value, tp)
	}
	if exErr != nil {
		return ev.V("example:error", "Example() fails: %v\n%s", exErr, tp)
	}
	ex, err := jsonv.Parse(exb)
	if err != nil {
		return ev.V("example:invalid-json", "Example() is not JSON: %s\n%s", exb, tp)
	}
	var wantKeys, wantOrigins, wantInfos, wantReq []string
	for _, k := range want {
		wantKeys = append(wantKeys, k.key)
		wantOrigins = append(wantOrigins, k.origin)
		wantInfos = append(wantInfos, fmt.Sprintf("%s:%v", k.key, k.opt))
		if !k.opt {
			wantReq = append(wantReq, k.key)
		}
	}
	sort.Strings(wantReq)
	exObj := ex
	switch c.Wrap {
	case 1:
		exObj = ex.Get("nested")
		if on, ok := node.(*ischema.ObjectNode); ok && on.Len() == 1 {
			node = on.Children()[0]
		}
	case 2:
		if inheriting != "@main" {
			exObj = ex.Get("ref")
			node = b.Types[inheriting].(*jschema.JSchema).Inner.RootNode()
		}
	}
	if exObj == nil || exObj.Kind != jsonv.Object {
		return ev.V("example:shape", "Example() %s has no object where the inheriting object is\n%s", exb, tp)
	}
	if strings.Join(exObj.Keys, ",") != strings.Join(wantKeys, ",") {
		return ev.V("example:keys", "Example() keys %v, expected own + inherited %v\n%s", exObj.Keys, wantKeys, tp)
	}
	for i, k := range ts[inheriting].Keys {
		if i < len(ts[inheriting].Vals) && (strings.HasPrefix(ts[inheriting].Vals[i], "obj+") || strings.HasPrefix(ts[inheriting].Vals[i], "arr+")) {
			sub := exObj.Get(k)
			if strings.HasPrefix(ts[inheriting].Vals[i], "arr+") {
				if sub == nil || sub.Kind != jsonv.Array || len(sub.Items) != 1 {
					return ev.V("example:nested-keys", "the property %q is an array of one inheriting object: Example() has %s\n%s", k, exb, tp)
				}
				sub = sub.Items[0]
			}
			wantN := m.nested[inheriting+"."+k]
			if sub == nil || sub.Kind != jsonv.Object || strings.Join(sub.Keys, ",") != strings.Join(wantN, ",") {
				got := "<missing>"
				if sub != nil {
					got = sub.Canon()
				}
				return ev.V("example:nested-keys", "the nested object %q inherits on its own: Example() has %s, expected keys %v\n%s", k, got, wantN, tp)
			}
		}
	}
	if c.Wrap == 0 && strings.Join(infos, ",") != strings.Join(wantInfos, ",") {
		return ev.V("openapi:properties", "PropertiesInfos() = %v, expected %v\n%s", infos, wantInfos, tp)
	}
	keys, origins, req := keysOf(node)
	if strings.Join(keys, ",") != strings.Join(wantKeys, ",") {
		return ev.V("compiled:keys", "compiled object has keys %v, expected %v\n%s", keys, wantKeys, tp)
	}
	if strings.Join(origins, ",") != strings.Join(wantOrigins, ",") {
		return ev.V("compiled:inherited-from", "InheritedFrom() per child %q, expected %q\n%s", origins, wantOrigins, tp)
	}
	if strings.Join(req, ",") != strings.Join(wantReq, ",") {
		return ev.V("compiled:required", "required keys %v, expected %v\n%s", req, wantReq, tp)
	}
	// the whole compiled tree: objects nested in an inherited property keep the marks they have in the parent
	if got, want := renderMarks(node), m.marksText(inheriting); got != want {
		return ev.V("compiled:marks-deep", "compiled tree key<InheritedFrom>(children): %s, expected %s\n%s", got, want, tp)
	}
	for _, t := range c.Types[1:] {
		if t.Withheld || t.NonObj {
			continue
		}
		if got, want := renderMarks(b.Types[t.Name].(*jschema.JSchema).Inner.RootNode()), m.marksText(t.Name); got != want {
			return ev.V("compiled:marks-deep-type", "compiled tree of type %s key<InheritedFrom>(children): %s, expected %s\n%s", t.Name, got, want, tp)
		}
	}
	// inheritance copies: every registered object type holds exactly its own merged keys
	for _, t := range c.Types[1:] {
		if t.Withheld || t.NonObj {
			continue
		}
		var tk []string
		for _, k := range m.merge(t.Name, map[string]bool{}) {
			tk = append(tk, k.key)
		}
		got, _, _ := keysOf(b.Types[t.Name].(*jschema.JSchema).Inner.RootNode())
		if strings.Join(got, ",") != strings.Join(tk, ",") {
			return ev.V("parent-changed", "type %s holds keys %v after the root was compiled, expected %v\n%s", t.Name, got, tk, tp)
		}
	}
	return nil
}

// ---- generation

var universe = []string{"a", "b", "c", "d", "e", "f"}

// wide objects: merged property lists of ten and more entries, a duplicate at any position
var universeWide = func() []string {
	var u []string
	for i := 0; i < 72; i++ {
		u = append(u, fmt.Sprintf("k%02d", i))
	}
	return u
}()

// failedFirst: the type objects are first registered in a root schema from which the withheld types are
// missing - its Check() fails - and then, the very same objects, in a root schema that has all of them:
// the second result must be that of fresh objects. (Cases with an allOf list are left out: a merge that
// fails after its first parent leaves the shared type half-extended, the C10 known finding.)
func failedFirst(c Case) *ev.Verdict {
	withheld := false
	for _, t := range c.Types {
		if len(t.AllOf) > 1 {
			return nil
		}
		withheld = withheld || t.Withheld
	}
	if !withheld {
		return nil
	}
	p1, _ := c.project()
	full := Case{Order: nil, Wrap: c.Wrap}
	for _, t := range c.Types {
		t.Withheld = false
		full.Types = append(full.Types, t)
	}
	p2, _ := full.project()
	t1, t2 := p1.Text(nil), p2.Text(nil)
	ev.Guard("inheritance", c)
	defer ev.Unguard()
	b1 := sut.Build(t1)
	o1 := sut.ObserveBuilt(b1)
	if o1.Check == nil || len(o1.Escapes) > 0 {
		return nil // (the missing type is not reachable, or the main oracle reports the panic)
	}
	shared := sut.ObserveBuilt(sut.BuildSharing(t2, b1))
	fresh := sut.Observe(t2)
	if len(shared.Escapes) > 0 {
		e := shared.Escapes[0]
		return ev.V("failed-first:panic:"+e.Op+":"+e.Frame, "%s panicked in the complete root schema built from the objects of a failed one: %s\n%s", e.Op, e.Value, t2)
	}
	ev.Class("inheritance", "type objects first registered in a root schema that fails for a missing type")
	if sut.CodeOf(shared.Check) != sut.CodeOf(fresh.Check) || shared.Example != fresh.Example {
		return ev.V("failed-first:differs", "type objects first registered where %v is missing (Check: %v), then in the complete root schema: Check() = %v, Example() = %s; fresh objects give %v, %s\n%s", p1.Withheld, o1.Check, shared.Check, shared.Example, fresh.Check, fresh.Example, t2)
	}
	return nil
}

func genCase(t *rapid.T) Case {
	n := rapid.IntRange(1, 5).Draw(t, "n")
	names := []string{"@main"}
	for i := 0; i < n; i++ {
		names = append(names, fmt.Sprintf("@t%d", i))
	}
	var c Case
	wide := rapid.IntRange(0, 3).Draw(t, "wide") == 0
	c.Wrap = rapid.SampledFrom([]int{0, 0, 0, 1, 2}).Draw(t, "wrap")
	parents := names
	if c.Wrap != 0 {
		// the model describes @main by Types[0]; when the root is a wrapper around it nobody may
		// inherit from the (different) real root
		parents = names[1:]
	}
	for _, nm := range names {
		o := OType{Name: nm}
		if nm != "@main" && rapid.IntRange(0, 11).Draw(t, nm+"nonobj") == 0 {
			o.NonObj = true
		}
		o.Keys = rapid.SliceOfNDistinct(rapid.SampledFrom(universe), 0, 2, func(s string) string { return s }).Draw(t, nm+"keys")
		if wide {
			// every type gets keys of its own (no accidental clashes); one clash is planted below
			at := len(c.Types) * 12
			o.Keys = append([]string{}, universeWide[at:at+rapid.IntRange(3, 12).Draw(t, nm+"widekeys")]...)
		}
		for range o.Keys {
			o.Opt = append(o.Opt, rapid.IntRange(0, 3).Draw(t, nm+"opt") == 0)
			v := ""
			switch rapid.IntRange(0, 9).Draw(t, nm+"val") {
			case 0:
				v = "obj"
			case 1:
				v = rapid.SampledFrom(names[1:]).Draw(t, nm+"valref")
			case 2, 3:
				v = rapid.SampledFrom([]string{"obj+", "obj+", "arr+"}).Draw(t, nm+"nestkind") + rapid.SampledFrom(names[1:]).Draw(t, nm+"valnested")
			}
			if wide && len(o.Vals) >= 2 && v != "" && v != "obj" {
				// (Example() of a project with many mutually referring optional properties grows with the
				// product of their numbers - minutes and gigabytes for five wide types; two links per type
				// keep the case about inheritance)
				v = ""
			}
			o.Vals = append(o.Vals, v)
		}
		if rapid.IntRange(0, 2).Draw(t, nm+"hasAllOf") != 0 {
			pool := parents
			if rapid.IntRange(0, 3).Draw(t, nm+"later") != 0 {
				// mostly parents that come later: DAGs, chains and diamonds rather than cycles
				var later []string
				for i, x := range names {
					if x == nm && i+1 < len(names) {
						later = names[i+1:]
					}
				}
				if len(later) > 0 {
					pool = later
				}
			}
			k := 2
			if len(pool) < 2 {
				k = len(pool)
			}
			o.AllOf = rapid.SliceOfNDistinct(rapid.SampledFrom(pool), 1, k, func(s string) string { return s }).Draw(t, nm+"parents")
		}
		if rapid.IntRange(0, 3).Draw(t, nm+"hasAP") == 0 {
			o.AP = rapid.SampledFrom(apPool).Draw(t, nm+"ap")
		}
		if nm != "@main" && rapid.IntRange(0, 11).Draw(t, nm+"withheld") == 0 {
			o.Withheld = true
		}
		c.Types = append(c.Types, o)
	}
	if wide && len(c.Types) >= 2 && rapid.Bool().Draw(t, "clash") {
		// exactly one property name occurs twice, at any position of either list
		x := rapid.IntRange(0, len(c.Types)-1).Draw(t, "clashx")
		y := rapid.IntRange(0, len(c.Types)-2).Draw(t, "clashy")
		if y >= x {
			y++
		}
		if len(c.Types[x].Keys) > 0 && len(c.Types[y].Keys) > 0 {
			c.Types[y].Keys[rapid.IntRange(0, len(c.Types[y].Keys)-1).Draw(t, "clashyi")] = c.Types[x].Keys[rapid.IntRange(0, len(c.Types[x].Keys)-1).Draw(t, "clashxi")]
		}
	}
	// value references must not create mandatory recursion (that is C06's business): make them optional
	for i := range c.Types {
		for j, v := range c.Types[i].Vals {
			if strings.HasPrefix(v, "@") {
				c.Types[i].Opt[j] = true
			}
		}
	}
	reg := 0
	for _, o := range c.Types[1:] {
		if !o.Withheld {
			reg++
		}
	}
	if reg >= 2 && rapid.Bool().Draw(t, "permute") {
		c.Order = make([]int, reg)
		for i := range c.Order {
			c.Order[i] = i
		}
		for i := reg - 1; i > 0; i-- {
			j := rapid.IntRange(0, i).Draw(t, "perm")
			c.Order[i], c.Order[j] = c.Order[j], c.Order[i]
		}
	}
	c.Extra = rapid.SampledFrom([]int{0, 0, 1, 2, 3}).Draw(t, "extra")
	return c
}

func depthOf(ts map[string]OType, name string, seen map[string]bool) int {
	if seen[name] {
		return 0
	}
	seen[name] = true
	defer delete(seen, name)
	d := 0
	for _, p := range ts[name].AllOf {
		if x := 1 + depthOf(ts, p, seen); x > d {
			d = x
		}
	}
	return d
}

func judged(c Case) *ev.Verdict {
	if len(c.Types) > 0 {
		ts := map[string]OType{}
		for _, t := range c.Types {
			ts[t.Name] = t
		}
		m := &merger{ts: ts, memo: map[string][]keyInfo{}, codes: map[int]bool{}}
		m.merge("@main", map[string]bool{})
		d := depthOf(ts, "@main", map[string]bool{})
		switch {
		case len(m.codes) > 0:
			var ds []string
			for k := range m.codes {
				ds = append(ds, fmt.Sprint(k))
			}
			sort.Strings(ds)
			ev.Class("inheritance", "defect "+strings.Join(ds, "+"))
		default:
			ev.Class("inheritance", fmt.Sprintf("sound, depth %d", d))
		}
		if d >= 2 || len(m.codes) > 0 {
			p, _ := c.project()
			ev.NonTrivial("inheritance", p.Text(nil).String())
			if ev.WantSample("inheritance") {
				ev.Sample("inheritance", p.Text(nil))
			}
		}
	}
	return oracle(c)
}

func registerAll() {
	ev.Register("inheritance", judged)
	ev.Register("small-scope", oracle)
}

func TestPropInheritance(t *testing.T) {
	registerAll()
	ev.Rapid(t, "inheritance", ev.N(8000, 25000), genCase, judged)
}

// exhaustive small scope: @main, @t0, @t1; every key subset of {a, b}, every allOf choice
// (none / one name / two names) and additionalProperties in {absent, true, false}
func TestPropSmallScope(t *testing.T) {
	registerAll()
	ev.KeepFirst("small-scope")
	names := []string{"@main", "@t0", "@t1"}
	keySets := [][]string{nil, {"a"}, {"b"}, {"a", "b"}}
	allOfs := [][]string{nil}
	for _, n := range names {
		allOfs = append(allOfs, []string{n})
	}
	allOfs = append(allOfs, []string{"@t0", "@t1"}, []string{"@t1", "@t0"}, []string{"@main", "@t0"})
	aps := []string{""}
	if ev.Thorough() {
		aps = []string{"", "true", "false"}
	}
	type shape struct {
		keys  []string
		allOf []string
		ap    string
	}
	var shapes []shape
	for _, k := range keySets {
		for _, a := range allOfs {
			for _, ap := range aps {
				shapes = append(shapes, shape{k, a, ap})
			}
		}
	}
	var n, nt, bad int64
	idx := 0
	for _, s0 := range shapes {
		for _, s1 := range shapes {
			for _, s2 := range shapes {
				idx++
				if !ev.Mine(idx) {
					continue
				}
				c := Case{}
				for i, sh := range []shape{s0, s1, s2} {
					c.Types = append(c.Types, OType{Name: names[i], Keys: sh.keys, Opt: make([]bool, len(sh.keys)), Vals: make([]string, len(sh.keys)), AllOf: sh.allOf, AP: sh.ap})
				}
				n++
				if len(s0.allOf)+len(s1.allOf)+len(s2.allOf) >= 2 {
					nt++
					if nt%20000 == 1 {
						p, _ := c.project()
						ev.Sample("small-scope", p.Text(nil))
					}
				}
				if v := oracle(c); v != nil && ev.Report("small-scope", c, v) {
					bad++
				}
			}
		}
	}
	ev.Count("small-scope", n)
	ev.NonTrivialEnum("small-scope", nt)
	ev.Exhaustive("small-scope", fmt.Sprintf("all projects of three object types with keys in {a,b}, %d allOf choices and %d additionalProperties values each (%d shapes per type)", len(allOfs), len(aps), len(shapes)))
	if bad > 0 {
		t.Errorf("VIOLATION-CANDIDATE small-scope: %d", bad)
	}
}

func TestPropRegressions(t *testing.T) {
	registerAll()
	ev.ReplayDir(t, ev.Root()+"/regress/C07")
}

func TestReplay(t *testing.T) {
	registerAll()
	ev.Replay(t)
}
