package c03

import (
	"encoding/json"
	"testing"

	"verif/internal/ev"
)

// FuzzPlainJSON: every input that encoding/json accepts (and that has no exponent number / duplicate
// key - the oracle excludes those) goes through the whole C03 oracle, together with a re-indented
// layout of itself.
func FuzzPlainJSON(f *testing.F) {
	for _, s := range []string{`{}`, `[]`, `{"a\"b": 1, "c\\d": [true, null, "e\nf"]}`, `"😀"`, `-0`, `0.0010`, `1234567890123456789012345`, `{"": {"": [[], {}]}}`,
		"\t{ \"k\" :\r\n [ 1 ,\n 2 ] }\r", `"@a"`, `"# c"`, `"// x"`, `{"@k": "/* */"}`, `"\u0000\u001f\u007f"`, `"\/"`, `[0.1e0]`, `{"a":1,"a":2}`, `"é"`, `" "`, `[[[[[[[[1]]]]]]]]`} {
		f.Add([]byte(s))
	}
	f.Fuzz(func(t *testing.T, data []byte) {
		if len(data) > 1024 || !json.Valid(data) {
			return
		}
		c := Case{Layouts: []string{string(data)}}
		var v any
		if json.Unmarshal(data, &v) == nil {
			// a second layout of the same tokens: only whitespace between tokens differs
			if ind := reindent(string(data)); ind != "" {
				c.Layouts = append(c.Layouts, ind)
			}
		}
		ev.Fuzz(t, "plain-json", oracle(c))
	})
}

// reindent inserts a line break and blanks after every structural comma / bracket outside strings.
func reindent(s string) string {
	out := make([]byte, 0, len(s)*2)
	in, esc := false, false
	for i := 0; i < len(s); i++ {
		c := s[i]
		out = append(out, c)
		if in {
			if esc {
				esc = false
			} else if c == '\\' {
				esc = true
			} else if c == '"' {
				in = false
			}
			continue
		}
		switch c {
		case '"':
			in = true
		case ',', '{', '[', ':':
			out = append(out, "\r\n\t "...)
		}
	}
	return string(out)
}
