// C03 - plain JSON is a valid schema and is preserved by Example() and the AST.
package c03

import (
	"encoding/json"
	"fmt"
	"strings"
	"testing"

	schema "github.com/jsightapi/jsight-schema-core"
	"github.com/jsightapi/jsight-schema-core/notations/jschema"
	"pgregory.net/rapid"

	"verif/internal/ev"
	"verif/internal/gen"
	"verif/internal/ref/dec"
	"verif/internal/ref/jsonv"
	"verif/internal/sut"
)

func TestMain(m *testing.M) { ev.Main(m, "C03") }

// Case: several layouts (whitespace / escape spellings) of one JSON value.
type Case struct {
	Layouts []string `json:"layouts"`
	// Prelude: a disturbing call sequence on other objects (sut.Disturb) run before the case - the answer
	// for a plain JSON text must not depend on what the process handled before
	Prelude int `json:"prelude,omitempty"`
}

func hasExpOrDup(v *jsonv.Value) bool {
	if v.Kind == jsonv.Number && strings.ContainsAny(v.Num, "eE") {
		return true
	}
	seen := map[string]bool{}
	for i, k := range v.Keys {
		if seen[k] {
			return true
		}
		seen[k] = true
		if hasExpOrDup(v.Vals[i]) {
			return true
		}
	}
	for _, it := range v.Items {
		if hasExpOrDup(it) {
			return true
		}
	}
	return false
}

// denote: same ordered tree; numbers must denote the same value
func sameValue(a, b *jsonv.Value, path string) string {
	if a.Kind != b.Kind {
		return fmt.Sprintf("%s: kind %s vs %s", path, a.Kind, b.Kind)
	}
	switch a.Kind {
	case jsonv.Number:
		x, y := dec.Parse(a.Num), dec.Parse(b.Num)
		if x == nil || y == nil || x.Cmp(y) != 0 {
			return fmt.Sprintf("%s: number %s vs %s", path, a.Num, b.Num)
		}
	case jsonv.String:
		if a.Str != b.Str {
			return fmt.Sprintf("%s: string %q vs %q", path, a.Str, b.Str)
		}
	case jsonv.Bool:
		if a.Bool != b.Bool {
			return fmt.Sprintf("%s: %v vs %v", path, a.Bool, b.Bool)
		}
	case jsonv.Array:
		if len(a.Items) != len(b.Items) {
			return fmt.Sprintf("%s: %d vs %d items", path, len(a.Items), len(b.Items))
		}
		for i := range a.Items {
			if d := sameValue(a.Items[i], b.Items[i], fmt.Sprintf("%s[%d]", path, i)); d != "" {
				return d
			}
		}
	case jsonv.Object:
		if len(a.Keys) != len(b.Keys) {
			return fmt.Sprintf("%s: %d vs %d members", path, len(a.Keys), len(b.Keys))
		}
		for i := range a.Keys {
			if a.Keys[i] != b.Keys[i] {
				return fmt.Sprintf("%s: key %d is %q vs %q", path, i, a.Keys[i], b.Keys[i])
			}
			if d := sameValue(a.Vals[i], b.Vals[i], path+"."+a.Keys[i]); d != "" {
				return d
			}
		}
	}
	return ""
}

func sameSpelling(a, b *jsonv.Value) string {
	if a.Kind == jsonv.Number && a.Num != b.Num {
		return fmt.Sprintf("number spelled %s instead of %s", b.Num, a.Num)
	}
	for i := range a.Items {
		if d := sameSpelling(a.Items[i], b.Items[i]); d != "" {
			return d
		}
	}
	for i := range a.Vals {
		if d := sameSpelling(a.Vals[i], b.Vals[i]); d != "" {
			return d
		}
	}
	return ""
}

func astDiff(v *jsonv.Value, n schema.ASTNode, path string) (string, string) {
	want := map[jsonv.Kind]string{jsonv.Object: "object", jsonv.Array: "array", jsonv.String: "string", jsonv.Number: "number", jsonv.Bool: "boolean", jsonv.Null: "null"}[v.Kind]
	if n.TokenType != want {
		return "token-type", fmt.Sprintf("%s: TokenType %q want %q", path, n.TokenType, want)
	}
	var val string
	switch v.Kind {
	case jsonv.String:
		val = v.Str
	case jsonv.Number:
		val = v.Num
	case jsonv.Bool:
		val = fmt.Sprint(v.Bool)
	case jsonv.Null:
		val = "null"
	}
	if n.Value != val {
		return "value", fmt.Sprintf("%s: Value %q want %q", path, n.Value, val)
	}
	if n.Comment != "" || n.IsKeyShortcut || n.InheritedFrom != "" {
		return "extras", fmt.Sprintf("%s: comment %q keyShortcut %v inheritedFrom %q", path, n.Comment, n.IsKeyShortcut, n.InheritedFrom)
	}
	if n.Rules != nil && n.Rules.Len() != 0 {
		b, _ := n.Rules.MarshalJSON()
		return "rules", fmt.Sprintf("%s: plain JSON node carries rules %s", path, b)
	}
	kids := v.Items
	if v.Kind == jsonv.Object {
		kids = v.Vals
	}
	if len(n.Children) != len(kids) {
		return "arity", fmt.Sprintf("%s: %d children want %d", path, len(n.Children), len(kids))
	}
	for i := range kids {
		p := fmt.Sprintf("%s[%d]", path, i)
		if v.Kind == jsonv.Object {
			if n.Children[i].Key != v.Keys[i] {
				return "key", fmt.Sprintf("%s: child %d key %q want %q", path, i, n.Children[i].Key, v.Keys[i])
			}
			p = path + "." + v.Keys[i]
		} else if n.Children[i].Key != "" {
			return "key", fmt.Sprintf("%s: array item %d has key %q", path, i, n.Children[i].Key)
		}
		if c, d := astDiff(kids[i], n.Children[i], p); d != "" {
			return c, d
		}
	}
	return "", ""
}

func oracle(c Case) *ev.Verdict {
	if len(c.Layouts) == 0 {
		return nil
	}
	if c.Prelude != 0 {
		sut.Pristine()
		sut.Disturb(c.Prelude)
		ev.Class("json", "after a disturbing prelude")
	}
	ref, err := jsonv.Parse([]byte(c.Layouts[0]))
	if err != nil {
		return ev.V("harness:not-json", "generated text is not JSON: %q", c.Layouts[0])
	}
	if hasExpOrDup(ref) {
		ev.Excluded("json", "exponent number or duplicate key")
		return nil
	}
	var firstEx, firstAST string
	for li, text := range c.Layouts {
		r2, err := jsonv.Parse([]byte(text))
		if err != nil || r2.Canon() != ref.Canon() {
			return ev.V("harness:layouts-differ", "layout %d does not denote the same value: %q", li, text)
		}
		var cerr *sut.ErrInfo
		var ex []byte
		var exErr error
		var ast schema.ASTNode
		var astErr error
		s := jschema.New("@main", text)
		if esc := sut.Trap("schema", func() {
			cerr = sut.Describe(s.Check())
			ex, exErr = s.Example()
			ast, astErr = s.GetAST()
		}); esc != nil {
			return ev.V("panic:"+esc.Frame, "plain JSON schema %q: %s panicked: %s", text, esc.Op, esc.Value)
		}
		if cerr != nil {
			return ev.V(fmt.Sprintf("rejected:code-%d", cerr.Code), "plain JSON %q is rejected: %s", text, cerr)
		}
		if exErr != nil || astErr != nil {
			return ev.V("example-or-ast-error", "plain JSON %q: Example() error %v, GetAST() error %v", text, exErr, astErr)
		}
		got, err := jsonv.Parse(ex)
		if err != nil {
			return ev.V("example:not-json", "Example() of %q is %q which is not JSON", text, ex)
		}
		if d := sameValue(ref, got, "$"); d != "" {
			cl := "value"
			if strings.Contains(d, "key") {
				cl = "key"
			}
			return ev.V("example:"+cl, "Example() of %q is %q: %s", text, ex, d)
		}
		if d := sameSpelling(ref, got); d != "" {
			return ev.V("example:number-spelling", "Example() of %q is %q: %s", text, ex, d)
		}
		if cl, d := astDiff(ref, ast, "$"); d != "" {
			return ev.V("ast:"+cl, "GetAST() of %q: %s", text, d)
		}
		aj, _ := json.Marshal(ast)
		if li == 0 {
			firstEx, firstAST = string(ex), string(aj)
		} else if string(ex) != firstEx && compact(text) == compact(c.Layouts[0]) {
			// (layouts that also differ in escape spellings only have to denote the same value)
			return ev.V("layout:example", "two layouts of one value give different examples: %q -> %q, %q -> %q", c.Layouts[0], firstEx, text, ex)
		} else if string(aj) != firstAST {
			return ev.V("layout:ast", "two layouts of one value give different ASTs: %q vs %q", c.Layouts[0], text)
		}
	}
	return nil
}

// compact removes the whitespace between tokens (not inside strings)
func compact(s string) string {
	var b strings.Builder
	in := false
	for i := 0; i < len(s); i++ {
		c := s[i]
		if in {
			b.WriteByte(c)
			if c == '\\' && i+1 < len(s) {
				i++
				b.WriteByte(s[i])
			} else if c == '"' {
				in = false
			}
			continue
		}
		if c == ' ' || c == '\t' || c == '\n' || c == '\r' {
			continue
		}
		if c == '"' {
			in = true
		}
		b.WriteByte(c)
	}
	return b.String()
}

// rewhitespace inserts random whitespace around the structural characters of a compact JSON text
func rewhitespace(t *rapid.T, s string) string {
	ws := rapid.SampledFrom([]string{"", "", " ", "\n", "\t", "\r\n", "\r", " \n  "})
	var b strings.Builder
	b.WriteString(ws.Draw(t, "ws"))
	in := false
	for i := 0; i < len(s); i++ {
		c := s[i]
		if in {
			b.WriteByte(c)
			if c == '\\' && i+1 < len(s) {
				i++
				b.WriteByte(s[i])
			} else if c == '"' {
				in = false
			}
			continue
		}
		if c == '"' {
			in = true
		}
		if strings.IndexByte("{}[],:", c) >= 0 {
			b.WriteString(ws.Draw(t, "ws"))
			b.WriteByte(c)
			b.WriteString(ws.Draw(t, "ws"))
		} else {
			b.WriteByte(c)
		}
	}
	b.WriteString(ws.Draw(t, "ws"))
	return b.String()
}

func nontrivial(v *jsonv.Value) bool {
	if gen.Depth(v) >= 2 {
		return true
	}
	var walk func(v *jsonv.Value) bool
	esc := func(s string) bool {
		for _, r := range s {
			if r == '"' || r == '\\' || r < 0x20 || r > 0x7e {
				return true
			}
		}
		return false
	}
	walk = func(v *jsonv.Value) bool {
		if v.Kind == jsonv.String && esc(v.Str) {
			return true
		}
		for i, k := range v.Keys {
			if esc(k) || walk(v.Vals[i]) {
				return true
			}
		}
		for _, it := range v.Items {
			if walk(it) {
				return true
			}
		}
		return false
	}
	return walk(v)
}

func judged(c Case) *ev.Verdict {
	if len(c.Layouts) > 0 {
		if ref, err := jsonv.Parse([]byte(c.Layouts[0])); err == nil && !hasExpOrDup(ref) && nontrivial(ref) {
			ev.NonTrivial("json", ref.Canon())
			if ev.WantSample("json") {
				ev.Sample("json", c)
			}
		}
	}
	return oracle(c)
}

func registerAll() {
	ev.Register("json", judged)
	ev.Register("keys", oracle)
	ev.Register("deep", oracle)
	ev.Register("surrogates", oracle)
	ev.Register("json-after-prelude", judged)
}

func TestPropJSON(t *testing.T) {
	registerAll()
	ev.Rapid(t, "json", ev.N(10000, 30000), func(t *rapid.T) Case {
		v := gen.JSONValue(t, gen.JSONOpts{Depth: 4})
		n := rapid.IntRange(1, 3).Draw(t, "layouts")
		var c Case
		for i := 0; i < n; i++ {
			if i > 0 && rapid.Bool().Draw(t, "whitespace-only") {
				c.Layouts = append(c.Layouts, rewhitespace(t, compact(c.Layouts[0])))
			} else {
				c.Layouts = append(c.Layouts, gen.EncodeJSONDoc(t, v))
			}
		}
		return c
	}, judged)
}

// the same after a disturbing prelude (every case starts from emptied pools, see sut.Pristine)
func TestPropJSONAfterPrelude(t *testing.T) {
	registerAll()
	ev.Rapid(t, "json-after-prelude", ev.N(300, 3000), func(t *rapid.T) Case {
		v := gen.JSONValue(t, gen.JSONOpts{Depth: 3})
		return Case{Layouts: []string{gen.EncodeJSONDoc(t, v)}, Prelude: rapid.IntRange(1, sut.DisturbMax).Draw(t, "prelude")}
	}, judged)
	sut.Pristine()
}

// deeply nested plain JSON (up to the nesting limit of 10000 levels that the library states in its
// diagnostic 307): accepted and preserved like any other
func TestPropDeep(t *testing.T) {
	registerAll()
	ev.KeepFirst("deep")
	idx := 0
	var n, bad int64
	for _, d := range []int{50, 500, 2500, 5001, 5002, 6000, 9000, 10000} {
		for fi, f := range [][3]string{{"[", "]", "1"}, {`{"k":`, "}", `"v"`}, {`[{"a\"b":`, "}]", "null"}, {"[ 0, ", " ]", "7"}} {
			idx++
			if !ev.Mine(idx) || (d > 5002 && fi == 2 && d*2 > 10000) {
				continue
			}
			depth := d
			if fi == 2 {
				depth = d / 2 // two levels per repetition
			}
			c := Case{Layouts: []string{strings.Repeat(f[0], depth) + f[2] + strings.Repeat(f[1], depth)}}
			n++
			ev.NonTrivial("deep", fmt.Sprintf("%d/%d", d, fi))
			if v := oracle(c); v != nil && ev.Report("deep", c, v) {
				bad++
			}
		}
	}
	ev.Count("deep", n)
	ev.Sample("deep", Case{Layouts: []string{"[[[[[[1]]]]]]"}})
	ev.Exhaustive("deep", "arrays, objects and mixtures nested 50 ... 10000 levels")
	if bad > 0 {
		t.Errorf("VIOLATION-CANDIDATE deep: %d", bad)
	}
}

// exhaustive: every key / string of <= 2 symbols over an escape alphabet, as object key and as value
func TestPropKeys(t *testing.T) {
	registerAll()
	alpha := []string{"a", `\"`, `\\`, `\/`, `\n`, `A`, `é`, "é", `😀`, " ", "@", "#", "/", `\t`, "{", ":"}
	ev.KeepFirst("keys")
	var n, nt, bad int64
	gen.Shortlex(alpha, ev.N(2, 3), ev.Mine, func(b []byte, toks []int) {
		k := `"` + string(b) + `"`
		for _, text := range []string{`{` + k + `: 1}`, `[` + k + `]`, k, `{"x": {` + k + `: ` + k + `}}`} {
			c := Case{Layouts: []string{text}}
			n++
			if len(toks) > 0 {
				nt++
			}
			if v := oracle(c); v != nil && ev.Report("keys", c, v) {
				bad++
			} else if len(toks) == 2 && n%97 == 0 {
				ev.Sample("keys", c)
			}
		}
	})
	ev.Count("keys", n)
	ev.NonTrivialEnum("keys", nt)
	ev.Exhaustive("keys", fmt.Sprintf("every string of <= %d symbols over %q as object key, array item, root value and nested key+value", ev.N(2, 3), alpha))
	if bad > 0 {
		t.Errorf("VIOLATION-CANDIDATE keys: %d", bad)
	}
}

// every pairing of the border halves of escaped surrogate pairs, in both letter cases, against the same
// character written raw
func TestPropSurrogates(t *testing.T) {
	registerAll()
	ev.KeepFirst("surrogates")
	var n, bad int64
	highs := []int{0xd800, 0xd801, 0xd83d, 0xd83c, 0xdbfe, 0xdbff}
	lows := []int{0xdc00, 0xdc01, 0xdd00, 0xde00, 0xdffe, 0xdfff}
	for _, h := range highs {
		for _, l := range lows {
			r := rune((h-0xd800)<<10 + (l - 0xdc00) + 0x10000)
			for _, f := range []string{"\\u%04x\\u%04x", "\\u%04X\\u%04X", "\\u%04x\\u%04X"} {
				esc := fmt.Sprintf(f, h, l)
				for _, tpl := range []string{`"%s"`, `{"%s": 1}`, `["a%sb"]`, `{"k": "%s%s"}`, `{"%s": "%s"}`} {
					raw := strings.ReplaceAll(tpl, "%s", string(r))
					c := Case{Layouts: []string{raw, strings.ReplaceAll(tpl, "%s", esc)}}
					n++
					if v := oracle(c); v != nil && ev.Report("surrogates", c, v) {
						bad++
					} else if n%61 == 0 {
						ev.Sample("surrogates", c)
					}
				}
			}
		}
	}
	ev.Count("surrogates", n)
	ev.NonTrivialEnum("surrogates", n)
	ev.Exhaustive("surrogates", fmt.Sprintf("%d high halves x %d low halves (first, second, last of each range and the usual emoji rows), three letter-case spellings, five places; each compared with the raw character", len(highs), len(lows)))
	if bad > 0 {
		t.Errorf("VIOLATION-CANDIDATE surrogates: %d", bad)
	}
}

func TestPropRegressions(t *testing.T) {
	registerAll()
	ev.ReplayDir(t, ev.Root()+"/regress/C03")
}

func TestReplay(t *testing.T) {
	registerAll()
	ev.Replay(t)
}
