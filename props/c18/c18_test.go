// C18 - regex schemas: accepted iff `/pattern/` compiles; the example matches it.
package c18

import (
	"encoding/json"
	"fmt"
	"regexp"
	"regexp/syntax"
	"strings"
	"testing"
	"time"
	"unicode/utf8"

	"github.com/jsightapi/jsight-schema-core/notations/jschema"
	"github.com/jsightapi/jsight-schema-core/notations/regex"
	"github.com/jsightapi/jsight-schema-core/openapi"
	"pgregory.net/rapid"

	"verif/internal/ev"
	"verif/internal/gen"
	"verif/internal/ref/jsonv"
	"verif/internal/sut"
)

func TestMain(m *testing.M) { ev.Main(m, "C18") }

type Case struct {
	Text   string   `json:"text"`
	Probes []string `json:"probes,omitempty"` // strings tested against the schema used as a type
}

// refDelim: text[0]=='/', the first later '/' preceded by an even number of backslashes closes
func refDelim(s string) (pat string, closed bool) {
	if len(s) == 0 || s[0] != '/' {
		return "", false
	}
	for i := 1; i < len(s); i++ {
		if s[i] == '/' {
			bs := 0
			for j := i - 1; j >= 1 && s[j] == '\\'; j-- {
				bs++
			}
			if bs%2 == 0 {
				return s[1:i], true
			}
		}
	}
	return "", false
}

var anchors = regexp.MustCompile(`\^|\$|\\b|\\B|\\A|\\z`)

func printableASCII(s string) bool {
	for i := 0; i < len(s); i++ {
		if s[i] < 0x20 || s[i] > 0x7e {
			return false
		}
	}
	return true
}

func oracle(c Case) *ev.Verdict {
	s := c.Text
	pat, closed := refDelim(s)
	var re *regexp.Regexp
	want := false
	if closed {
		if r, err := regexp.Compile(pat); err == nil {
			re, want = r, true
		}
	}
	var cerr *sut.ErrInfo
	var gotPat string
	var gotLen uint
	var ex1, ex2 []byte
	var exErr, ex2Err, heldErr error
	var heldNow, heldNext []byte
	var astVal string
	var oas, oas2, oas3 []byte
	var oasErr, oas2Err, oas3Err error
	r := regex.New("regex", s)
	if esc := sut.Trap("RSchema.Check", func() { cerr = sut.Describe(r.Check()) }); esc != nil {
		return ev.V("panic:Check:"+esc.Frame, "Check() of regex schema %q panicked: %s", s, esc.Value)
	}
	if (cerr == nil) != want {
		if cerr == nil {
			return ev.V("verdict:accepts", "regex schema %q is accepted; delimited=%v pattern %q compiles=%v", s, closed, pat, re != nil)
		}
		cl := "pattern"
		if pat == "" {
			cl = "empty-pattern"
		}
		return ev.V("verdict:rejects:"+cl, "regex schema %q is rejected (%s) although /%s/ is delimited and compiles", s, cerr, pat)
	}
	if !want {
		if cerr.GoType != "kit.JSchemaError" || cerr.Runtime {
			return ev.V("rejection:not-a-diagnostic", "regex schema %q rejected with %s %q", s, cerr.GoType, cerr.Message)
		}
		if cerr.RenderPanic != "" {
			return ev.V("rejection:render-panic", "rendering the error for %q panicked: %s", s, cerr.RenderPanic)
		}
		if len(s) > 0 && (!cerr.HasPos || int(cerr.Index) >= len(s)) {
			return ev.V("rejection:position", "regex schema %q rejected with index %d hasPosition=%v (%q)", s, cerr.Index, cerr.HasPos, cerr.Rendered)
		}
		// a refused schema stays refused whatever it is asked afterwards
		var patErr, lenErr, exErr2, astErr, againErr, addErr error
		if esc := sut.Trap("RSchema (refused, asked again)", func() {
			_, patErr = r.Pattern()
			_, lenErr = r.Len()
			_, exErr2 = r.Example()
			_, astErr = r.GetAST()
			againErr = r.Check()
			addErr = jschema.New("@main", `"x" // {type: "@r"}`).AddType("@r", r)
		}); esc != nil {
			return ev.V("panic:refused:"+esc.Frame, "operations on the refused regex schema %q panicked: %s", s, esc.Value)
		}
		if patErr == nil || lenErr == nil || exErr2 == nil || astErr == nil || againErr == nil || addErr == nil {
			return ev.V("rejection:accepted-later", "regex schema %q is refused by Check() (%s) but afterwards Pattern() err=%v, Len() err=%v, Example() err=%v, GetAST() err=%v, Check() again=%v, AddType err=%v", s, cerr, patErr, lenErr, exErr2, astErr, againErr, addErr)
		}
		return nil
	}
	if esc := sut.Trap("RSchema", func() {
		gotPat, _ = r.Pattern()
		gotLen, _ = r.Len()
		// (the caller owns what Example returns: it is overwritten before the next call)
		var raw []byte
		raw, exErr = r.Example()
		ex1 = append([]byte{}, raw...)
		// the first result is held while the object is asked again: it must stay what it was
		var rawNext []byte
		rawNext, heldErr = r.Example()
		heldNext = append([]byte{}, rawNext...)
		heldNow = append([]byte{}, raw...)
		for i := range raw {
			raw[i] = '\x00'
		}
		for i := range rawNext {
			rawNext[i] = '\x00'
		}
		ex2, ex2Err = r.Example()
		a, _ := r.GetAST()
		astVal = a.Value
		so := openapi.NewSchemaObject(r)
		oas, oasErr = so.MarshalJSON()
		// the same Schema Object written out again (with a description set in between, as an API document
		// writer does) says the same
		so.SetDescription("d")
		oas2, oas2Err = so.MarshalJSON()
		oas3, oas3Err = openapi.NewSchemaObject(r).MarshalJSON()
	}); esc != nil {
		return ev.V("panic:"+esc.Frame, "operations on accepted regex schema %q panicked: %s", s, esc.Value)
	}
	if gotPat != pat || int(gotLen) != len(pat)+2 || astVal != "/"+pat+"/" {
		return ev.V("pattern-len-ast", "regex schema %q: Pattern()=%q Len()=%d AST value %q, expected pattern %q", s, gotPat, gotLen, astVal, pat)
	}
	if oasErr != nil {
		return ev.V("openapi:error", "OpenAPI conversion of %q fails: %v", s, oasErr)
	}
	if oas2Err != nil || oas3Err != nil || string(oas3) != string(oas) {
		return ev.V("openapi:second-conversion", "OpenAPI of %q: %s; a second Schema Object of the same schema: %s, %v (the first written again: %v)", s, oas, oas3, oas3Err, oas2Err)
	}
	if utf8.ValidString(pat) {
		j1, e1 := jsonv.Parse(oas)
		j2, e2 := jsonv.Parse(oas2)
		if e1 == nil && (e2 != nil || j2.Get("pattern") == nil || j1.Get("pattern") == nil || j2.Get("pattern").Str != j1.Get("pattern").Str) {
			return ev.V("openapi:written-again", "the Schema Object of %q written out a second time: %s, the first time: %s", s, oas2, oas)
		}
	}
	if utf8.ValidString(pat) {
		j, err := jsonv.Parse(oas)
		if err != nil || j.Kind != jsonv.Object || j.Get("type") == nil || j.Get("type").Str != "string" || j.Get("pattern") == nil || j.Get("pattern").Str != pat {
			return ev.V("openapi:pattern", "OpenAPI of %q is %s, want type string and pattern %q", s, oas, pat)
		}
	}
	if hasEmptyClass(pat) {
		// a character class without members: the pattern (or a branch of it) matches nothing, an example may
		// not exist; Example() has to return (the panic case is judged above), what it returns is not asserted
		ev.Excluded("all", "example-match skipped: a character class without members (possibly unsatisfiable)")
		return nil
	}
	if exErr == nil && heldErr == nil && string(heldNow) != string(ex1) {
		return ev.V("example:held-result-changed", "regex schema %q: Example() returned %q; after the next Example() call (%q) the held result reads %q", s, ex1, heldNext, heldNow)
	}
	if exErr == nil && heldErr == nil && re != nil && !anchors.MatchString(pat) && !hasEmptyClass(pat) && !re.Match(heldNext) {
		return ev.V("example:no-match", "second Example() of %q is %q which /%s/ does not match", s, heldNext, pat)
	}
	if exErr == nil && heldErr != nil {
		exErr = heldErr
	}
	if exErr == nil && ex2Err != nil {
		exErr = ex2Err // (the generator is a random stream: a later call may be the one that reaches the class)
	}
	if exErr != nil {
		if hasHighClassWithoutASCII(pat) {
			return ev.V("example:error:class-up-to-U+10FFFF-without-printable-ASCII", "Example() of accepted %q fails: %v", s, exErr)
		}
		return ev.V("example:error", "Example() of accepted %q fails: %v", s, exErr)
	}
	anchored := anchors.MatchString(pat)
	if anchored {
		// (the example is not judged; the schema used as a type is - below - against the reference matcher)
		ev.Excluded("all", "example-match skipped: anchors or word boundaries (possibly unsatisfiable)")
	} else if !re.Match(ex1) || !re.Match(ex2) {
		// (a second call may legitimately return another example: the generator is a random stream)
		return ev.V("example:no-match", "Example() of %q is %q (second call %q) which /%s/ does not match", s, ex1, ex2, pat)
	}
	// used as a user type
	if !utf8.ValidString(pat) || !utf8.Valid(ex1) {
		ev.Excluded("all", "type use skipped: pattern or example not UTF-8 (no JSON spelling)")
		return nil
	}
	probes := append([]string{string(ex1)}, c.Probes...)
	// strings around the example: the example inside a longer string, twice, with a blank behind it, cut short
	// (what an anchored pattern refuses and a substring search accepts)
	if e := string(ex1); len(e) > 0 && len(e) < 200 {
		probes = append(probes, "x"+e+"x", e+e, e+" ", " "+e, e[:len(e)-1])
	}
	long := len(ex1) > 2000 // (a pattern of a thousand repetitions is compiled at every registration: fewer of them)
	if long && len(probes) > 3 {
		probes = append(probes[:1], probes[len(probes)-2:]...)
	}
	for i, p := range probes {
		if !utf8.ValidString(p) {
			continue
		}
		lit, _ := json.Marshal(p)
		root := jschema.New("@main", string(lit)+` // {type: "@r"}`)
		var addErr, chkErr *sut.ErrInfo
		typ := regex.New("@r", s)
		if i == 0 {
			typ = r // the object that has answered all the questions above
		}
		if esc := sut.Trap("type-use", func() {
			addErr = sut.Describe(root.AddType("@r", typ))
			chkErr = sut.Describe(root.Check())
		}); esc != nil {
			return ev.V("panic:type-use:"+esc.Frame, "using %q as a type panicked: %s", s, esc.Value)
		}
		if addErr != nil && addErr.Code == 1801 && hasHighClassWithoutASCII(pat) {
			// registering the type draws one more example
			return ev.V("example:error:class-up-to-U+10FFFF-without-printable-ASCII", "AddType of accepted regex schema %q fails: %s", s, addErr)
		}
		if anchored && addErr != nil && addErr.Code == 1801 && strings.Contains(addErr.Message, "does not match") {
			// (a type whose generated example does not match its own expression is refused when
			// it is registered - with anchors or word boundaries inside the expression that is the generator's limit)
			ev.Excluded("all", "type use skipped: the type's own generated example does not match its anchored pattern")
			return nil
		}
		if addErr != nil {
			return ev.V("type-use:addtype", "AddType of accepted regex schema %q fails: %s", s, addErr)
		}
		if anchored && chkErr != nil && chkErr.UserType == "@r" {
			// the refusal is about the type's own text: the example drawn for a pattern with anchors or word
			// boundaries need not match it (see above), and then nothing can be said about the referring schema
			ev.Excluded("all", "type use skipped: the type's own generated example does not match its anchored pattern")
			return nil
		}
		if (chkErr == nil) != re.MatchString(p) {
			return ev.V("type-use:verdict", "schema %s // {type: \"@r\"} with @r = %s: Check()=%v, pattern matches=%v", lit, s, chkErr, re.MatchString(p))
		}
		// the same question with the type reached in other ways: through another type only (the root text
		// never names @r), as an alternative of an or rule, as the item of an array of a referenced type
		for k, u := range typeUses(string(lit)) {
			if (k+i+len(s))%2 == 1 && i > 0 || long || (k >= 4 && i > 1 && i < len(probes)-2) {
				continue // (every way is taken by about half of the probes; the union ways by the first and last two)
			}
			root := jschema.New("@main", u.root)
			var errs []*sut.ErrInfo
			var example []byte
			var exErr error
			if esc := sut.Trap("type-use", func() {
				add := func(name string) {
					if name == "@r" {
						errs = append(errs, sut.Describe(root.AddType("@r", regex.New("@r", s))))
					} else if u.mid != "" {
						errs = append(errs, sut.Describe(root.AddType("@mid", jschema.New("@mid", u.mid))))
						if strings.Contains(u.mid, "@zz9") {
							errs = append(errs, sut.Describe(root.AddType("@zz9", regex.New("@zz9", "/^zz9$/"))))
						}
					}
				}
				if (i+k)%2 == 0 {
					add("@r")
					add("@mid")
				} else {
					add("@mid")
					add("@r")
				}
				chkErr = sut.Describe(root.Check())
				if chkErr == nil {
					example, exErr = root.Example()
				}
			}); esc != nil {
				return ev.V("panic:type-use:"+u.name+":"+esc.Frame, "using %q as a type (%s) panicked: %s\nroot: %s\n@mid: %s", s, u.name, esc.Value, u.root, u.mid)
			}
			for _, e := range errs {
				if e != nil && e.Code == 1801 && hasHighClassWithoutASCII(pat) {
					return ev.V("example:error:class-up-to-U+10FFFF-without-printable-ASCII", "AddType of accepted regex schema %q fails: %s", s, e)
				}
				if anchored && e != nil && e.Code == 1801 && strings.Contains(e.Message, "does not match") {
					ev.Excluded("all", "type use skipped: the type's own generated example does not match its anchored pattern")
					return nil
				}
				if e != nil {
					return ev.V("type-use:addtype:"+u.name, "AddType fails for the project root %s, @mid = %s, @r = %s: %s", u.root, u.mid, s, e)
				}
			}
			if anchored && chkErr != nil && chkErr.UserType == "@r" {
				ev.Excluded("all", "type use skipped: the type's own generated example does not match its anchored pattern")
				return nil
			}
			if want := re.MatchString(p) || (strings.Contains(u.mid, "@zz9") && p == "zz9"); (chkErr == nil) != want {
				return ev.V("type-use:verdict:"+u.name, "root %s, @mid = %s, @r = %s: Check()=%v, pattern matches=%v", u.root, u.mid, s, chkErr, re.MatchString(p))
			}
			if chkErr == nil && (exErr != nil || !json.Valid(example)) {
				if exErr != nil && strings.Contains(exErr.Error(), "1801") && hasHighClassWithoutASCII(pat) {
					return ev.V("example:error:class-up-to-U+10FFFF-without-printable-ASCII", "Example() of a schema using the accepted regex schema %q fails: %v", s, exErr)
				}
				return ev.V("type-use:example:"+u.name, "root %s, @mid = %s, @r = %s is accepted but Example() = %q, %v", u.root, u.mid, s, example, exErr)
			}
		}
	}
	return nil
}

type typeUse struct{ name, root, mid string }

// typeUses: projects in which the string literal lit is described by the regex type @r
func typeUses(lit string) []typeUse {
	return []typeUse{
		{"through-type", "{\n  \"c\": @mid\n}", lit + ` // {type: "@r"}`},
		{"through-type-item", "[\n  @mid\n]", "{\n  \"k\": [\n    " + lit + " // {type: \"@r\"}\n  ]\n}"},
		{"or-alternative", lit + ` // {or: ["integer", "@r"]}`, ""},
		{"through-type-or", "{\n  \"c\": @mid // {optional: true}\n}", lit + ` // {or: ["@r", "boolean"]}`},
		// a union type (another regex type first) behind ONE type rule: the string has to match some member
		{"through-union", lit + ` // {type: "@mid"}`, "@zz9 | @r"},
		{"through-union-property", "{\n  \"u\": " + lit + " // {type: \"@mid\"}\n}", "@r | @zz9"},
	}
}

// hasEmptyClass: does the parsed pattern contain a character class without members (regexp/syntax
// represents `[^\x00-\x{10FFFF}]`, `[^\s\S]` ... as OpNoMatch or as a class with an empty range list)
func hasEmptyClass(pat string) bool {
	re, err := syntax.Parse(pat, syntax.Perl)
	if err != nil {
		return false
	}
	var walk func(r *syntax.Regexp) bool
	walk = func(r *syntax.Regexp) bool {
		if r.Op == syntax.OpNoMatch || (r.Op == syntax.OpCharClass && len(r.Rune) == 0) {
			return true
		}
		for _, s := range r.Sub {
			if walk(s) {
				return true
			}
		}
		return false
	}
	return walk(re) || walk(re.Simplify())
}

// hasHighClassWithoutASCII: a character class that reaches U+10FFFF (typically a negated one) and holds none
// of the ASCII letters, digits, punctuation marks, blank, TAB, LF, CR: `[^\x00-\x7F]`, `[^ -~\s]`, `[\x{10000}-\x{10FFFF}]`
func hasHighClassWithoutASCII(pat string) bool {
	re, err := syntax.Parse(pat, syntax.Perl)
	if err != nil {
		return false
	}
	var walk func(r *syntax.Regexp) bool
	walk = func(r *syntax.Regexp) bool {
		if r.Op == syntax.OpCharClass && len(r.Rune) >= 2 && r.Rune[len(r.Rune)-1] == 0x10FFFF {
			ascii := false
			for i := 0; i+1 < len(r.Rune); i += 2 {
				for c := rune(0x20); c <= 0x7e; c++ {
					if c >= r.Rune[i] && c <= r.Rune[i+1] {
						ascii = true
					}
				}
				for _, c := range []rune{'\t', '\n', '\r'} {
					if c >= r.Rune[i] && c <= r.Rune[i+1] {
						ascii = true
					}
				}
			}
			if !ascii {
				return true
			}
		}
		for _, s := range r.Sub {
			if walk(s) {
				return true
			}
		}
		return false
	}
	return walk(re) || walk(re.Simplify())
}

var alphabet = []string{"/", "\\", "a", "b", "[", "]", "(", ")", "*", "+", "?", ".", "^", "|", "{", "}", "1", ",", "\n"}

func nontrivial(s string) bool {
	pat, closed := refDelim(s)
	return closed && strings.ContainsAny(pat, `\[]*+?{}`)
}

func TestPropEnumerate(t *testing.T) {
	registerAll()
	ev.KeepFirst("strings")
	maxLen := ev.N(4, 6)
	var n, nt, bad int64
	gen.Shortlex(alphabet, maxLen, ev.Mine, func(b []byte, _ []int) {
		s := string(b)
		n++
		c := Case{Text: s, Probes: []string{"a", "ab", "1", ""}}
		if nontrivial(s) {
			nt++
			if len(s) == maxLen && n%5 == 0 && ev.WantSample("strings") {
				ev.Sample("strings", c)
			}
		}
		if v := watched(oracle)(c); v != nil && ev.Report("strings", c, v) {
			bad++
		}
	})
	ev.Count("strings", n)
	ev.NonTrivialEnum("strings", nt)
	ev.Exhaustive("strings", fmt.Sprintf("every string of length <= %d over %q", maxLen, alphabet))
	if bad > 0 {
		t.Errorf("VIOLATION-CANDIDATE strings: %d", bad)
	}
}

// ---- grammar-generated patterns

func genAtom(t *rapid.T, depth int) string {
	switch rapid.IntRange(0, 9).Draw(t, "atom") {
	case 0, 1, 2:
		return rapid.SampledFrom([]string{"a", "b", "Z", "0", "7", " ", "-", "_", "é", "x", "@", "#", ":", "\n", "\r", "\t", "\r\n", "a\nb"}).Draw(t, "lit")
	case 3:
		return rapid.SampledFrom([]string{`\/`, `\\`, `\.`, `\d`, `\w`, `\s`, `\[`, `\(`, `\*`, `\+`, `\?`, `\|`, `\{`, `\x41`, `\t`, `\-`}).Draw(t, "esc")
	case 4:
		items := rapid.SliceOfN(rapid.SampledFrom([]string{"a", "a-c", "0-9", "A-Z", `\/`, `\\`, `\]`, "_", " ", `\d`, "é", `\x01`, "\n", "\t"}), 1, 3).Draw(t, "cls")
		neg := ""
		if rapid.IntRange(0, 4).Draw(t, "neg") == 0 {
			neg = "^"
		}
		if rapid.IntRange(0, 11).Draw(t, "emptycls") == 0 {
			// classes that contain no character at all: the pattern compiles and matches nothing there
			return rapid.SampledFrom([]string{`[^\x00-\x{10FFFF}]`, `[^\s\S]`, `[^\d\D]`, `[^\w\W]`, `[^\x00-\x7F]`, `[^\x00-\x{FFFF}]`, `[\x{10000}-\x{10FFFF}]`, `[^ -~\s]`}).Draw(t, "empty-class")
		}
		return "[" + neg + strings.Join(items, "") + "]"
	case 5:
		return "."
	case 6, 7:
		if depth > 0 {
			alts := rapid.SliceOfN(rapid.Custom(func(t *rapid.T) string { return genSeq(t, depth-1) }), 1, 3).Draw(t, "alts")
			g := rapid.SampledFrom([]string{"(", "(?:"}).Draw(t, "grp")
			return g + strings.Join(alts, "|") + ")"
		}
		return "c"
	case 8:
		return rapid.SampledFrom([]string{"^", "$", `\b`}).Draw(t, "anchor")
	default:
		return rapid.SampledFrom([]string{"q", "1", "/"}).Draw(t, "raw") // a raw '/' ends the pattern early
	}
}

func genSeq(t *rapid.T, depth int) string {
	n := rapid.IntRange(0, 4).Draw(t, "n")
	var b strings.Builder
	for i := 0; i < n; i++ {
		b.WriteString(genAtom(t, depth))
		switch rapid.IntRange(0, 7).Draw(t, "rep") {
		case 0:
			b.WriteString("*")
		case 1:
			b.WriteString("+")
		case 2:
			b.WriteString("?")
		case 3:
			b.WriteString(rapid.SampledFrom([]string{"{2}", "{1,3}", "{0,2}", "{2,}"}).Draw(t, "bound"))
		}
	}
	return b.String()
}

// watched runs the oracle under a watchdog: a call that does not come back (a lock left held after a
// failed example, say) is a verdict, not a stalled run
func watched(f func(Case) *ev.Verdict) func(Case) *ev.Verdict {
	return func(c Case) *ev.Verdict {
		done := make(chan *ev.Verdict, 1)
		go func() { done <- f(c) }()
		select {
		case v := <-done:
			return v
		case <-time.After(20 * time.Second):
			// (a busy machine is not a verdict: two more minutes before the case counts as stuck)
			select {
			case v := <-done:
				return v
			case <-time.After(120 * time.Second):
				return ev.V("no-answer-in-140s", "an operation on the regex schema %q did not return within 140 s", c.Text)
			}
		}
	}
}

func judged(c Case) *ev.Verdict {
	if nontrivial(c.Text) {
		ev.NonTrivial("patterns", c.Text)
		if ev.WantSample("patterns") {
			ev.Sample("patterns", c)
		}
	}
	return oracle(c)
}

func registerAll() {
	ev.Register("strings", watched(oracle))
	ev.Register("patterns", watched(judged))
	ev.Register("long-examples", watched(oracle))
}

func TestPropPatterns(t *testing.T) {
	registerAll()
	ev.Rapid(t, "patterns", ev.N(10000, 30000), func(t *rapid.T) Case {
		p := genSeq(t, 2)
		if rapid.IntRange(0, 7).Draw(t, "literal") == 0 {
			// a plain text between anchors (what regexp reports as a complete literal prefix)
			lit := rapid.StringMatching(`[a-c0-2 _-]{1,5}`).Draw(t, "lit")
			p = rapid.SampledFrom([]string{"^%s$", "^%s", "%s$", `\A%s\z`, "^%s\\.%s$", "%s"}).Draw(t, "anchors")
			p = strings.ReplaceAll(p, "%s", lit)
		}
		s := "/" + p + "/"
		switch rapid.IntRange(0, 5).Draw(t, "wrap") {
		case 0:
			s += rapid.SampledFrom([]string{" trailing", "/", "i", "\n", "//"}).Draw(t, "tail")
		case 1:
			s = "/" + p // unterminated
		case 2:
			s = gen.Mutate(t, s, alphabet)
		}
		probes := rapid.SliceOfN(rapid.SampledFrom([]string{"", "a", "b", "ab", "aZ0", "/", `\`, "a/b", "x@#", "7-7", " "}), 0, 3).Draw(t, "probes")
		return Case{Text: s, Probes: probes}
	}, watched(judged))
}

// patterns whose shortest match is thousands of bytes long (mandatory repetition; Go allows counts up to 1000):
// the whole oracle - the example has to match, the schema used as a type judges strings around the example
func TestPropLongExamples(t *testing.T) {
	registerAll()
	ev.KeepFirst("long-examples")
	var n, bad int64
	for i, p := range []string{"^(?:abcde){100}$", "^(?:abcde){819}$", "^(?:abcde){820}$", "(?:abcde){1000}", "^(?:[0-9a-f]{4}:){1000}$", `^(?:\x{20AC}\x{20AC}){700}$`, "(?:ab){1000}(?:cd){1000}(?:ef){1000}"} {
		if !ev.Mine(i) {
			continue
		}
		c := Case{Text: "/" + p + "/", Probes: []string{"abcde"}}
		n++
		ev.NonTrivial("long-examples", p)
		if v := watched(oracle)(c); v != nil && ev.Report("long-examples", c, v) {
			bad++
		}
	}
	ev.Count("long-examples", n)
	ev.Sample("long-examples", Case{Text: "/^(?:abcde){820}$/"})
	ev.Exhaustive("long-examples", "7 patterns with shortest matches of 500 ... 6000 bytes")
	if bad > 0 {
		t.Errorf("VIOLATION-CANDIDATE long-examples: %d", bad)
	}
}

func TestPropRegressions(t *testing.T) {
	registerAll()
	ev.ReplayDir(t, ev.Root()+"/regress/C18")
}

func TestReplay(t *testing.T) {
	registerAll()
	ev.Replay(t)
}
