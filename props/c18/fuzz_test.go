package c18

import (
	"bytes"
	"testing"

	"verif/internal/ev"
)

// FuzzRegexSchema: the whole C18 oracle on raw bytes; text after a NUL byte is a probe string tested
// against the schema used as a type.
func FuzzRegexSchema(f *testing.F) {
	for _, s := range []string{`/a/`, `//`, `/`, ``, `/\//`, `/\\/x`, `/[a-z]{2,3}/`, `/(a|b)*c/ tail`, `/\x01/`, `/\x{e0001}/`, `/a\/`, `/[/]/`, `/(/`, `/a{2,1}/`,
		"/ab/\x00ab", "/^a$/\x00b", `/\pL+/`, `/(?i)x/`, `/\Qa/b\E/`, `/.{0,1000}/`, "/é/", "x/a/", `/[^\x00-\x{10FFFF}]/`, `/a[^\s\S]/`} {
		f.Add([]byte(s))
	}
	f.Fuzz(func(t *testing.T, data []byte) {
		if len(data) > 300 {
			return
		}
		c := Case{}
		if i := bytes.IndexByte(data, 0); i >= 0 {
			c.Text = string(data[:i])
			c.Probes = []string{string(data[i+1:])}
		} else {
			c.Text = string(data)
		}
		ev.Fuzz(t, "regex", oracle(c))
	})
}
