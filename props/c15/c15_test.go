// C15 - Len() finds the end of the schema inside a larger text.
package c15

import (
	"fmt"
	"strings"
	"testing"

	"pgregory.net/rapid"

	"verif/internal/corpus"
	"verif/internal/ev"
	"verif/internal/gen"
	"verif/internal/model"
	"verif/internal/norm"
	"verif/internal/sut"
)

func TestMain(m *testing.M) { ev.Main(m, "C15") }

type Case struct {
	Project sut.Project `json:"project"` // Root is the schema text S
	NL      string      `json:"nl"`      // line break(s) between S and the trailer
	Trailer string      `json:"trailer"`
	// Prelude: a disturbing call sequence on other objects (sut.Disturb: failing Len() calls in the middle
	// of a literal, failing loads ...) run before the case
	Prelude int `json:"prelude,omitempty"`
	// Whole: S is a complete schema and nothing else (printed from a model whose rules hold, or a hand-written
	// text of that kind): if it is refused nevertheless, a shorter prefix must not be accepted in its place
	Whole bool `json:"whole,omitempty"`
}

func lenOf(p sut.Project) (n uint, e *sut.ErrInfo, esc *sut.Escape) {
	b := sut.Build(p)
	esc = sut.Trap("Len", func() {
		l, err := b.S.Len()
		n, e = l, sut.Describe(err)
	})
	return
}

func rootKind(s string) string {
	t := strings.TrimLeft(s, " \t\r\n")
	if t == "" {
		return "empty"
	}
	switch t[0] {
	case '{':
		return "object"
	case '[':
		return "array"
	case '"':
		return "string"
	case '@':
		if strings.Contains(strings.SplitN(t, "\n", 2)[0], "|") {
			return "choice"
		}
		return "reference"
	case 't', 'f':
		return "boolean"
	case 'n':
		return "null"
	}
	return "number"
}

func endsIn(s string) string {
	t := strings.TrimRight(s, " \t\r\n")
	last := t
	if i := strings.LastIndexAny(t, "\r\n"); i >= 0 {
		last = t[i+1:]
	}
	switch {
	case strings.HasSuffix(t, "*/"):
		return "multi-line-annotation"
	case strings.Contains(last, "//"):
		return "inline-annotation"
	case strings.Contains(last, "#"):
		return "user-comment"
	case strings.Contains(last, "@") && !strings.ContainsAny(last, "\":{}[]"):
		return "reference"
	}
	return "value"
}

func byteClass(c byte) string {
	switch {
	case c >= '0' && c <= '9':
		return "digit"
	case c >= 'a' && c <= 'z' || c >= 'A' && c <= 'Z':
		return "letter"
	case c < 0x20:
		return "control"
	case c >= 0x80:
		return "high"
	}
	return string(c)
}

func oracle(c Case) *ev.Verdict {
	S := c.Project.Root
	if c.Prelude != 0 {
		sut.Pristine()
		sut.Disturb(c.Prelude)
		ev.Class("len", "after a disturbing prelude")
	}
	o := sut.Observe(c.Project)
	if len(o.Escapes) > 0 {
		e := o.Escapes[0]
		return ev.V("panic:"+e.Op+":"+e.Frame, "%s panicked on %q: %s", e.Op, S, e.Value)
	}
	if c.Whole && o.Check != nil && len(o.AddErr) == 0 && o.LenErr == nil && int(o.Len) < len(strings.TrimRight(S, " \t\r\n")) {
		// S is refused and Len() ends the schema before the end of S: "the prefix is accepted or rejected exactly like S"
		pp := c.Project
		pp.Root = S[:o.Len]
		if po := sut.Observe(pp); po.Check == nil && len(po.Escapes) == 0 && po.AST != "" {
			return ev.V("prefix:accepted-while-whole-refused:"+rootKind(S), "S = %q is a complete schema and is refused (%s); Len(S) = %d and that prefix %q is accepted", S, o.Check, o.Len, S[:o.Len])
		}
	}
	if o.Check != nil || len(o.AddErr) > 0 || o.AST == "" || strings.Contains(o.AST, `"TokenType":""`) {
		ev.Excluded("len", "schema not accepted or without a root value")
		return nil
	}
	if o.LenErr != nil {
		return ev.V("len:error", "Len() of the accepted schema %q fails: %s", S, o.LenErr)
	}
	L := int(o.Len)
	cl := rootKind(S) + ":" + endsIn(S)
	// (1)
	if L > len(S) {
		return ev.V("len:beyond-text:"+cl, "Len(%q) = %d > %d", S, L, len(S))
	}
	// (2) the prefix means the same
	pp := c.Project
	pp.Root = S[:L]
	po := sut.Observe(pp)
	if sut.CodeOf(po.Check) != 0 {
		return ev.V("prefix:verdict:"+cl, "S = %q is accepted, its prefix S[:Len] = %q is rejected: %s", S, S[:L], po.Check)
	}
	if norm.AST(po.AST) != norm.AST(o.AST) {
		return ev.V("prefix:ast:"+cl, "S = %q and its prefix %q have different ASTs:\n%s\n%s", S, S[:L], o.AST, po.AST)
	}
	// (3) idempotence
	if int(po.Len) != L || po.LenErr != nil {
		return ev.V("prefix:idempotence:"+cl, "Len(%q) = %d but Len of that prefix %q = %d,%v", S, L, S[:L], po.Len, po.LenErr)
	}
	// (5) stable across calls and after Check()
	b := sut.Build(c.Project)
	var l1, l2 uint
	sut.Trap("Len", func() { b.S.Check(); l1, _ = b.S.Len(); l2, _ = b.S.Len() })
	if int(l1) != L || int(l2) != L {
		return ev.V("len:unstable:"+cl, "Len(%q) = %d, after Check() %d, again %d", S, L, l1, l2)
	}
	// (4) what follows on a new line never moves the boundary
	if c.Trailer != "" {
		first := c.Trailer[0]
		if first == '/' || first == '#' || first == ' ' || first == '\t' || first == '\r' || first == '\n' {
			return nil
		}
		if strings.TrimLeft(S[L:], " \t\r\n") != "" {
			// "S is complete": when the text goes on beyond its own boundary on the same line (the scanner
			// tolerates an unfinished `/` or `@` at the very end of the input: `0/`), what follows S is not
			// "other text on a new line" but the continuation of that line
			ev.Excluded("len", "trailer clause: S has non-blank text beyond its own boundary (unfinished comment opener at end of input)")
			return nil
		}
		tp := c.Project
		tp.Root = S + c.NL + c.Trailer
		n, e, esc := lenOf(tp)
		if esc != nil {
			return ev.V("panic:Len:"+esc.Frame, "Len panicked on %q: %s", tp.Root, esc.Value)
		}
		if e != nil {
			return ev.V("trailer:error:"+endsIn(S), "Len(S + newline + T) fails (%s) for S = %q, T = %q", e, S, c.Trailer)
		}
		if int(n) != L {
			return ev.V("trailer:moves-boundary:"+endsIn(S), "Len(S) = %d but Len(S + %q + T) = %d for S = %q, T = %q", L, c.NL, n, S, c.Trailer)
		}
	}
	return nil
}

var trailerRest = []string{"", "x", " y", "{}", "\n", "\n  Body\n    {}", ": 1", "\"q\"", "// c", " # c", "}]", "|", "@t", "\x00\x01", "é", "GET /cats\n  200 @cat"}

func trailers(t *rapid.T) (string, string) {
	nl := rapid.SampledFrom([]string{"\n", "\r\n", "\r", "\n\n", "\n \n", "\r\n\r\n", "\n\t\n\n"}).Draw(t, "nl")
	first := byte(rapid.IntRange(1, 255).Draw(t, "first"))
	if rapid.IntRange(0, 2).Draw(t, "structural") == 0 {
		first = rapid.SampledFrom([]byte("{}[],:\"@|-0tnfGUP*")).Draw(t, "firststruct")
	}
	return nl, string([]byte{first}) + rapid.SampledFrom(trailerRest).Draw(t, "rest")
}

func genCase(t *rapid.T) Case {
	p := gen.Project(t, gen.ProjectOpts{Satisfied: true, KeyType: true, MaxTypes: 2})
	// every root kind: force references, choices and annotated scalars to the root now and then
	switch rapid.IntRange(0, 7).Draw(t, "rootkind") {
	case 0:
		if len(p.Types) > 0 {
			p.Root = model.Ref(p.Types[0].Name)
		}
	case 1:
		if len(p.Types) > 1 {
			p.Root = model.Choice(p.Types[0].Name, p.Types[1].Name)
		}
	case 2:
		p.Root = gen.Scalar(t, gen.ScalarOpts{Satisfied: true, Types: nil}, "rootscalar")
	}
	if rapid.IntRange(0, 2).Draw(t, "note") == 0 {
		p.Root.Note = rapid.SampledFrom([]string{"a note", "x - y", "123"}).Draw(t, "notev")
	}
	lay := gen.Layout(t, gen.LayoutOpts{Esc: 2})
	lay.Trail = rapid.SampledFrom([]int{0, 0, 0, 1}).Draw(t, "trail")
	sp := p.Text(lay)
	nl, tr := trailers(t)
	return Case{Project: sp, NL: nl, Trailer: tr, Whole: true}
}

func nontrivial(c Case) bool {
	e := endsIn(c.Project.Root)
	if e != "value" {
		return true
	}
	return c.Trailer != "" && strings.IndexByte("{}[],:\"@|", c.Trailer[0]) >= 0
}

func judged(c Case) *ev.Verdict {
	if nontrivial(c) {
		ev.NonTrivial("len", c.Project.Root+"\x00"+c.NL+c.Trailer)
		if ev.WantSample("len") {
			ev.Sample("len", c)
		}
	}
	if c.Trailer != "" {
		ev.Class("len", rootKind(c.Project.Root)+" / trailer first byte "+byteClass(c.Trailer[0]))
	}
	return oracle(c)
}

func registerAll() {
	ev.Register("len", judged)
	ev.Register("corpus", oracle)
	ev.Register("first-bytes", oracle)
	ev.Register("after-failure", oracle)
	ev.Register("len-after-prelude", judged)
}

// after-failure table: every kind of call that fails half-way (sut.Disturb preludes 1, 2 and 11 with each
// unfinished text as the last one) followed by every small schema of a pool - the boundary of a schema
// must not depend on what was scanned before it
func TestPropAfterFailure(t *testing.T) {
	registerAll()
	ev.KeepFirst("after-failure")
	pool := []string{"42", "0", "-3", "1.5", `"s"`, "true", "null", "{}", "[]", "@a", "@a | @b", "[1, 2]", `{"k": 7}`, "{\n  \"k\": 7\n}", "42 // {min: 1}", `"s" // note`,
		"@a // note", "7 /* {min: 0} */", "12 # c", "[\n  42\n]", "{\n  @a: 42\n}", "100", `""`, "false", "9 ", "42\n"}
	idx := 0
	var n, bad int64
	for _, pre := range []int{1, 2, 11} {
		for last := 0; last < sut.Unfinished(); last++ {
			for _, S := range pool {
				for _, tr := range []string{"", "GET /cats"} {
					idx++
					if !ev.Mine(idx) {
						continue
					}
					c := Case{Project: sut.Project{Root: S, Types: []sut.Named{{Name: "@a", Text: `"kk"`}, {Name: "@b", Text: `{"n": 1}`}}}, NL: "\n", Trailer: tr,
						Prelude: pre + sut.Disturbances*last}
					n++
					ev.NonTrivial("after-failure", fmt.Sprintf("%d/%d/%s/%s", pre, last, S, tr))
					if v := oracle(c); v != nil && ev.Report("after-failure", c, v) {
						bad++
					}
				}
			}
		}
	}
	sut.Pristine()
	ev.Count("after-failure", n)
	ev.Sample("after-failure", Case{Project: sut.Project{Root: "42"}, NL: "\n", Trailer: "GET /cats", Prelude: 1})
	ev.Exhaustive("after-failure", fmt.Sprintf("3 preludes x %d last failing texts x %d schemas x 2 trailers", sut.Unfinished(), len(pool)))
	if bad > 0 {
		t.Errorf("VIOLATION-CANDIDATE after-failure: %d", bad)
	}
}

func TestPropGenerated(t *testing.T) {
	registerAll()
	ev.Rapid(t, "len", ev.N(4000, 20000), genCase, judged)
}

// the generated cases after a disturbing prelude (every case starts from emptied pools)
func TestPropGeneratedAfterPrelude(t *testing.T) {
	registerAll()
	ev.Rapid(t, "len-after-prelude", ev.N(250, 2500), func(t *rapid.T) Case {
		c := genCase(t)
		c.Prelude = rapid.SampledFrom([]int{1, 11, 2, 6, 10, 3, 5}).Draw(t, "prelude") + sut.Disturbances*rapid.IntRange(0, sut.Unfinished()-1).Draw(t, "last")
		return c
	}, judged)
	sut.Pristine()
}

// the accepted part of the repository's own test corpus x a fixed trailer set x three newline conventions
func TestPropCorpus(t *testing.T) {
	registerAll()
	ev.KeepFirst("corpus")
	var n, nt, bad int64
	trs := []string{"x", "{}", "GET /cats", "\"s\"", "@t | @u", "}", "123", "|", ",", "é"}
	idx := 0
	for _, s := range corpus.Literals() {
		if !corpus.LooksLikeSchema(s) {
			continue
		}
		idx++
		if !ev.Mine(idx) {
			continue
		}
		for i, tr := range trs {
			if ev.Quick() && i%3 != idx%3 {
				continue
			}
			for _, nl := range []string{"\n", "\r\n", "\r"} {
				if strings.ContainsAny(s, "\r") && nl != "\r\n" {
					continue
				}
				c := Case{Project: sut.Project{Root: s}, NL: nl, Trailer: tr}
				n++
				if nontrivial(c) {
					nt++
					if nt%400 == 1 {
						ev.Sample("corpus", c)
					}
				}
				if v := oracle(c); v != nil && ev.Report("corpus", c, v) {
					bad++
				}
			}
		}
	}
	ev.Count("corpus", n)
	ev.NonTrivialEnum("corpus", nt)
	if bad > 0 {
		t.Errorf("VIOLATION-CANDIDATE corpus: %d", bad)
	}
}

// every first byte of the trailer (all 255 values except '/', '#' and blanks) on a fixed set of roots
func TestPropFirstBytes(t *testing.T) {
	registerAll()
	ev.KeepFirst("first-bytes")
	types := []sut.Named{{Name: "@a", Text: "1"}, {Name: "@b", Text: `"x"`}}
	rules := []sut.Named{{Name: "@colors", Text: "[\"red\", \"green\"]"}}
	roots := []string{"1", "-1.5", `"s"`, "true", "null", "{}", "[]", "{\n  \"a\": 1\n}", "[\n  1,\n  2\n]", "@a", "@a | @b", "1 // {min: 1}", "1 // note", "1 /* {min: 1} */", "{} // {additionalProperties: true}",
		"{\n  \"a\": 1 // {min: 1} - n\n}", "[\n  1 /* {min: 1}\n */\n]", "1 # c", "{} # c", "1 // n # c", "@a // note", "@a | @b // note", "{\n  @b: 1\n}",
		// user comments inside and after annotations, glued roots (whatever of these the library accepts is judged)
		"12 // {min: 1 ### c ### }", "12 // {min: 1} ### c ###", "12 /* {min: 1 ### c ### } */", "12 /* {min: 1 # c\n} */", "\"s\" // {minLength: 1 ### c ###, maxLength: 2}", "12// {min: 1}",
		"12/* {min: 1} */", "12# c", "\"s\"// n", "true# c", "null/* n */", "{}// n", "[]# c", "@a// n", "@a# c", "@a|@b// n", "{ // {additionalProperties: true ### c ###}\n}",
		"[ // {minItems: 0 ### c ###}\n]", "{\n  \"a\": 1 // {min: 1 ### c ### }\n}", "1 // n ### c ###", "1 ### c ### // n", "1 ### a ### ### b ###",
		// a rules annotation that ends in a bare dash, comments made of hashes only
		"1 // {min: 0} -", "1 // {min: 0} - ", "[] // {minItems: 0} -\t", "{} // {} -", "1 /* {min: 0} - */", "{}\n#####", "1 #####", "{} ######", "1\n#####\n", "[]\n###\n###", "1 # #", "1 #\t",
		// annotations without any text, named enum rules in a root annotation (with and without a note, glued and spaced)
		"{\n  \"id\": 1\n} //", "42 // \t", "42 //", "@a | @b //", "[] //  ", "42 /**/", "42 /* */",
		"\"red\" // {enum: @colors}", "\"red\" // {enum: @colors} - the colour", "\"red\" // {enum: @colors }", "\"red\" // { enum: @colors} ", "\"red\" /* {enum: @colors} - the colour */",
		"{\n  \"c\": \"red\" // {enum: @colors} - the colour\n}", "\"red\" // {minLength: 1, enum: @colors} - n"}
	var n, nt, bad int64
	idx := 0
	for _, r := range roots {
		for b := 1; b < 256; b++ {
			idx++
			if !ev.Mine(idx) {
				continue
			}
			for _, nl := range []string{"\n", "\r\n", "\r"} {
				if ev.Quick() && nl != "\n" && b%7 != 0 {
					continue
				}
				for _, rest := range []string{"", "x", "\n{}"} {
					if ev.Quick() && rest == "x" {
						continue
					}
					c := Case{Project: sut.Project{Root: r, Types: types, Rules: rules}, NL: nl, Trailer: string([]byte{byte(b)}) + rest, Whole: strings.Contains(r, "@colors")}
					n++
					nt++
					if v := oracle(c); v != nil && ev.Report("first-bytes", c, v) {
						bad++
					}
				}
			}
		}
	}
	ev.Count("first-bytes", n)
	ev.NonTrivialEnum("first-bytes", nt)
	ev.Exhaustive("first-bytes", fmt.Sprintf("%d root texts x every first trailer byte 1..255 (except '/', '#', blanks) x LF/CRLF/CR x 3 rests", len(roots)))
	if bad > 0 {
		t.Errorf("VIOLATION-CANDIDATE first-bytes: %d", bad)
	}
}

func TestPropRegressions(t *testing.T) {
	registerAll()
	ev.ReplayDir(t, ev.Root()+"/regress/C15")
}

func TestReplay(t *testing.T) {
	registerAll()
	ev.Replay(t)
}
