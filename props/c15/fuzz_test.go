package c15

import (
	"bytes"
	"testing"

	"verif/internal/corpus"
	"verif/internal/ev"
	"verif/internal/sut"
)

// FuzzLen: the whole C15 oracle on raw bytes: the schema text S runs to the first NUL byte, the trailer
// follows it; the first byte picks the line break between them. Types @a, @b and rule @e are registered
// so that reference roots are accepted.
func FuzzLen(f *testing.F) {
	nls := []string{"\n", "\r\n", "\r", "\n\n", "\n \n"}
	seeds := []string{`1`, `{}`, `[]`, `"s" // {minLength: 1}`, "{\n  \"a\": 1 // {min: 0} - note\n}", `@a`, `@a | @b`, `1 /* {min: 0} */`, "1 # c", "{} ### b ###", `1 // n # c`,
		"[\n  1, // {min: 0}\n  2\n]\n\n", "true\t ", `null // {type: "null"}`, "@a // note", "@a |\n @b", `"x" // {enum: @e}`, "{\n  @a: 1\n}", `-0.5`, "1 //", "{} //x", "1 ###\nx\n###"}
	for i, s := range corpus.Literals() {
		if i%50 == 0 && len(s) < 200 {
			seeds = append(seeds, s)
		}
	}
	for _, s := range seeds {
		for _, tr := range []string{"", "x", "{}", "|", "@t", ": 1", "}]", "GET /cats"} {
			f.Add(append(append(append([]byte{0}, s...), 0), tr...))
		}
	}
	f.Fuzz(func(t *testing.T, data []byte) {
		if len(data) < 1 || len(data) > 1024 {
			return
		}
		c := Case{NL: nls[int(data[0])%len(nls)]}
		rest := data[1:]
		S := rest
		if i := bytes.IndexByte(rest, 0); i >= 0 {
			S = rest[:i]
			c.Trailer = string(rest[i+1:])
		}
		c.Project = sut.Project{Root: string(S), Types: []sut.Named{{Name: "@a", Text: `"kk"`}, {Name: "@b", Text: `{"n": 1}`}},
			Rules: []sut.Named{{Name: "@e", Text: `["x", "y"]`}}}
		if c.Trailer != "" {
			// "S is complete": arbitrary bytes may end inside an open construct that the scanner tolerates at
			// the end of the input (an unterminated `###` block comment: `{}###0`); text on a new line is
			// then swallowed by it. Such S are outside the trailer clause: it is asserted only when a
			// following line is seen as following text, i.e. when Check() refuses S + newline + "x".
			probe := c.Project
			probe.Root = c.Project.Root + "\nx"
			if o := sut.Observe(probe); len(o.Escapes) == 0 && o.Check == nil {
				c.Trailer = ""
			}
		}
		ev.Fuzz(t, "len", oracle(c))
	})
}
