// C17 - enum rule files mean the same as the inline enum they stand for.
package c17

import (
	"encoding/json"
	"fmt"
	"regexp"
	"strings"
	"testing"

	"github.com/jsightapi/jsight-schema-core/notations/jschema"
	"github.com/jsightapi/jsight-schema-core/rules/enum"
	"pgregory.net/rapid"

	"verif/internal/ev"
	"verif/internal/gen"
	"verif/internal/ref/dec"
	"verif/internal/ref/enumrule"
	"verif/internal/sut"
)

func TestMain(m *testing.M) { ev.Main(m, "C17") }

type Case struct {
	Text     string   `json:"text"`
	Examples []string `json:"examples,omitempty"` // example literals tested against the rule
	Template int      `json:"template,omitempty"` // index into templates: where and beside what the enum rule is used
}

// templates: V = the example literal, E = `@e` or the inline list. The rules that may stand beside
// `enum` (nullable, optional, const, type "enum") before and after it, two uses in one schema,
// nested positions, the rule-set form inside `or`.
var templates = []string{
	`V // {enum: E}`,
	`V // {enum: E, nullable: true}`,
	`V // {nullable: false, enum: E}`,
	`V // {type: "enum", enum: E}`,
	`V // {enum: E, type: "enum"}`,
	`V // {enum: E, const: false}`,
	"{\n  \"k\": V // {enum: E, optional: true}\n}",
	"{\n  \"k\": V // {optional: false, enum: E, nullable: true}\n}",
	"[\n  V, // {enum: E}\n  V // {enum: E}\n]",
	"{\n  \"a\": V, // {enum: E}\n  \"b\": [\n    V // {enum: E, nullable: true}\n  ]\n}",
	`V // {or: [{type: "enum", enum: E}, {type: "boolean"}]}`,
	`V /* {enum: E} */`,
}

func fill(tpl, v, e string) string {
	// one pass: the example and the list may themselves contain the letters V and E
	return strings.NewReplacer("V", v, "E", e).Replace(tpl)
}

func exampleItem(lit string) (enumrule.Item, bool) {
	// (a scalar literal and nothing else: `0]/*` would close the list by itself)
	if !json.Valid([]byte(lit)) || strings.ContainsAny(lit[:1], "[{") {
		return enumrule.Item{}, false
	}
	r := enumrule.Parse("[" + lit + "]")
	if !r.Valid || len(r.Items) != 1 {
		return enumrule.Item{}, false
	}
	return r.Items[0], true
}

func oracle(c Case) *ev.Verdict {
	ref := enumrule.Parse(c.Text)
	if ref.Unsettled != "" {
		ev.Excluded("all", "unsettled: "+ref.Unsettled)
		return nil
	}
	var cerr *sut.ErrInfo
	var vals []enum.Value
	var length uint
	var lenErr error
	var astKids int
	e := enum.New("@e", c.Text)
	if esc := sut.Trap("Enum.Check", func() { cerr = sut.Describe(e.Check()) }); esc != nil {
		return ev.V("panic:Check:"+esc.Frame, "Check() of enum rule %q panicked: %s", c.Text, esc.Value)
	}
	if (cerr == nil) != ref.Valid {
		if cerr == nil {
			return ev.V("verdict:accepts:"+ref.Why, "enum rule %q is accepted although it is not a list of distinct scalars (%s)", c.Text, ref.Why)
		}
		return ev.V(fmt.Sprintf("verdict:rejects:code-%d", cerr.Code), "enum rule %q is rejected (%s) although it is a bracketed list of distinct scalars", c.Text, cerr)
	}
	if !ref.Valid {
		// a refused rule stays refused: asked again, asked for its values, registered in a schema
		var again, valErr, astErr, addErr *sut.ErrInfo
		var vals []enum.Value
		if esc := sut.Trap("Enum (refused rule, asked again)", func() {
			again = sut.Describe(e.Check())
			var err error
			vals, err = e.Values()
			valErr = sut.Describe(err)
			_, err = e.GetAST()
			astErr = sut.Describe(err)
			addErr = sut.Describe(jschema.New("root", "1 // {enum: @e}").AddRule("@e", e))
		}); esc != nil {
			return ev.V("panic:refused-rule:"+esc.Frame, "operations on the refused enum rule %q panicked: %s", c.Text, esc.Value)
		}
		if again == nil || valErr == nil || astErr == nil || addErr == nil {
			return ev.V("refused-rule:accepted-later", "enum rule %q: Check() = %s; asked again: Check() = %v, Values() = %d values, %v, GetAST() error %v, AddRule error %v", c.Text, cerr, again, len(vals), valErr, astErr, addErr)
		}
		return nil
	}
	if esc := sut.Trap("Enum", func() {
		vals, _ = e.Values()
		length, lenErr = e.Len()
		a, _ := e.GetAST()
		astKids = len(a.Children)
	}); esc != nil {
		return ev.V("panic:"+esc.Frame, "operations on accepted enum rule %q panicked: %s", c.Text, esc.Value)
	}
	var got []string
	for _, v := range vals {
		if string(v.Type) == "comment" {
			if !v.Value.IsNil() && v.Value.Len() != 0 {
				return ev.V("values:comment-with-value", "comment entry carries value %q in %q", v.Value.String(), c.Text)
			}
			continue
		}
		got = append(got, v.Value.String()+":"+string(v.Type))
	}
	var want []string
	for _, it := range ref.Items {
		want = append(want, it.Lit+":"+it.Kind)
	}
	if strings.Join(got, "|") != strings.Join(want, "|") {
		return ev.V("values:list", "Values() of %q = %v, the text lists %v", c.Text, got, want)
	}
	if astKids != len(vals) {
		return ev.V("ast:children", "GetAST() of %q has %d children, Values() %d entries", c.Text, astKids, len(vals))
	}
	trimmed := len(strings.TrimRight(c.Text, " \t\r\n"))
	if lenErr != nil || int(length) < ref.End || int(length) > trimmed || (ref.End == trimmed && int(length) != ref.End) {
		return ev.V("len", "Len() of %q = %d,%v; the list ends at %d, the text (without trailing blanks) at %d", c.Text, length, lenErr, ref.End, trimmed)
	}
	// a second, fresh object gives the same values (type guessing must not be random)
	for i := 0; i < 5; i++ {
		v2, _ := enum.New("@e", c.Text).Values()
		var g2 []string
		for _, v := range v2 {
			if string(v.Type) != "comment" {
				g2 = append(g2, v.Value.String()+":"+string(v.Type))
			}
		}
		if strings.Join(g2, "|") != strings.Join(got, "|") {
			return ev.V("values:unstable", "Values() of %q = %v and then %v", c.Text, got, g2)
		}
	}
	// named == inline
	inline := enumrule.Inline(ref.Items)
	for _, ex := range c.Examples {
		exi, ok := exampleItem(ex)
		if !ok || strings.TrimSpace(ex) != ex {
			continue // (a literal with blanks or line breaks around it would move the annotation to another line)
		}
		tpl := templates[c.Template%len(templates)]
		named := sut.Observe(sut.Project{Root: fill(tpl, ex, "@e"), Rules: []sut.Named{{Name: "@e", Text: c.Text}}})
		inl := sut.Observe(sut.Project{Root: fill(tpl, ex, inline)})
		if len(named.Escapes)+len(inl.Escapes) > 0 {
			es := append(named.Escapes, inl.Escapes...)
			return ev.V("panic:schema:"+es[0].Frame, "schema with enum %q and example %s panicked: %s", c.Text, ex, es[0].Value)
		}
		if len(named.RuleErr) > 0 {
			return ev.V("named:addrule", "AddRule of the accepted rule %q fails: %v", c.Text, named.RuleErr["@e"])
		}
		if sut.CodeOf(named.Check) != sut.CodeOf(inl.Check) {
			return ev.V("named-vs-inline:verdict", "example %s: `enum: @e` with @e = %q gives %v, the inline list %s gives %v", ex, c.Text, named.Check, inline, inl.Check)
		}
		if named.Check == nil {
			ev.Class("all", fmt.Sprintf("schema accepted in both forms under template %d", c.Template%len(templates)))
		}
		if named.Check == nil && named.Example != inl.Example {
			return ev.V("named-vs-inline:example", "example %s with rule %q: Example() %q vs inline %q", ex, c.Text, named.Example, inl.Example)
		}
		// the rule object that answered the questions above, used by two schemas one after the other
		for round := 0; round < 2; round++ {
			root := jschema.New("root", fill(tpl, ex, "@e"))
			var addErr, chkErr *sut.ErrInfo
			var example []byte
			if esc := sut.Trap("shared-rule", func() {
				addErr = sut.Describe(root.AddRule("@e", e))
				chkErr = sut.Describe(root.Check())
				if chkErr == nil {
					example, _ = root.Example()
				}
			}); esc != nil {
				return ev.V("panic:shared-rule:"+esc.Frame, "schema %d using the rule object of %q panicked: %s", round+1, c.Text, esc.Value)
			}
			if addErr != nil || sut.CodeOf(chkErr) != sut.CodeOf(inl.Check) || (chkErr == nil && string(example) != inl.Example) {
				return ev.V("shared-rule:differs", "schema %d that uses the same rule object (rule %q, example %s, template %d): AddRule %v, Check %v, Example %q; the inline list gives %v, %q", round+1, c.Text, ex, c.Template, addErr, chkErr, example, inl.Check, inl.Example)
			}
		}
		var after []string
		if esc := sut.Trap("Enum.Values", func() {
			v3, _ := e.Values()
			for _, v := range v3 {
				if string(v.Type) != "comment" {
					after = append(after, v.Value.String()+":"+string(v.Type))
				}
			}
			a3, _ := e.GetAST()
			if len(a3.Children) != astKids {
				after = append(after, fmt.Sprintf("AST children %d (was %d)", len(a3.Children), astKids))
			}
		}); esc != nil {
			return ev.V("panic:"+esc.Frame, "Values() of enum rule %q after use panicked: %s", c.Text, esc.Value)
		}
		if strings.Join(after, "|") != strings.Join(got, "|") {
			return ev.V("values:changed-by-use", "Values()/GetAST() of %q after schemas used the rule: %v, before: %v", c.Text, after, got)
		}
		if c.Template%len(templates) != 0 {
			continue
		}
		// membership
		member, ambiguous := false, false
		for _, it := range ref.Items {
			if it.Ident() == exi.Ident() {
				member = true
			} else if (it.Kind == "integer" || it.Kind == "float") && (exi.Kind == "integer" || exi.Kind == "float") &&
				dec.Parse(it.Lit).Cmp(dec.Parse(exi.Lit)) == 0 {
				ambiguous = true
			}
		}
		if ambiguous && !member {
			ev.Excluded("all", "membership: numerically equal but textually different")
			continue
		}
		if member != (named.Check == nil) {
			return ev.V(fmt.Sprintf("membership:member=%v", member), "example %s against rule %q (items %v): Check() = %v", ex, c.Text, want, named.Check)
		}
	}
	return nil
}

func nontrivial(c Case) bool {
	ref := enumrule.Parse(c.Text)
	if ref.Unsettled != "" || !ref.Valid && ref.Why != "duplicate" {
		return false
	}
	if ref.HasAnnot {
		return true
	}
	for _, it := range ref.Items {
		if it.Kind == "string" && (dec.Parse(it.Str) != nil || strings.ContainsAny(it.Str, ".eE") || it.Str == "true" || it.Str == "null" || strings.Contains(it.Lit, `\`)) {
			return true
		}
	}
	for i, a := range ref.Items {
		for _, b := range ref.Items[i+1:] {
			if (a.Kind == "integer" || a.Kind == "float") && (b.Kind == "integer" || b.Kind == "float") && dec.Parse(a.Lit).Cmp(dec.Parse(b.Lit)) == 0 {
				return true
			}
		}
	}
	return !ref.Valid
}

var interline = regexp.MustCompile(`\n[ \t]*(//[^\n]*|/\*[^*]*\*/)[ \t\r]*\n[ \t]*["0-9a-z-]`)

var pool = []string{`"a"`, `"A"`, `"\u0041"`, `"a.b"`, `"1"`, `"1.5"`, `"true"`, `"null"`, `"1e5"`, `"-"`, `""`, `1`, `1.0`, `1.00`, `-0`, `0`, `2.5`, `true`, `false`, `null`, `"x y"`, `"q\"r"`, `"a\/b"`, `"a/b"`, `"é"`, `"[1]"`, `"//"`}
var probes = []string{`"zz"`, `7`, `"a"`, `"A"`, `1`, `1.0`, `true`, `null`, `"1"`, `0`}

// genNumber: number literals of any size - an enum value is compared as a decimal number, not as a
// machine integer or float
var genNumber = rapid.Custom(func(t *rapid.T) string {
	switch rapid.IntRange(0, 4).Draw(t, "numkind") {
	case 0:
		return rapid.SampledFrom([]string{"9223372036854775807", "9223372036854775808", "-9223372036854775808", "-9223372036854775809",
			"18446744073709551615", "18446744073709551616", "4294967296", "2147483648", "9007199254740993", "100000000000000000000"}).Draw(t, "edge")
	case 1:
		return rapid.SampledFrom([]string{"", "-"}).Draw(t, "sign") + rapid.StringMatching(`[1-9][0-9]{17,30}`).Draw(t, "digits")
	case 2:
		return rapid.SampledFrom([]string{"", "-"}).Draw(t, "sign") + rapid.StringMatching(`[1-9][0-9]{0,25}\.[0-9]{1,25}`).Draw(t, "frac")
	case 3:
		return rapid.SampledFrom([]string{"", "-"}).Draw(t, "sign") + rapid.StringMatching(`0\.0{0,20}[1-9]{1,3}0{0,3}`).Draw(t, "small")
	default:
		return rapid.SampledFrom([]string{"", "-"}).Draw(t, "sign") + rapid.StringMatching(`(0|[1-9][0-9]{0,3})(\.[0-9]{1,3})?`).Draw(t, "plain")
	}
})

func genCase(t *rapid.T) Case {
	items := rapid.SliceOfN(rapid.OneOf(rapid.SampledFrom(pool), rapid.SampledFrom(pool), rapid.SampledFrom(pool), genNumber), 0, 6).Draw(t, "items")
	if rapid.IntRange(0, 7).Draw(t, "long") == 0 {
		// a long list of distinct values (7 ... 70), in which one value may come a second time - at any two
		// positions, also in another spelling
		n := rapid.SampledFrom([]int{7, 8, 9, 10, 15, 16, 17, 18, 31, 32, 33, 34, 64, 65, 70}).Draw(t, "longn")
		items = nil
		for i := 0; i < n; i++ {
			switch i % 3 {
			case 0:
				items = append(items, fmt.Sprintf(`"v%d"`, i))
			case 1:
				items = append(items, fmt.Sprint(i))
			default:
				items = append(items, fmt.Sprintf("%d.5", i))
			}
		}
		if rapid.Bool().Draw(t, "plant") {
			from := rapid.IntRange(0, n-1).Draw(t, "dupfrom")
			at := rapid.IntRange(from+1, n).Draw(t, "dupat")
			dup := items[from]
			if strings.HasPrefix(dup, `"v`) && rapid.Bool().Draw(t, "respell") {
				dup = `"\u0076` + dup[2:] // the same string, its first letter escaped
			}
			items = append(items[:at], append([]string{dup}, items[at:]...)...)
		}
	}
	if rapid.IntRange(0, 2).Draw(t, "dedupe") > 0 {
		seen := map[string]bool{}
		var out []string
		for _, it := range items {
			x, _ := exampleItem(it)
			if !seen[x.Ident()] {
				seen[x.Ident()] = true
				out = append(out, it)
			}
		}
		items = out
	}
	pad := func() string { return rapid.SampledFrom([]string{"", " ", "\t", "  "}).Draw(t, "pad") }
	nl := rapid.SampledFrom([]string{"\n", "\r\n", "\n\n"}).Draw(t, "nl")
	var text string
	switch rapid.IntRange(0, 4).Draw(t, "layout") {
	case 0:
		text = "[" + strings.Join(items, ", ") + "]"
	case 1:
		text = "[" + nl + "  " + strings.Join(items, ","+nl+"  ") + nl + "]"
	case 2: // per-item // comments
		var ls []string
		for i, it := range items {
			c := ","
			if i == len(items)-1 {
				c = ""
			}
			if rapid.IntRange(0, 2).Draw(t, "interline") == 0 {
				ls = append(ls, rapid.SampledFrom([]string{"  // between the values", "// a line of its own", "  /* block */", "  /* two\n lines */"}).Draw(t, "ic"))
			}
			ls = append(ls, fmt.Sprintf("  %s%s%s// item %d", it, c, pad(), i))
		}
		text = "[ // the list" + nl + strings.Join(ls, nl) + nl + "// end" + nl + "]"
	case 3: // /* */ annotations
		var ls []string
		for i, it := range items {
			c := ","
			if i == len(items)-1 {
				c = ""
			}
			if rapid.Bool().Draw(t, "before") {
				ls = append(ls, fmt.Sprintf("  %s /* c%d%sx */%s", it, i, nl, c))
			} else {
				ls = append(ls, fmt.Sprintf("  %s%s /* c%d */", it, c, i))
			}
		}
		text = "[" + nl + strings.Join(ls, nl) + nl + "] /* tail */"
	default:
		text = pad() + nl + "[" + pad() + strings.Join(items, pad()+","+pad()) + pad() + "]" + pad() + nl
	}
	switch rapid.IntRange(0, 11).Draw(t, "mutation") {
	case 0:
		text = strings.Replace(text, "[", "", 1)
	case 1:
		if i := strings.LastIndex(text, "]"); i >= 0 {
			text = text[:i] + text[i+1:]
		}
	case 2:
		if i := strings.LastIndex(text, "]"); i >= 0 {
			text = text[:i] + ",]" + text[i+1:]
		}
	case 3:
		text += rapid.SampledFrom([]string{" x", "[1]", ",", " /", "]", " 1"}).Draw(t, "tail")
	case 4:
		text = strings.Replace(text, ",", ",,", 1)
	case 5:
		text = strings.Replace(text, "[", "[ "+rapid.SampledFrom([]string{"1e5", "{}", "[1]", "01", "1.", "tru", "\"a"}).Draw(t, "bad")+", ", 1)
	case 6:
		text = gen.Mutate(t, text, []string{"[", "]", ",", "\"", "/", "*", "1", " ", "\n", "e"})
	case 7, 8:
		// an annotation without a text, at any place where an annotation may stand
		var at []int
		for i := 0; i < len(text); i++ {
			if text[i] == ',' || text[i] == '[' || text[i] == ']' {
				at = append(at, i, i+1)
			}
		}
		if len(at) > 0 && !strings.Contains(text, "//") && !strings.Contains(text, "/*") {
			n := rapid.IntRange(1, 2).Draw(t, "empties")
			for ; n > 0; n-- {
				i := rapid.SampledFrom(at).Draw(t, "emptyat")
				e := rapid.SampledFrom([]string{"/**/", "/* */", "/*\n*/", " /*\t*/ ", "/**/ /* y */"}).Draw(t, "empty")
				text = text[:i] + e + text[i:]
				for k := range at {
					if at[k] >= i {
						at[k] += len(e)
					}
				}
			}
		}
	}
	exs := append([]string{}, items...)
	exs = append(exs, rapid.SliceOfN(rapid.SampledFrom(probes), 1, 3).Draw(t, "probes")...)
	return Case{Text: text, Examples: exs, Template: rapid.IntRange(0, len(templates)-1).Draw(t, "template")}
}

func judged(c Case) *ev.Verdict {
	if nontrivial(c) {
		ev.NonTrivial("lists", c.Text)
		if ev.WantSample("lists") {
			ev.Sample("lists", c)
		}
	}
	r := enumrule.Parse(c.Text)
	switch {
	case r.Unsettled != "":
		ev.Class("lists", "unsettled")
	case r.Valid:
		ev.Class("lists", "valid")
		ev.Class("lists", "template: "+strings.ReplaceAll(templates[c.Template%len(templates)], "\n", " "))
		if interline.MatchString(c.Text) {
			ev.Class("lists", "valid with a comment on a line of its own before a value")
		}
	default:
		ev.Class("lists", "invalid:"+r.Why)
	}
	return oracle(c)
}

func registerAll() {
	ev.Register("lists", judged)
	ev.Register("tokens", oracle)
}

func TestPropLists(t *testing.T) {
	registerAll()
	ev.Rapid(t, "lists", ev.N(5000, 15000), genCase, judged)
}

func TestPropTokens(t *testing.T) {
	registerAll()
	alpha := []string{"[", "]", ",", `"a"`, `"A"`, `"\u0041"`, "1", "1.0", "-0", "true", "null", "// c", "\n", "/* c */", " ", "x", "1e5", `"`, "/", "*"}
	maxLen := ev.N(3, 6)
	ev.KeepFirst("tokens")
	var n, nt, bad int64
	gen.Shortlex(alpha, maxLen, ev.Mine, func(b []byte, _ []int) {
		c := Case{Text: string(b), Examples: []string{`"a"`, `"A"`, "1", "1.0", "null"}}
		n++
		c.Template = int(n % int64(len(templates)))
		if nontrivial(c) {
			nt++
			if ev.WantSample("tokens") && len(b) > 8 {
				ev.Sample("tokens", c)
			}
		}
		if v := oracle(c); v != nil && ev.Report("tokens", c, v) {
			bad++
		}
	})
	ev.Count("tokens", n)
	ev.NonTrivialEnum("tokens", nt)
	ev.Exhaustive("tokens", fmt.Sprintf("every concatenation of <= %d tokens from %q", maxLen, alpha))
	if bad > 0 {
		t.Errorf("VIOLATION-CANDIDATE tokens: %d", bad)
	}
}

func TestPropRegressions(t *testing.T) {
	registerAll()
	ev.ReplayDir(t, ev.Root()+"/regress/C17")
}

func TestReplay(t *testing.T) {
	registerAll()
	ev.Replay(t)
}
