package c17

import (
	"bytes"
	"testing"

	"verif/internal/ev"
	"verif/internal/ref/enumrule"
)

// FuzzEnumRule: the whole C17 oracle on raw bytes. First byte = schema template; the rule text runs to
// the first NUL byte, what follows is an example literal (the rule's own items are always tried too).
func FuzzEnumRule(f *testing.F) {
	for _, s := range []string{`[1, 2]`, `["a", "a"]`, `[1, 1.0, 1.00]`, `[]`, `[null, true, false]`, "[\n  \"a\", // first\n  \"b\" // second\n]", `[1] /* x */`,
		`[1,]`, `[,1]`, `[1 2]`, `[1e2]`, `[[1]]`, `[{"a":1}]`, `["a", "a"]`, `[-0, 0]`, `[1] x`, ` [ "x" ] `, "[\"1.5\", 1.5]\x001.5", "[\"true\", true]\x00\"true\"",
		"# c\n[1]", `["😀", "😀"]`, `[1] //`, `[1] /`, `[`, `]`, ``, `["é"]`, "[\"a\\tb\", \"a\tb\"]"} {
		for _, tpl := range []byte{0, 3, 6, 10} {
			f.Add(append([]byte{tpl}, s...))
		}
	}
	f.Fuzz(func(t *testing.T, data []byte) {
		if len(data) < 1 || len(data) > 400 {
			return
		}
		c := Case{Template: int(data[0])}
		rest := data[1:]
		if i := bytes.IndexByte(rest, 0); i >= 0 {
			c.Text = string(rest[:i])
			c.Examples = []string{string(rest[i+1:])}
		} else {
			c.Text = string(rest)
		}
		if r := enumrule.Parse(c.Text); r.Valid {
			for i, it := range r.Items {
				if i < 3 {
					c.Examples = append(c.Examples, it.Lit)
				}
			}
			c.Examples = append(c.Examples, `"zz"`, `7`)
		}
		ev.Fuzz(t, "enum-rule", oracle(c))
	})
}
