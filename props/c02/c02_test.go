// C02 - no input can crash, hang or panic any public entry point.
package c02

import (
	"fmt"
	"strings"
	"testing"
	"time"
	"unicode/utf8"

	schema "github.com/jsightapi/jsight-schema-core"
	jbytes "github.com/jsightapi/jsight-schema-core/bytes"
	jjson "github.com/jsightapi/jsight-schema-core/json"
	"github.com/jsightapi/jsight-schema-core/notations/regex"
	"github.com/jsightapi/jsight-schema-core/openapi"
	"github.com/jsightapi/jsight-schema-core/rules/enum"
	"pgregory.net/rapid"

	"verif/internal/corpus"
	"verif/internal/ev"
	"verif/internal/gen"
	"verif/internal/sut"
)

func TestMain(m *testing.M) { ev.Main(m, "C02") }

type Case struct {
	Entry   string       `json:"entry"` // project | enum | regex | doc | number | guess | all (one text to every entry point)
	Project *sut.Project `json:"project,omitempty"`
	Text    string       `json:"text,omitempty"`
}

func escapeVerdict(e sut.Escape, what string) *ev.Verdict {
	return ev.V("panic:"+e.Op+":"+e.Frame, "a Go panic escaped %s: %s\n%s", e.Op, e.Value, what)
}

// exercise calls every public operation of the entry point; any escaping panic is a violation
func exercise(c Case) *ev.Verdict {
	switch c.Entry {
	case "project":
		o := sut.Observe(*c.Project)
		if len(o.Escapes) > 0 {
			return escapeVerdict(o.Escapes[0], c.Project.String())
		}

	case "enum":
		if esc := sut.Trap("Enum", func() {
			e := enum.New("@e", c.Text)
			sut.Describe(e.Check())
			_, err := e.Len()
			sut.Describe(err)
			_, err = e.Values()
			sut.Describe(err)
			_, err = e.GetAST()
			sut.Describe(err)
		}); esc != nil {
			return escapeVerdict(*esc, fmt.Sprintf("enum rule %q", c.Text))
		}
		o := sut.Observe(sut.Project{Root: `1 // {enum: @e}`, Rules: []sut.Named{{Name: "@e", Text: c.Text}}})
		if len(o.Escapes) > 0 {
			return escapeVerdict(o.Escapes[0], fmt.Sprintf("enum rule %q through AddRule", c.Text))
		}
	case "regex":
		if esc := sut.Trap("RSchema", func() {
			r := regex.New("@r", c.Text)
			// (asked twice: a failing first example must not leave the object unusable)
			_, _ = r.Example()
			sut.Describe(r.Check())
			_, err := r.Len()
			sut.Describe(err)
			_, err = r.Pattern()
			sut.Describe(err)
			_, err = r.Example()
			sut.Describe(err)
			_, err = r.GetAST()
			sut.Describe(err)
			_, _ = r.UsedUserTypes()
			if r.Check() == nil {
				_, err = openapi.NewSchemaObject(r).MarshalJSON()
				sut.Describe(err)
			}
		}); esc != nil {
			return escapeVerdict(*esc, fmt.Sprintf("regex schema %q", c.Text))
		}
		o := sut.Observe(sut.Project{Root: `"abc" // {type: "@r"}`, Types: []sut.Named{{Name: "@r", Text: c.Text, Regex: true}}})
		if len(o.Escapes) > 0 {
			return escapeVerdict(o.Escapes[0], fmt.Sprintf("regex schema %q registered as a type", c.Text))
		}
	case "doc":
		for _, tr := range []bool{false, true} {
			o := sut.ObserveDoc(c.Text, tr, true)
			if len(o.Escapes) > 0 {
				return escapeVerdict(o.Escapes[0], fmt.Sprintf("JSON document %q (trailing=%v)", c.Text, tr))
			}
			if o.LexErr != nil && o.LexErr.GoType == "verif" {
				return ev.V("hang:NextLexeme", "the lexeme stream of %q does not end", c.Text)
			}
		}
	case "number":
		if esc := sut.Trap("NewNumber", func() {
			n, err := jjson.NewNumber(jbytes.NewBytes(c.Text))
			sut.Describe(err)
			if err == nil {
				_ = n.String()
				_ = n.LengthOfFractionalPart()
				_ = n.Cmp(n)
			}
		}); esc != nil {
			return escapeVerdict(*esc, fmt.Sprintf("number %q", c.Text))
		}
	case "guess":
		if esc := sut.Trap("GuessSchemaType", func() {
			_, err := schema.GuessSchemaType([]byte(c.Text))
			sut.Describe(err)
		}); esc != nil {
			return escapeVerdict(*esc, fmt.Sprintf("literal %q", c.Text))
		}
	case "all":
		for _, e := range []string{"enum", "regex", "doc", "number", "guess"} {
			if v := exercise(Case{Entry: e, Text: c.Text}); v != nil {
				return v
			}
		}
		// as root schema, as registered type, as type registered in itself
		for _, p := range []sut.Project{
			{Root: c.Text},
			{Root: "@t", Types: []sut.Named{{Name: "@t", Text: c.Text}}},
			{Root: c.Text, Self: true, Types: []sut.Named{{Name: "@a", Text: "1"}}},
			{Root: `{"k": @t}`, Types: []sut.Named{{Name: "@t", Text: c.Text}, {Name: "@a", Text: `"s"`}}},
		} {
			p := p
			if v := exercise(Case{Entry: "project", Project: &p}); v != nil {
				return v
			}
		}
	}
	return nil
}

// oracle runs a case under a watchdog: no result within the budget counts as a hang
func oracle(c Case) *ev.Verdict {
	done := make(chan *ev.Verdict, 1)
	go func() { done <- exercise(c) }()
	// 30 s, and a minute more for every megabyte of input (the harness itself walks megabytes of lexemes; on
	// a busy machine that alone takes tens of seconds)
	budget := 30*time.Second + time.Duration(len(c.Text)>>20)*time.Minute
	select {
	case v := <-done:
		return v
	case <-time.After(budget):
		// a budget hit is not yet a verdict (the machine may be busy): the case gets ten times the budget
		select {
		case v := <-done:
			ev.Class("all", "slow case: answered after more than the first budget")
			return v
		case <-time.After(9 * budget):
			return ev.V("hang:"+c.Entry, "no result within %v for %s", 10*budget, describe(c))
		}
	}
}

func describe(c Case) string {
	if c.Project != nil {
		return c.Project.String()
	}
	return fmt.Sprintf("%s %q", c.Entry, c.Text)
}

// ---- (a) token strings for all entry points

var schemaTokens = []string{"{", "}", "[", "]", ",", ":", "\"a\"", "\"", "\\", "1", "-", ".", "true", "null", "@a", "@", "|", "// ", "/*", "*/", "*", "/", "#", "##", "###", "\n", " ", "{min: 1}", "{type: \"@a\"}", "{or: [", "{enum: [", "{type: \"\"}", "x", "e"}

func TestPropTokens(t *testing.T) {
	registerAll()
	ev.KeepFirst("tokens")
	maxLen := ev.N(2, 4)
	var n, nt, bad int64
	gen.Shortlex(schemaTokens, maxLen, ev.Mine, func(b []byte, toks []int) {
		c := Case{Entry: "all", Text: string(b)}
		ev.GuardFast("tokens", c)
		n++
		if len(toks) >= 2 {
			nt++
			if nt%9000 == 1 {
				ev.Sample("tokens", c)
			}
		}
		if v := exercise(c); v != nil && ev.Report("tokens", c, v) {
			bad++
		}
	})
	ev.UnguardFast()
	ev.Count("tokens", n)
	ev.NonTrivialEnum("tokens", nt)
	ev.Exhaustive("tokens", fmt.Sprintf("every concatenation of <= %d tokens from %q, each given to the schema (root, registered type, self-registered root, nested reference), enum rule (direct and AddRule), regex schema (direct and as a type), JSON document (both options), NewNumber and GuessSchemaType entry points with every public operation", maxLen, schemaTokens))
	if bad > 0 {
		t.Errorf("VIOLATION-CANDIDATE tokens: %d", bad)
	}
}

// ---- (b) corpus truncations and single mutations

func TestPropCorpus(t *testing.T) {
	registerAll()
	ev.KeepFirst("corpus")
	var n, nt, bad int64
	idx := 0
	step := ev.N(5, 1)
	for _, s := range corpus.Literals() {
		idx++
		if !ev.Mine(idx) || len(s) > 600 {
			continue
		}
		for cut := idx % step; cut <= len(s); cut += step {
			c := Case{Entry: "all", Text: s[:cut]}
			ev.GuardFast("corpus", c)
			n++
			if cut > 2 {
				nt++
				if nt%20000 == 1 {
					ev.Sample("corpus", c)
				}
			}
			if v := exercise(c); v != nil && ev.Report("corpus", c, v) {
				bad++
			}
		}
	}
	ev.UnguardFast()
	ev.Count("corpus", n)
	ev.NonTrivialEnum("corpus", nt)
	if bad > 0 {
		t.Errorf("VIOLATION-CANDIDATE corpus: %d", bad)
	}
}

// ---- (c) projects with arbitrary reference graphs

var typeForms = gen.TypeForms

func genProjectCase(t *rapid.T) Case {
	p := gen.GraphProject(t)
	if len(p.Cross) == 0 && rapid.IntRange(0, 3).Draw(t, "nest") == 0 {
		// every schema registers the types its own text names: types behind a type are known to that type only
		p.Nest = true
	}
	if rapid.IntRange(0, 3).Draw(t, "cross") == 0 {
		// the type objects register each other (and themselves) before the root registers them: loops in
		// the registration graph that do not pass through the root
		n := len(p.Types)
		for k := rapid.IntRange(1, 4).Draw(t, "ncross"); k > 0; k-- {
			p.Cross = append(p.Cross, [2]int{rapid.IntRange(0, n-1).Draw(t, "crossfrom"), rapid.IntRange(0, n-1).Draw(t, "crossto")})
		}
	}
	return Case{Entry: "project", Project: p}
}

func hasCycle(p *sut.Project) bool {
	// textual: some type mentions a registered name (incl. itself or @main)
	for _, t := range p.Types {
		for _, u := range p.Types {
			if strings.Contains(t.Text, u.Name) {
				return true
			}
		}
		if strings.Contains(t.Text, "@main") {
			return true
		}
	}
	return false
}

func judgedProject(c Case) *ev.Verdict {
	ev.Guard("projects", c)
	defer ev.Unguard()
	if c.Project != nil && hasCycle(c.Project) {
		ev.NonTrivial("projects", c.Project.String())
		if ev.WantSample("projects") {
			ev.Sample("projects", c.Project)
		}
	}
	return oracle(c)
}

func TestPropProjects(t *testing.T) {
	registerAll()
	ev.Rapid(t, "projects", ev.N(6000, 25000), genProjectCase, judgedProject)
}

// ---- random token strings beyond the enumeration bound

func judgedRandom(c Case) *ev.Verdict {
	ev.GuardFast("random", c)
	if len(c.Text) > 8 {
		ev.NonTrivial("random", c.Text)
		if ev.WantSample("random") {
			ev.Sample("random", c)
		}
	}
	return oracle(c)
}

func TestPropRandomTokens(t *testing.T) {
	registerAll()
	ev.Rapid(t, "random", ev.N(4000, 20000), func(t *rapid.T) Case {
		toks := rapid.SliceOfN(rapid.SampledFrom(schemaTokens), 3, 40).Draw(t, "tokens")
		return Case{Entry: "all", Text: strings.Join(toks, "")}
	}, judgedRandom)
	ev.UnguardFast()
}

// numbers with exponents whose machine-word wrap is small (the safe representatives of the
// allocation blow-up) and very long digit strings
func TestPropNumbers(t *testing.T) {
	registerAll()
	if i, _ := ev.Shard(); i != 0 {
		t.Skip("not sharded")
	}
	var n int64
	for _, s := range []string{"1e18446744073709551616", "1e-18446744073709551617", "1e9223372036854775807", "1e-9223372036854775808", "1e-9223372036854775807", "1E-9223372036854775806", "-1.5e-9223372036854775807", "1e+9223372036854775806", "1e-4611686018427387904", "1e4611686018427387904", "1e-1000001", "1e+1000001", "12.5e-1000001", "1e99999999999999999999", "1E+00000000000000000000000001", "-0e-0",
		strings.Repeat("9", 5000), "0." + strings.Repeat("0", 5000) + "1", "1e1000000", "1e-1000000", "1e1000001", "1e", "1e+", "-", "--1", "1.e5", "0x10", "1e5e5", "١٢٣"} {
		c := Case{Entry: "number", Text: s}
		ev.Guard("numbers", c)
		n++
		ev.NonTrivial("numbers", s)
		if ev.Judge("numbers", c, oracle(c)) {
			t.Errorf("VIOLATION-CANDIDATE numbers %q", s)
		}
	}
	ev.Unguard()
	ev.Sample("numbers", Case{Entry: "number", Text: "1e18446744073709551616"})
}

// ---- (d) arbitrary bytes inside every string position

func judgedStrings(c Case) *ev.Verdict {
	ev.GuardFast("strings", c)
	if !utf8.ValidString(c.Text) {
		ev.NonTrivial("strings", c.Text)
		ev.Class("strings", "text is not UTF-8")
		if ev.WantSample("strings") {
			ev.Sample("strings", c)
		}
	}
	return oracle(c)
}

func TestPropStrings(t *testing.T) {
	registerAll()
	ev.Rapid(t, "strings", ev.N(4000, 40000), func(t *rapid.T) Case {
		ctx := rapid.SampledFrom(gen.StringContexts).Draw(t, "context")
		s := gen.HostileString(t, "s")
		return Case{Entry: "all", Text: strings.ReplaceAll(ctx, "%s", s)}
	}, judgedStrings)
	ev.UnguardFast()
}

// ---- (e) rule-rich projects (every rule, key shortcuts, every additionalProperties value, enum
// rules with notes, regex types) in every layout: accepted ones go through every conversion

func judgedRich(c Case) *ev.Verdict {
	ev.GuardFast("rich", c)
	if c.Project != nil {
		ev.NonTrivial("rich", c.Project.String())
		if strings.Contains(c.Project.Root, "additionalProperties") && strings.Contains(c.Project.Root, "@key") {
			ev.Class("rich", "key shortcut beside additionalProperties")
		}
		if ev.WantSample("rich") {
			ev.Sample("rich", c.Project)
		}
	}
	return oracle(c)
}

func TestPropRich(t *testing.T) {
	registerAll()
	ev.Rapid(t, "rich", ev.N(5000, 40000), func(t *rapid.T) Case {
		mp := gen.Project(t, gen.ProjectOpts{KeyType: true, RegexType: true, Container: true, EnumNotes: true, Satisfied: rapid.Bool().Draw(t, "satisfied")})
		sp := mp.Text(gen.Layout(t, gen.LayoutOpts{Esc: 2}))
		return Case{Entry: "project", Project: &sp}
	}, judgedRich)
	ev.UnguardFast()
}

// ---- (f) nesting depth: the one dimension that neither a length bound nor a tree generator reaches

func nestText(open, close string, depth int, core string) string {
	return strings.Repeat(open, depth) + core + strings.Repeat(close, depth)
}

// regex schemas whose pattern compiles but has no example the generator can draw: every entry point, also
// registered as a type in two schemas one after the other
func TestPropRegexWithoutExample(t *testing.T) {
	registerAll()
	ev.KeepFirst("regex-without-example")
	var n, bad int64
	for i, pat := range []string{`/[^\x00-\x7F]/`, `/[\x{10000}-\x{10FFFF}]+/`, `/[^\s\S]/`, `/\P{Any}/`, `/[^\x00-\x{10FFFF}]*a/`, `/a[^\d\D]?b/`, `/([^\w\W]|x)y/`, `/[^ -~\s]{2,3}/`} {
		if !ev.Mine(i) {
			continue
		}
		for _, c := range []Case{{Entry: "regex", Text: pat}, {Entry: "all", Text: pat},
			{Entry: "project", Project: &sut.Project{Root: "{\n  \"a\": @r,\n  \"b\": \"x\" // {type: \"@r\"}\n}", Types: []sut.Named{{Name: "@r", Text: pat, Regex: true}}}}} {
			c := c
			ev.GuardFast("regex-without-example", c)
			n++
			ev.NonTrivial("regex-without-example", c.Entry+pat)
			if v := oracle(c); v != nil && ev.Report("regex-without-example", c, v) {
				bad++
			}
		}
	}
	ev.UnguardFast()
	ev.Count("regex-without-example", n)
	ev.Exhaustive("regex-without-example", "8 patterns with member-less or ASCII-less classes x 3 entry points")
	if bad > 0 {
		t.Errorf("VIOLATION-CANDIDATE regex-without-example: %d", bad)
	}
}

// ---- sizes: the one dimension besides depth that generators of "typical" inputs never reach - many values,
// many layers of types, long chains of references. Every case runs the whole oracle under its watchdog.
func TestPropSizes(t *testing.T) {
	registerAll()
	ev.KeepFirst("sizes")
	var cases []Case
	// enum rules of 7 ... 300 values (whatever is kept in a fixed array, an index built at a threshold ...)
	for _, n := range []int{7, 8, 9, 15, 16, 17, 31, 32, 33, 64, 65, 100, 300} {
		var b, q strings.Builder
		b.WriteString("[")
		q.WriteString("[\n")
		for i := 0; i < n; i++ {
			if i > 0 {
				b.WriteString(", ")
				q.WriteString(",\n")
			}
			fmt.Fprintf(&b, "%d", i)
			fmt.Fprintf(&q, "  \"v%d\" // value %d", i, i)
		}
		b.WriteString("]")
		q.WriteString("\n]")
		cases = append(cases, Case{Entry: "enum", Text: b.String()}, Case{Entry: "enum", Text: q.String()},
			Case{Entry: "project", Project: &sut.Project{Root: "0 // {enum: " + b.String() + "}"}})
	}
	// layers of two types each, every type a nullable choice of the two types of the next layer: 2^layers
	// reference paths over 2*layers types (a walk has to remember what it has seen)
	for _, layers := range []int{4, 12, 20, 23} {
		var types []sut.Named
		for i := 0; i < layers; i++ {
			for _, ab := range []string{"a", "b"} {
				text := "1"
				if i+1 < layers {
					text = fmt.Sprintf("@l%da | @l%db // {nullable: true}", i+1, i+1)
				}
				types = append(types, sut.Named{Name: fmt.Sprintf("@l%d%s", i, ab), Text: text})
			}
		}
		cases = append(cases, Case{Entry: "project", Project: &sut.Project{Root: "@l0a | @l0b", Types: types}})
	}
	// a chain of distinct types, each requiring the next (no recursion: the depth of the references is the point)
	for _, n := range []int{30, 63, 64, 65, 66, 130, 300} {
		var types []sut.Named
		for i := 1; i <= n; i++ {
			text := "{\n  \"leaf\": 1\n}"
			if i < n {
				text = fmt.Sprintf("{\n  \"n\": @t%d\n}", i+1)
			}
			types = append(types, sut.Named{Name: fmt.Sprintf("@t%d", i), Text: text})
		}
		cases = append(cases, Case{Entry: "project", Project: &sut.Project{Root: "{\n  \"n\": @t1\n}", Types: types}})
	}
	// types nested close to the limit that inherit from each other at their innermost object: inheritance stacks
	// the trees (the whole is refused; the point is that the process survives)
	// (the 150 x 9990 chain that overflowed the stack before the repairs of D65 is 15 MB of text and minutes of
	// harness time per operation: it was run by hand, the table keeps the two small witnesses of the limit)
	stacked := [][2]int{{3, 3000}, {2, 6000}}
	for _, cfg := range stacked {
		var types []sut.Named
		for i := 1; i <= cfg[0]; i++ {
			inner := "{\n\"leaf\": 1\n}"
			if i < cfg[0] {
				inner = fmt.Sprintf("{ // {allOf: \"@t%d\"}\n\"own%d\": 1\n}", i+1, i)
			}
			types = append(types, sut.Named{Name: fmt.Sprintf("@t%d", i), Text: strings.Repeat("{\n\"k\": ", cfg[1]) + inner + strings.Repeat("\n}", cfg[1])})
		}
		cases = append(cases, Case{Entry: "project", Project: &sut.Project{Root: "{\n  \"r\": @t1\n}", Types: types}})
		// ... and the same trees stacked by plain references (the example unfolds them)
		var refs []sut.Named
		for i := 1; i <= cfg[0]; i++ {
			inner := "{\n\"leaf\": 1\n}"
			if i < cfg[0] {
				inner = fmt.Sprintf("@t%d", i+1)
			}
			refs = append(refs, sut.Named{Name: fmt.Sprintf("@t%d", i), Text: strings.Repeat("{\n\"k\": ", cfg[1]) + inner + strings.Repeat("\n}", cfg[1])})
		}
		cases = append(cases, Case{Entry: "project", Project: &sut.Project{Root: "{\n  \"r\": @t1\n}", Types: refs}})
	}
	var n, bad int64
	for i, c := range cases {
		if !ev.Mine(i) {
			continue
		}
		c := c
		ev.GuardFast("sizes", c)
		n++
		ev.NonTrivial("sizes", fmt.Sprint(i))
		t0 := time.Now()
		v := oracle(c)
		if el := time.Since(t0); v == nil && el > 8*time.Second && caseSize(c) < 64<<10 {
			// every input of this table is a few kilobytes and takes the library micro- to milliseconds: eight
			// seconds are three to six orders of magnitude, on whatever machine
			v = ev.V("sizes:slow", "all operations on an input of %d bytes took %s", caseSize(c), el.Round(time.Second))
		}
		if v != nil && ev.Report("sizes", c, v) {
			bad++
		}
	}
	ev.UnguardFast()
	ev.Count("sizes", n)
	ev.Sample("sizes", cases[0])
	ev.Exhaustive("sizes", "enum rules of 7-300 values (compact, annotated, inline); 4-26 layers of pairwise choice types; chains of 30-300 distinct types")
	if bad > 0 {
		t.Errorf("VIOLATION-CANDIDATE sizes: %d", bad)
	}
}

func caseSize(c Case) int {
	n := len(c.Text)
	if c.Project != nil {
		n += len(c.Project.Root)
		for _, t := range c.Project.Types {
			n += len(t.Text)
		}
	}
	return n
}

func TestPropDeep(t *testing.T) {
	registerAll()
	ev.KeepFirst("deep")
	idx := 0
	var n, bad int64
	depths := []int{17, 18, 19, 20, 31, 32, 33, 36, 40, 63, 64, 65, 100, 128, 129, 200, 256, 257, 500, 1000}
	if ev.Thorough() {
		depths = append(depths, 2000, 5000, 20000)
	}
	forms := [][3]string{{"[", "]", "1"}, {`{"k":`, "}", "1"}, {`[{"k":`, "}]", "[]"}, {"[\n", "\n]", "@a"}, {`{"k": `, "\n}", `"s" // {optional: true}`},
		{"[", "", "1"}, {"", "]", "1"}, {"{@a: ", "}", "1"}, {"[1, ", "]", "2"}, {"[", ", 2]", "1"}, {`["a", `, "]", `"b"`}}
	// far beyond any realistic document: the library is recursive over the nesting (AST, compiler, checker,
	// example builder), so only a limit of its own keeps a 2 MB text of brackets from overflowing the stack
	depths = append(depths, 10001, 1200000)
	for _, d := range depths {
		for fi, f := range forms {
			if d > 100000 && fi > 0 { // (one form: the harness itself needs seconds for every further megabyte)
				continue
			}
			idx++
			if !ev.Mine(idx) {
				continue
			}
			c := Case{Entry: "all", Text: nestText(f[0], f[1], d, f[2])}
			ev.GuardFast("deep", c)
			n++
			ev.NonTrivial("deep", fmt.Sprintf("%d/%s", d, f[0]))
			if v := oracle(c); v != nil && ev.Report("deep", c, v) {
				bad++
			}
		}
	}
	ev.UnguardFast()
	ev.Count("deep", n)
	ev.Sample("deep", Case{Entry: "all", Text: nestText("[", "]", 40, "1")})
	ev.Exhaustive("deep", fmt.Sprintf("containers nested to depths %v in %d forms (arrays, objects, mixed, multi-line, with siblings, unbalanced), each given to every entry point", depths, len(forms)))
	if bad > 0 {
		t.Errorf("VIOLATION-CANDIDATE deep: %d", bad)
	}
}

func registerAll() {
	ev.Register("strings", judgedStrings)
	ev.Register("rich", judgedRich)
	ev.Register("deep", oracle)
	ev.Register("sizes", oracle)
	ev.Register("regex-without-example", oracle)
	ev.Register("tokens", oracle)
	ev.Register("corpus", oracle)
	ev.Register("projects", judgedProject)
	ev.Register("random", judgedRandom)
	ev.Register("numbers", oracle)
	ev.Register("fuzz", oracle)
}

func TestPropRegressions(t *testing.T) {
	registerAll()
	ev.ReplayDir(t, ev.Root()+"/regress/C02")
}

func TestReplay(t *testing.T) {
	registerAll()
	ev.Replay(t)
}
