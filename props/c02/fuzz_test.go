package c02

import (
	"strings"
	"testing"

	"verif/internal/corpus"
	"verif/internal/ev"
	"verif/internal/sut"
)

// decode turns fuzz bytes into a text: mode byte 0 keeps the raw bytes, otherwise every byte picks a
// token, so that coverage guidance reaches the loader instead of dying in the first scanner state.
func decode(data []byte) string {
	if len(data) == 0 {
		return ""
	}
	if data[0]%2 == 0 {
		return string(data[1:])
	}
	var b strings.Builder
	for _, c := range data[1:] {
		b.WriteString(schemaTokens[int(c)%len(schemaTokens)])
	}
	return b.String()
}

func fuzzJudge(t *testing.T, c Case) {
	if v := exercise(c); v != nil {
		if ev.IsKnown(v.Sig) {
			return
		}
		t.Fatalf("VIOLATION-CANDIDATE check=fuzz sig=%s: %s", v.Sig, v.Detail)
	}
}

var hostile = []string{"1 /* x *", "{} ##", "##", "@a |", "\"\" // {type: \"\"}", "[1] /* x *", "[1] /*00", "1e18446744073709551617", "{@a: 1}", "@a | @a",
	"1 // {or: [{type: \"enum\", enum: [1,2]}]}", "{ // {allOf: \"@a\"}\n}", "1 /* {enum: [ // c\n 1]} */", "\"\\u00", "tru", "1.", "-", "/\\/", "//", "#", "{\"a\":", "[1,", "{ // {additionalProperties: \"@a\"}\n @a: 1\n}", "/[^\\x00-\\x7F]/", "/[^\\s\\S]+/"}

func seed(f *testing.F) {
	for _, h := range hostile {
		f.Add(append([]byte{0}, h...))
	}
	for i, s := range corpus.Literals() {
		if i%40 == 0 && len(s) < 300 {
			f.Add(append([]byte{0}, s...))
		}
	}
	f.Add([]byte{1, 0, 6, 5, 9, 1})
}

func FuzzSchema(f *testing.F) {
	seed(f)
	f.Fuzz(func(t *testing.T, data []byte) {
		if len(data) > 4096 {
			return
		}
		text := decode(data)
		for _, p := range []sut.Project{
			{Root: text, Types: []sut.Named{{Name: "@a", Text: `"kk"`}}},
			{Root: `{"k": @t}`, Types: []sut.Named{{Name: "@t", Text: text}, {Name: "@a", Text: "1"}}},
			{Root: text, Self: true},
		} {
			p := p
			fuzzJudge(t, Case{Entry: "project", Project: &p})
		}
	})
}

func FuzzEnum(f *testing.F) {
	seed(f)
	f.Fuzz(func(t *testing.T, data []byte) {
		if len(data) > 4096 {
			return
		}
		fuzzJudge(t, Case{Entry: "enum", Text: decode(data)})
	})
}

func FuzzRegex(f *testing.F) {
	seed(f)
	f.Fuzz(func(t *testing.T, data []byte) {
		if len(data) > 512 {
			return
		}
		fuzzJudge(t, Case{Entry: "regex", Text: decode(data)})
	})
}

func FuzzJSONDoc(f *testing.F) {
	seed(f)
	f.Fuzz(func(t *testing.T, data []byte) {
		if len(data) > 4096 {
			return
		}
		fuzzJudge(t, Case{Entry: "doc", Text: decode(data)})
	})
}

func FuzzNumber(f *testing.F) {
	for _, s := range []string{"0", "-0", "1.5", "1e5", "1E-5", "12.50e+3", "1e1000000", "1e-1000000", "0.0001200e+2"} {
		f.Add([]byte(s))
	}
	f.Fuzz(func(t *testing.T, data []byte) {
		if len(data) > 64 {
			return
		}
		// exponents beyond the library's own limit would only exercise the machine's memory
		fuzzJudge(t, Case{Entry: "number", Text: string(data)})
		fuzzJudge(t, Case{Entry: "guess", Text: string(data)})
	})
}

// FuzzProject decodes the bytes into a small project of mutually referring types.
func FuzzProject(f *testing.F) {
	f.Add([]byte{3, 1, 2, 3, 4, 5, 6, 7, 8, 9, 10, 11, 12})
	f.Add([]byte{1, 3, 0, 1, 1, 1, 1})
	f.Add([]byte{2, 1, 1, 2, 3, 0, 2, 0, 0, 1})
	f.Fuzz(func(t *testing.T, data []byte) {
		if len(data) < 4 || len(data) > 64 {
			return
		}
		names := []string{"@main", "@a", "@b", "@c", "@missing"}
		pos := 0
		next := func() int {
			if pos >= len(data) {
				return 0
			}
			v := int(data[pos])
			pos++
			return v
		}
		mk := func() string {
			f := typeForms[next()%len(typeForms)]
			a := names[next()%len(names)]
			b := names[next()%len(names)]
			return strings.ReplaceAll(strings.ReplaceAll(f, "%a", a), "%b", b)
		}
		nt := 1 + next()%4
		p := &sut.Project{Self: next()%2 == 0}
		p.Root = mk()
		for i := 0; i < nt; i++ {
			n := sut.Named{Name: names[1+i%3], Text: mk()}
			if next()%8 == 0 {
				n.File = "@main"
			}
			p.Types = append(p.Types, n)
		}
		fuzzJudge(t, Case{Entry: "project", Project: p})
	})
}
