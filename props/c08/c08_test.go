// C08 - an accepted schema's example validates against its generated OpenAPI schema.
package c08

import (
	"encoding/json"
	"fmt"
	"os"
	"strings"
	"testing"

	"pgregory.net/rapid"

	"verif/internal/ev"
	"verif/internal/gen"
	"verif/internal/model"
	"verif/internal/ref/dec"
	"verif/internal/ref/graph"
	"verif/internal/ref/jsonv"
	"verif/internal/ref/oas"
	"verif/internal/ref/rules"
	"verif/internal/sut"
)

func TestMain(m *testing.M) { ev.Main(m, "C08") }

type Case struct {
	P *model.Project `json:"project"`
	// Prelude: sut.Disturb sequence run before the case (0 = none)
	Prelude int `json:"prelude,omitempty"`
}

func features(p *model.Project) []string {
	f := map[string]bool{}
	visit := func(n *model.Node) {
		switch n.Kind {
		case "ref":
			f["reference"] = true
		case "choice":
			f["choice"] = true
		case "object":
			for _, k := range n.Keys {
				if k.Shortcut {
					f["key-shortcut"] = true
				}
				for _, r := range k.Name {
					if r == '"' || r == '\\' || r < 0x20 || r > 0x7e {
						f["escaped-key"] = true
					}
				}
			}
		}
		for _, r := range n.Rules {
			switch r.Name {
			case "or", "enum", "allOf", "additionalProperties", "regex", "precision", "const", "nullable":
				f[r.Name] = true
			case "type":
				switch {
				case strings.HasPrefix(r.Val.Str, "@"):
					f["type-reference"] = true
				case r.Val.Str == "email" || r.Val.Str == "uri" || r.Val.Str == "uuid" || r.Val.Str == "date" || r.Val.Str == "datetime":
					f["format"] = true
				case r.Val.Str == "any":
					f["any"] = true
				}
			}
		}
	}
	p.Root.Walk(visit)
	for _, t := range p.Types {
		if t.Node != nil {
			t.Node.Walk(visit)
		}
		if t.Regex != "" {
			f["regex-type"] = true
		}
	}
	var out []string
	for k := range f {
		out = append(out, k)
	}
	return out
}

// convert builds the components map and the root schema object
func convert(o *sut.Outcome, p *model.Project) (root *jsonv.Value, ctx *oas.Ctx, v *ev.Verdict) {
	ctx = &oas.Ctx{Components: map[string]*jsonv.Value{}}
	if o.OpenAPIErr != "" {
		return nil, nil, ev.V("openapi:error", "OpenAPI conversion of the accepted root fails: %s", o.OpenAPIErr)
	}
	r, err := jsonv.Parse([]byte(o.OpenAPI))
	if err != nil {
		return nil, nil, ev.V("openapi:invalid-json", "OpenAPI conversion is not JSON: %.300s", o.OpenAPI)
	}
	for name, text := range o.TypeOpenAPI {
		if strings.HasPrefix(text, "ERROR: ") {
			return nil, nil, ev.V("openapi:type-error", "OpenAPI conversion of type %s fails: %s", name, text)
		}
		t, err := jsonv.Parse([]byte(text))
		if err != nil {
			return nil, nil, ev.V("openapi:invalid-json", "OpenAPI conversion of %s is not JSON: %.300s", name, text)
		}
		ctx.Components[strings.TrimPrefix(name, "@")] = t
	}
	if p.Self {
		ctx.Components["main"] = r
	}
	return r, ctx, nil
}

var (
	tripleFile  *os.File
	tripleCount int
)

// dumpTriple writes a sample of (schema, components, instance, verdict) to $VERIF_OUT for the python
// jsonschema cross-check of the validator (thorough tier; see tools/oas_crosscheck.py)
func dumpTriple(schema string, types map[string]string, self bool, instance string, valid bool) {
	out := os.Getenv("VERIF_OUT")
	if out == "" || !ev.Thorough() || tripleCount >= 1500 {
		return
	}
	if tripleFile == nil {
		i, _ := ev.Shard()
		f, err := os.Create(fmt.Sprintf("%s/oas-triples-%d.jsonl", out, i))
		if err != nil {
			return
		}
		tripleFile = f
	}
	comps := map[string]json.RawMessage{}
	for n, t := range types {
		if json.Valid([]byte(t)) {
			comps[strings.TrimPrefix(n, "@")] = json.RawMessage(t)
		}
	}
	if self {
		comps["main"] = json.RawMessage(schema)
	}
	if !json.Valid([]byte(schema)) || !json.Valid([]byte(instance)) {
		return
	}
	b, _ := json.Marshal(map[string]any{"schema": json.RawMessage(schema), "components": comps, "instance": json.RawMessage(instance), "valid": valid})
	tripleFile.Write(append(b, '\n'))
	tripleCount++
}

// perturb derives a few instances from a valid one: extra member, dropped member, changed kind
func perturb(v *jsonv.Value) []*jsonv.Value {
	var out []*jsonv.Value
	str := func(s string) *jsonv.Value { return &jsonv.Value{Kind: jsonv.String, Str: s} }
	switch v.Kind {
	case jsonv.Object:
		extra := &jsonv.Value{Kind: jsonv.Object, Keys: append(append([]string{}, v.Keys...), "zzz_extra"), Vals: append(append([]*jsonv.Value{}, v.Vals...), str("x"))}
		out = append(out, extra)
		if len(v.Keys) > 0 {
			out = append(out, &jsonv.Value{Kind: jsonv.Object, Keys: v.Keys[1:], Vals: v.Vals[1:]})
			for i := range v.Vals {
				for _, sub := range perturb(v.Vals[i]) {
					c := &jsonv.Value{Kind: jsonv.Object, Keys: v.Keys, Vals: append([]*jsonv.Value{}, v.Vals...)}
					c.Vals[i] = sub
					out = append(out, c)
					break
				}
			}
		}
	case jsonv.Array:
		out = append(out, &jsonv.Value{Kind: jsonv.Array, Items: append(append([]*jsonv.Value{}, v.Items...), &jsonv.Value{Kind: jsonv.Object, Keys: []string{"zzz"}, Vals: []*jsonv.Value{str("x")}})})
		if len(v.Items) > 0 {
			out = append(out, &jsonv.Value{Kind: jsonv.Array, Items: v.Items[1:]})
		}
	case jsonv.String:
		out = append(out, &jsonv.Value{Kind: jsonv.Number, Num: "123"}, str(v.Str+"-zzz"), str(""))
	case jsonv.Number:
		out = append(out, str("zzz"), &jsonv.Value{Kind: jsonv.Number, Num: "1000001"}, &jsonv.Value{Kind: jsonv.Number, Num: "-1000001"})
	case jsonv.Bool:
		out = append(out, str("zzz"), &jsonv.Value{Kind: jsonv.Null})
	case jsonv.Null:
		out = append(out, str("zzz"), &jsonv.Value{Kind: jsonv.Number, Num: "0"})
	}
	if len(out) > 4 {
		out = out[:4]
	}
	return out
}

func orHasConst(n *model.Node) bool {
	v, ok := n.Rule("or")
	if !ok {
		return false
	}
	for _, alt := range v.Items {
		for _, r := range alt.Rules {
			if r.Name == "const" && r.Val.Lit == "true" {
				return true
			}
		}
	}
	return false
}

// beyondKnown: when an instance fails only for the recorded finding (additionalProperties beside allOf), it is
// validated once more with that one clause switched off, so that anything else that is wrong with it is
// still reported (a recorded finding must not hide a different violation of the same property)
func beyondKnown(err error, inst, schema *jsonv.Value, ctx *oas.Ctx) error {
	if e, ok := err.(*oas.Err); !ok || !(e.AllOfVsAdditional || strings.Contains(e.Msg, "unexpected property") && strings.Contains(e.Msg, "/allOf")) {
		return err
	}
	tol := &oas.Ctx{Components: ctx.Components, TolerateAllOfAdditional: true}
	if err2 := oas.Validate(inst, schema, "#", tol); err2 != nil {
		return err2
	}
	return err
}

func oasVerdict(kind string, err error, detail string) *ev.Verdict {
	e := err.(*oas.Err)
	kw := e.Keyword
	if e.AllOfVsAdditional || strings.Contains(e.Msg, "unexpected property") && strings.Contains(e.Msg, "/allOf") {
		// one root cause whatever the keyword at which it surfaces
		return ev.V(kind+":allOf-vs-additionalProperties", "%s: %s\n%s", kind, e.Error(), detail)
	}
	return ev.V(kind+":"+kw+":"+oas.Shape(e.Path), "%s: %s\n%s", kind, e.Error(), detail)
}

func oracle(c Case) *ev.Verdict {
	if c.Prelude != 0 {
		// the answer for a project does not depend on what the process handled before it
		sut.Pristine()
		sut.Disturb(c.Prelude)
	}
	p := c.P
	if p == nil || p.Root == nil {
		return nil
	}
	res := rules.Evaluate(p)
	if len(res.Ambiguous) > 0 {
		ev.Excluded("projects", "ambiguous: "+res.Ambiguous[0])
		return nil
	}
	if fin := graph.Finite(p); !fin["@main"] {
		ev.Excluded("projects", "root without a finite instance")
		return nil
	}
	tp := p.Text(nil)
	built := sut.Build(tp)
	o := sut.ObserveBuilt(built)
	if len(o.Escapes) > 0 {
		e := o.Escapes[0]
		return ev.V("panic:"+e.Op+":"+e.Frame, "%s panicked: %s\n%s", e.Op, e.Value, tp)
	}
	if o.Again != "" {
		return ev.V("second-call-differs:"+strings.SplitN(o.Again, " ", 2)[0], "%s\n%s", o.Again, tp)
	}
	if o.Check != nil || len(o.AddErr) > 0 || len(o.RuleErr) > 0 {
		ev.Class("projects", "rejected (nothing asserted)")
		return nil
	}
	// (1) example
	if o.ExampleErr != nil {
		return ev.V(fmt.Sprintf("example:error:code-%d", o.ExampleErr.Code), "Check() accepts but Example() fails: %s\n%s", o.ExampleErr, tp)
	}
	inst, err := jsonv.Parse([]byte(o.Example))
	if err != nil {
		return ev.V("example:invalid-json", "Example() is not RFC 8259 JSON: %.300s\n%s", o.Example, tp)
	}
	// (2)+(3) conversion, well-formedness
	root, ctx, v := convert(o, p)
	if v != nil {
		v.Detail += "\n" + tp.String()
		return v
	}
	if err := oas.WellFormed(root, "#", ctx); err != nil {
		return oasVerdict("ill-formed", err, o.OpenAPI+"\n"+tp.String())
	}
	for name, comp := range ctx.Components {
		if err := oas.WellFormed(comp, "#", ctx); err != nil {
			return oasVerdict("ill-formed", err, "component "+name+": "+comp.Canon()+"\n"+tp.String())
		}
	}
	// (2') the same schema objects converted once more: the conversion must not wear the schema out
	o2 := sut.ObserveBuilt(built)
	if len(o2.Escapes) > 0 {
		e := o2.Escapes[0]
		return ev.V("second-conversion:panic:"+e.Op+":"+e.Frame, "%s panicked when the same schema objects were converted a second time: %s\n%s", e.Op, e.Value, tp)
	}
	if o2.OpenAPIErr != "" || o2.OpenAPI != o.OpenAPI {
		return ev.V("second-conversion:differs", "second conversion of the same schema object gives %s %s, the first gave %s\n%s", o2.OpenAPI, o2.OpenAPIErr, o.OpenAPI, tp)
	}
	for name, text := range o.TypeOpenAPI {
		if o2.TypeOpenAPI[name] != text {
			return ev.V("second-conversion:differs", "second conversion of type %s gives %s, the first gave %s\n%s", name, o2.TypeOpenAPI[name], text, tp)
		}
	}
	// (4) the example is an instance
	dumpTriple(o.OpenAPI, o.TypeOpenAPI, p.Self, o.Example, oas.Validate(inst, root, "#", ctx) == nil)
	var knownV *ev.Verdict // the recorded finding, reported at the end unless something else is wrong too
	strictCtx := ctx       // (what the cross-check with the python validator is told)
	if err := oas.Validate(inst, root, "#", ctx); err != nil {
		err = beyondKnown(err, inst, root, ctx)
		v := oasVerdict("example-invalid", err, "example "+o.Example+"\nschema "+o.OpenAPI+"\n"+tp.String())
		if !strings.HasSuffix(v.Sig, ":allOf-vs-additionalProperties") {
			return v
		}
		knownV = v
		ctx = &oas.Ctx{Components: ctx.Components, TolerateAllOfAdditional: true}
	}
	// instances that are probably NOT valid, only for the validator cross-check (both verdicts wanted)
	if ev.Thorough() {
		for _, m := range perturb(inst) {
			dumpTriple(o.OpenAPI, o.TypeOpenAPI, p.Self, m.Canon(), oas.Validate(m, root, "#", strictCtx) == nil)
		}
	}
	// every registered type's own example against its own conversion
	// (types are schemas too; their conversions are the components)
	// (5) single-scalar variations
	nvar := 0
	var scalars []*model.Node
	p.Root.Walk(func(n *model.Node) {
		switch n.Kind {
		case "string", "integer", "float", "boolean", "null":
			scalars = append(scalars, n)
		}
	})
	for si := range scalars {
		for _, cand := range candidates(scalars[si]) {
			q := p.Clone()
			var qs []*model.Node
			q.Root.Walk(func(n *model.Node) {
				switch n.Kind {
				case "string", "integer", "float", "boolean", "null":
					qs = append(qs, n)
				}
			})
			if qs[si].Lit == cand {
				continue
			}
			// with `const: true` the example is the only value; a literal of another JSON kind would
			// change the type the schema infers from its example unless the rules name the type
			if v, ok := qs[si].Rule("const"); ok && v.Lit == "true" {
				continue
			}
			if orHasConst(qs[si]) {
				continue // (the same inside an `or` rule-set: the original conversion rightly pins the original example)
			}
			if model.KindOfLit(cand) != qs[si].Kind && !qs[si].HasRule("or") && !qs[si].HasRule("enum") && !declares(qs[si], "any") {
				continue
			}
			qs[si].Lit = cand
			qs[si].Kind = model.KindOfLit(cand)
			r2 := rules.Evaluate(q)
			if len(r2.Ambiguous) > 0 || !r2.Satisfied() {
				continue
			}
			qt := q.Text(nil)
			o2 := sut.Observe(qt)
			if o2.Check != nil || len(o2.Escapes) > 0 || o2.ExampleErr != nil {
				ev.Class("projects", "variation not accepted by Check() (C01's business)")
				continue
			}
			inst2, err := jsonv.Parse([]byte(o2.Example))
			if err != nil {
				return ev.V("example:invalid-json", "Example() of a variation is not JSON: %.300s\n%s", o2.Example, qt)
			}
			nvar++
			dumpTriple(o.OpenAPI, o.TypeOpenAPI, p.Self, o2.Example, oas.Validate(inst2, root, "#", strictCtx) == nil)
			if err := oas.Validate(inst2, root, "#", ctx); err != nil {
				err = beyondKnown(err, inst2, root, ctx)
				return oasVerdict("variation-invalid", err, fmt.Sprintf("the schema's own rules accept %s in place of %s, but the instance %s is not valid for the ORIGINAL schema's conversion %s\n%s", cand, scalars[si].Lit, o2.Example, o.OpenAPI, tp))
			}
		}
	}
	ev.ClassN("projects", "variations judged", int64(nvar))
	if knownV != nil {
		return knownV
	}
	return nil
}

// candidates proposes replacement literals for one scalar: values near the bounds of its rules,
// other enum members, other kinds named by `or`, other strings of boundary length
func candidates(n *model.Node) []string {
	var out []string
	add := func(s ...string) { out = append(out, s...) }
	var visit func(rr []model.Rule)
	visit = func(rr []model.Rule) {
		for _, r := range rr {
			switch r.Name {
			case "min", "max":
				d := r.Val.Lit
				add(d)
				if x := dec.Parse(d); x != nil {
					add(bump(d, 1), bump(d, -1))
				}
			case "minLength", "maxLength":
				var l int
				fmt.Sscan(r.Val.Lit, &l)
				if l >= 0 && l < 40 {
					add(`"`+strings.Repeat("a", l)+`"`, `"`+strings.Repeat("a", l+1)+`"`)
					if l > 0 {
						add(`"` + strings.Repeat("a", l-1) + `"`)
					}
				}
			case "enum":
				for _, it := range r.Val.Items {
					switch it.K {
					case "str":
						add(jsonv.Quote(it.Str))
					default:
						add(it.Lit)
					}
				}
			case "or":
				for _, it := range r.Val.Items {
					if it.K == "str" {
						add(sampleOf(it.Str)...)
					} else {
						for _, rr2 := range it.Rules {
							if rr2.Name == "type" {
								add(sampleOf(rr2.Val.Str)...)
							}
						}
						visit(it.Rules)
					}
				}
			case "precision":
				add("0.5", "1.25", "2.125")
			case "nullable":
				if r.Val.Lit == "true" {
					add("null")
				}
			case "type":
				add(sampleOf(r.Val.Str)...)
			}
		}
	}
	visit(n.Rules)
	if len(n.Rules) == 0 {
		add(sampleOf(n.Kind)...)
	}
	seen := map[string]bool{}
	var uniq []string
	for _, s := range out {
		if !seen[s] && len(uniq) < 24 {
			seen[s] = true
			uniq = append(uniq, s)
		}
	}
	return uniq
}

func declares(n *model.Node, t string) bool {
	v, ok := n.Rule("type")
	return ok && v.Str == t
}

func sampleOf(t string) []string {
	switch t {
	case "string":
		return []string{`"zz"`, `""`}
	case "integer":
		return []string{"7", "-3", "0"}
	case "float", "decimal":
		return []string{"2.5", "-0.25"}
	case "boolean":
		return []string{"true", "false"}
	case "null":
		return []string{"null"}
	case "any":
		return []string{`"s"`, "1", "true", "2.5"}
	case "date":
		return []string{`"2024-06-30"`}
	case "email":
		return []string{`"x_y@sub.example.org"`}
	case "uri":
		return []string{`"https://example.com"`}
	case "uuid":
		return []string{`"00000000-0000-0000-0000-000000000000"`}
	case "datetime":
		return []string{`"2021-01-02T07:23:12+03:00"`}
	}
	return nil
}

// bump moves a decimal literal by one unit in its last written place
func bump(lit string, dir int) string {
	x := dec.Parse(lit)
	if x == nil {
		return lit
	}
	fd := 0
	if i := strings.IndexByte(lit, '.'); i >= 0 {
		fd = len(lit) - i - 1
	}
	r := x.Rat()
	ulp := dec.Parse("1").Rat()
	for i := 0; i < fd; i++ {
		ulp.Quo(ulp, dec.Parse("10").Rat())
	}
	if dir < 0 {
		r.Sub(r, ulp)
	} else {
		r.Add(r, ulp)
	}
	return r.FloatString(fd)
}

// ---- generation

func genCase(t *rapid.T) Case {
	p := gen.Project(t, gen.ProjectOpts{Satisfied: true, KeyType: true, RegexType: true, Container: true})
	// allOf
	if p.Root.Kind == "object" && rapid.IntRange(0, 3).Draw(t, "allof") == 0 {
		p.Types = append(p.Types, model.Type{Name: "@base", Node: model.Obj().Add("base_k", model.Scalar("integer", "1")).Add("base_o", model.Scalar("string", `"x"`, model.R("optional", model.Bool(true))))})
		p.Root.Rules = append(p.Root.Rules, model.R("allOf", model.Str("@base")))
	}
	// optional / array recursion through the root
	if p.Root.Kind == "object" && rapid.IntRange(0, 3).Draw(t, "self") == 0 {
		p.Self = true
		switch rapid.IntRange(0, 3).Draw(t, "selfkind") {
		case 0:
			p.Root.Add("self", model.Ref("@main", model.R("optional", model.Bool(true))))
		case 1:
			p.Root.Add("self", model.Ref("@main", model.R("nullable", model.Bool(true))))
		case 2:
			p.Root.Add("self", model.Arr().Item(model.Ref("@main")))
		default:
			if len(p.Types) > 0 && p.Types[0].Node != nil {
				p.Root.Add("self", model.Choice("@main", p.Types[0].Name))
			} else {
				p.Root.Add("self", model.Ref("@main", model.R("optional", model.Bool(true))))
			}
		}
	}
	return Case{P: p}
}

func judged(c Case) *ev.Verdict {
	if c.P != nil && c.P.Root != nil {
		fs := features(c.P)
		res := rules.Evaluate(c.P)
		if len(fs) > 0 && len(res.Boundary) > 0 && len(res.Ambiguous) == 0 && res.Satisfied() {
			ev.NonTrivial("projects", c.P.Text(nil).String())
			if ev.WantSample("projects") {
				ev.Sample("projects", c.P.Text(nil))
			}
		}
		for _, f := range fs {
			ev.Class("projects", "feature "+f)
		}
	}
	return oracle(c)
}

func registerAll() {
	ev.Register("projects-after-prelude", judged)
	ev.Register("projects", judged)
	ev.Register("recursive", judgedRecursive)
	ev.Register("own-registrations", judgedOwn)
	ev.Register("chains", ownOracle)
}

// the generated cases after a disturbing prelude on other objects (sut.Disturb), every case from emptied pools
func TestPropProjectsAfterPreludeAfterPrelude(t *testing.T) {
	registerAll()
	ev.Rapid(t, "projects-after-prelude", ev.N(200, 2000), func(t *rapid.T) Case {
		c := genCase(t)
		c.Prelude = rapid.IntRange(1, sut.DisturbMax).Draw(t, "prelude")
		return c
	}, judged)
	sut.Pristine()
}

func TestPropProjects(t *testing.T) {
	registerAll()
	ev.Rapid(t, "projects", ev.N(2500, 8000), genCase, judged)
}

// ---- recursive projects: types that refer to each other through optional links, array items and choices,
// alias types (a type whose body is a reference); every root has a finite instance, so its example must be
// an instance of its own conversion - in particular hold every required property at every level

func genRecursive(t *rapid.T) Case {
	objs := []string{"@r0", "@r1", "@r2"}[:rapid.IntRange(1, 3).Draw(t, "nobj")]
	p := &model.Project{}
	p.Types = append(p.Types, model.Type{Name: "@leaf", Node: model.Scalar("string", `"leaf"`)})
	aliasOf := rapid.SampledFrom(objs).Draw(t, "aliasof")
	alias := model.Ref(aliasOf)
	if rapid.IntRange(0, 3).Draw(t, "aliaschoice") == 0 {
		alias = model.Choice(aliasOf, "@leaf")
	}
	p.Types = append(p.Types, model.Type{Name: "@al", Node: alias})
	opt := func(n *model.Node) *model.Node {
		n.Rules = append(n.Rules, model.R("optional", model.Bool(true)))
		return n
	}
	link := func(label string, mandatoryOK bool) *model.Node {
		target := rapid.SampledFrom(append(append([]string{}, objs...), "@al")).Draw(t, label+"target")
		switch rapid.IntRange(0, 5).Draw(t, label+"how") {
		case 0:
			return model.Arr().Item(model.Ref(target))
		case 1:
			return model.Choice(target, "@leaf") // satisfiable through the leaf
		case 2:
			return model.Choice("@leaf", target)
		case 3:
			n := model.Ref(target)
			n.Rules = append(n.Rules, model.R("nullable", model.Bool(true)))
			return n
		default:
			if mandatoryOK {
				return model.Ref(target)
			}
			return opt(model.Ref(target))
		}
	}
	for _, name := range objs {
		o := model.Obj()
		n := rapid.IntRange(1, 4).Draw(t, name+"n")
		for i := 0; i < n; i++ {
			key := fmt.Sprintf("%s_%d", name[1:], i)
			switch rapid.IntRange(0, 4).Draw(t, name+key) {
			case 0:
				o.Add(key, model.Scalar("integer", "1"))
			case 1:
				o.Add(key, model.Ref("@leaf"))
			default:
				o.Add(key, link(name+key, false))
			}
		}
		p.Types = append(p.Types, model.Type{Name: name, Node: o})
	}
	root := model.Obj()
	n := rapid.IntRange(2, 4).Draw(t, "rootn")
	for i := 0; i < n; i++ {
		root.Add(fmt.Sprintf("p%d", i), link(fmt.Sprintf("root%d", i), true))
	}
	p.Root = root
	return Case{P: p}
}

func judgedRecursive(c Case) *ev.Verdict {
	if c.P != nil && c.P.Root != nil && graph.Finite(c.P)["@main"] {
		ev.NonTrivial("recursive", c.P.Text(nil).String())
		if ev.WantSample("recursive") {
			ev.Sample("recursive", c.P.Text(nil))
		}
	}
	return oracle(c)
}

func TestPropRecursive(t *testing.T) {
	registerAll()
	ev.Rapid(t, "recursive", ev.N(1500, 8000), genRecursive, judgedRecursive)
}

func TestPropRegressions(t *testing.T) {
	registerAll()
	ev.ReplayDir(t, ev.Root()+"/regress/C08")
}

func TestReplay(t *testing.T) {
	registerAll()
	ev.Replay(t)
}

var _ = json.Valid

// ---- types that bring types of their own under a name the root registers itself

// OwnCase: a root whose registered types carry registrations of their own (sut.Named.Own) under names the
// root registers too. Whatever the carried types say, the example has to be an instance of the conversion in
// which every $ref stands for the conversion of the type the ROOT registered under that name.
type OwnCase struct {
	P sut.Project `json:"project"`
}

func ownOracle(c OwnCase) *ev.Verdict {
	built := sut.Build(c.P)
	o := sut.ObserveBuilt(built)
	if len(o.Escapes) > 0 {
		e := o.Escapes[0]
		return ev.V("own:panic:"+e.Op+":"+e.Frame, "%s panicked: %s\n%s", e.Op, e.Value, c.P)
	}
	if o.Check != nil || len(o.AddErr) > 0 {
		ev.Class("own-registrations", "rejected (nothing asserted)")
		return nil
	}
	if o.ExampleErr != nil {
		return ev.V(fmt.Sprintf("own:example:error:code-%d", o.ExampleErr.Code), "Check() accepts but Example() fails: %s\n%s", o.ExampleErr, c.P)
	}
	inst, err := jsonv.Parse([]byte(o.Example))
	if err != nil {
		return ev.V("own:example:invalid-json", "Example() is not RFC 8259 JSON: %.300s\n%s", o.Example, c.P)
	}
	root, ctx, v := convert(o, &model.Project{})
	if v != nil {
		v.Detail += "\n" + c.P.String()
		return v
	}
	if err := oas.WellFormed(root, "#", ctx); err != nil {
		return oasVerdict("own:ill-formed", err, o.OpenAPI+"\n"+c.P.String())
	}
	if err := oas.Validate(inst, root, "#", ctx); err != nil {
		err = beyondKnown(err, inst, root, ctx)
		return oasVerdict("example-invalid", err, "example "+o.Example+"\nschema "+o.OpenAPI+"\ncomponents "+fmt.Sprint(o.TypeOpenAPI)+"\n"+c.P.String())
	}
	ev.Class("own-registrations", "accepted, example judged")
	return nil
}

func genOwn(t *rapid.T) OwnCase {
	texts := []string{`"x1"`, `2`, "{\n  \"k\": 1\n}", "[\n  true\n]", `"x" // {minLength: 1}`, `2.5 // {min: 1}`, `true`, `null`}
	var sp sut.Project
	var root strings.Builder
	inherit := rapid.IntRange(0, 2).Draw(t, "inherit") == 0 // the root inherits from the first carrier (when that is an object)
	root.WriteString("{")
	// carrier names before and after the carried names in byte order
	names := rapid.SliceOfNDistinct(rapid.SampledFrom([]string{"@a", "@b", "@w", "@x1", "@z", "@zz"}), 1, 3, func(s string) string { return s }).Draw(t, "carriers")
	for i, name := range names {
		body := rapid.SampledFrom([]string{"{\n  \"p\": @x\n}", "{\n  \"p\": [\n    @x\n  ]\n}", "@x", "{\n  \"p\": @x, // {optional: true}\n  \"q\": @y\n}", "{\n  \"p\": @x | @y\n}"}).Draw(t, name+"body")
		ty := sut.Named{Name: name, Text: body, Own: []sut.Named{{Name: "@x", Text: rapid.SampledFrom(texts).Draw(t, name+"x")}}}
		if strings.Contains(body, "@y") {
			ty.Own = append(ty.Own, sut.Named{Name: "@y", Text: rapid.SampledFrom(texts).Draw(t, name+"y")})
		}
		sp.Types = append(sp.Types, ty)
		if i == 0 && inherit && strings.HasPrefix(body, "{") {
			fmt.Fprintf(&root, " // {allOf: %q}", name)
		} else if i == 0 {
			inherit = false
		}
		if i > 0 {
			root.WriteString(",")
		}
		fmt.Fprintf(&root, "\n  \"h%d\": %s", i, name)
	}
	if rapid.Bool().Draw(t, "direct") {
		root.WriteString(",\n  \"direct\": @x")
	}
	root.WriteString("\n}")
	sp.Root = root.String()
	own := []sut.Named{{Name: "@x", Text: rapid.SampledFrom(texts).Draw(t, "rootx")}, {Name: "@y", Text: rapid.SampledFrom(texts).Draw(t, "rooty")}}
	// the root's own registrations before or after the carriers
	if rapid.Bool().Draw(t, "ownfirst") {
		sp.Types = append(own, sp.Types...)
	} else {
		sp.Types = append(sp.Types, own...)
	}
	return OwnCase{P: sp}
}

func judgedOwn(c OwnCase) *ev.Verdict {
	ev.NonTrivial("own-registrations", c.P.String())
	if ev.WantSample("own-registrations") {
		ev.Sample("own-registrations", c)
	}
	return ownOracle(c)
}

func TestPropOwnRegistrations(t *testing.T) {
	registerAll()
	ev.Rapid(t, "own-registrations", ev.N(600, 4000), genOwn, judgedOwn)
}

// ---- chains of distinct types: every type requires the next one; the example has to reach the last
func TestPropChains(t *testing.T) {
	registerAll()
	ev.KeepFirst("chains")
	var n, bad int64
	for i, depth := range []int{10, 30, 63, 64, 65, 66, 70, 130, 300} {
		for shape := 0; shape < 3; shape++ {
			if !ev.Mine(i*3 + shape) {
				continue
			}
			var types []sut.Named
			for k := 1; k <= depth; k++ {
				text := "{\n  \"leaf\": \"end\"\n}"
				if k < depth {
					switch shape {
					case 0:
						text = fmt.Sprintf("{\n  \"n\": @t%d\n}", k+1)
					case 1:
						text = fmt.Sprintf("{\n  \"k\": %d,\n  \"n\": [ // {minItems: 1}\n    @t%d\n  ]\n}", k, k+1)
					default:
						text = fmt.Sprintf("{\n  \"n\": @t%d | @never // {optional: false}\n}", k+1)
					}
				}
				types = append(types, sut.Named{Name: fmt.Sprintf("@t%d", k), Text: text})
			}
			types = append(types, sut.Named{Name: "@never", Text: "true"})
			c := OwnCase{P: sut.Project{Root: "{\n  \"n\": @t1\n}", Types: types}}
			n++
			ev.NonTrivial("chains", fmt.Sprintf("%d/%d", depth, shape))
			v := ownOracle(c)
			if v == nil {
				// the last type's property is in the example
				o := sut.Observe(c.P)
				if o.Check != nil {
					v = ev.V("chains:refused", "a chain of %d types is refused: %s", depth, o.Check)
				} else if !strings.Contains(o.Example, `"leaf":"end"`) {
					v = ev.V("chains:example-stops-early", "the example of a chain of %d types does not reach the last one: %.200s ...", depth, o.Example)
				}
			}
			if v != nil && ev.Report("chains", c, v) {
				bad++
			}
		}
	}
	// two types of 6000 levels each, the second referred to from the innermost object of the first: accepted, and
	// the example would be 12000 levels deep (recorded finding: Example() refuses it with code 307)
	if ev.Mine(1000) {
		deepText := func(inner string) string {
			return strings.Repeat("{\n\"k\": ", 6000) + inner + strings.Repeat("\n}", 6000)
		}
		c := OwnCase{P: sut.Project{Root: "{\n  \"r\": @d1\n}", Types: []sut.Named{{Name: "@d1", Text: deepText("@d2")}, {Name: "@d2", Text: deepText("1")}}}}
		n++
		if v := ownOracle(c); v != nil && ev.Report("chains", c, v) {
			bad++
		}
	}
	ev.Count("chains", n)
	ev.Exhaustive("chains", "chains of 10 ... 300 distinct types (plain property, array item with minItems 1, choice whose first alternative continues)")
	if bad > 0 {
		t.Errorf("VIOLATION-CANDIDATE chains: %d", bad)
	}
}
