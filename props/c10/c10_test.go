// C10 - returned results stay intact and do not depend on what was processed before.
package c10

import (
	"bufio"
	"encoding/json"
	"errors"
	"fmt"
	"io"
	"os"
	"os/exec"
	"runtime"
	"strings"
	"testing"

	schema "github.com/jsightapi/jsight-schema-core"
	jdoc "github.com/jsightapi/jsight-schema-core/formats/json"
	"github.com/jsightapi/jsight-schema-core/notations/jschema"
	"github.com/jsightapi/jsight-schema-core/notations/regex"
	"github.com/jsightapi/jsight-schema-core/openapi"
	"github.com/jsightapi/jsight-schema-core/rules/enum"
	"pgregory.net/rapid"

	"verif/internal/ev"
	"verif/internal/gen"
	"verif/internal/model"
	"verif/internal/sut"
)

func TestMain(m *testing.M) { ev.Main(m, "C10") }

// Script: one input and the operations performed on the object built from it, in order.
type Script struct {
	Kind  string      `json:"kind"` // schema enum regex doc
	Text  string      `json:"text"`
	Types []sut.Named `json:"types,omitempty"`
	Rules []sut.Named `json:"rules,omitempty"`
	Ops   []string    `json:"ops"`
	Class string      `json:"class"`
	// Share: the type and rule objects come from a store shared by every script of the case that
	// names a type with the same text - one parsed type registered in many root schemas
	Share bool `json:"share,omitempty"`
	// Family: index of the script with the same input and the same operations minus the no-effect
	// ones (rejected registrations); results are compared across a family
	Family int `json:"family"`
}

// noEffect: operations that are refused (or register something nothing refers to) and therefore must
// not change any later result
var noEffect = map[string]bool{"addtype-dup": true, "addtype-broken": true, "addrule-late": true, "addtype-unused": true}

func deep(n int) string {
	s := `[1, {"leaf": "value", "n": 12.5}]`
	for i := 0; i < n; i++ {
		s = fmt.Sprintf("{\n\"level%d\": %s,\n\"sibling%d\": [true, null, \"%s\"]\n}", i, s, i, strings.Repeat("x", 40*i))
	}
	return s
}

var schemaOps = [][]string{
	{"check", "example", "ast", "openapi", "used", "len"},
	{"example", "example", "openapi", "openapi", "check"},
	{"len", "openapi", "example", "ast", "typeopenapi", "example"},
	{"ast", "check", "typeopenapi", "example", "openapi"},
}

func scripts() []Script {
	var out []Script
	add := func(class, kind, text string, types, rules []sut.Named, ops [][]string) {
		for _, o := range ops {
			out = append(out, Script{Kind: kind, Text: text, Types: types, Rules: rules, Ops: o, Class: class})
		}
	}
	tB := []sut.Named{{Name: "@b", Text: "{\n  \"base\": [1, 2, 3],\n  \"more\": {\"x\": \"" + strings.Repeat("y", 300) + "\"}\n}"}}
	tT := []sut.Named{{Name: "@t", Text: `{"b": [1, 2, 3], "c": "` + strings.Repeat("z", 600) + `"}`}, {Name: "@k", Text: `"kk"`}}
	add("valid-small", "schema", `1`, nil, nil, schemaOps[:2])
	add("valid-small", "schema", `{"a": 1}`, nil, nil, schemaOps)
	add("valid-small", "schema", `"abc" // {minLength: 1}`, nil, nil, schemaOps[:2])
	add("valid-small", "schema", `[1, "two", {"three": 3}]`, nil, nil, schemaOps[1:3])
	for _, d := range []int{1, 2, 4, 6} {
		add("valid-deep", "schema", deep(d), nil, nil, schemaOps)
	}
	add("valid-types", "schema", "{\n  \"a\": @t,\n  @k: [@t]\n}", tT, nil, schemaOps)
	add("valid-allof", "schema", "{ // {allOf: \"@b\"}\n  \"own\": 1\n}", tB, nil, schemaOps)
	add("valid-enum-rule", "schema", `"a" // {enum: @e}`, nil, []sut.Named{{Name: "@e", Text: "[\n \"a\", // first\n \"b\"\n]"}}, schemaOps[:2])
	add("valid-or", "schema", `1 // {or: [{type: "integer", min: 0}, {type: "string", regex: "^a"}, "@k"]}`, tT, nil, schemaOps[:3])
	// rule-sets with format types: their OpenAPI conversion rewrites type names (datetime -> date-time)
	add("valid-or-formats", "schema", `"2021-01-02T07:23:12Z" // {or: [{type: "datetime"}, {type: "integer"}, {type: "email"}]}`, nil, nil, schemaOps)
	add("valid-or-formats", "schema", "{\n  \"when\": \"2020-02-29\", // {or: [{type: \"date\"}, {type: \"uuid\"}, \"null\"]}\n  \"who\": \"a@b.cc\" // {or: [{type: \"email\", nullable: true}, {type: \"uri\"}]}\n}", nil, nil, schemaOps)
	add("valid-formats", "schema", "{\n  \"d\": \"2020-02-29\", // {type: \"date\"}\n  \"u\": \"550e8400-e29b-41d4-a716-446655440000\", // {type: \"uuid\"}\n  \"p\": 1.25 // {precision: 2}\n}", nil, nil, schemaOps[2:])
	// examples of many sizes (pooled buffers grow by doubling: 512, 1024, 2048, 4096, ...)
	for _, n := range []int{20, 45, 90, 150, 200, 250, 300, 350, 400, 600, 800, 1500, 3000} {
		var b strings.Builder
		b.WriteString("[")
		for i := 0; i < n; i++ {
			if i > 0 {
				b.WriteString(", ")
			}
			fmt.Fprintf(&b, "%d", 1000000000+i)
		}
		b.WriteString("]")
		add("valid-sized", "schema", b.String(), nil, nil, [][]string{{"example", "openapi", "example"}, {"check", "example"}})
		var o strings.Builder
		o.WriteString("{")
		for i := 0; i < n/4+1; i++ {
			if i > 0 {
				o.WriteString(", ")
			}
			fmt.Fprintf(&o, "\"key%04d\": \"value %d\"", i, i)
		}
		o.WriteString("}")
		add("valid-sized", "schema", o.String(), nil, nil, [][]string{{"example", "openapi", "example"}})
	}
	// generated projects (accepted by construction) as further scripts
	pg := rapid.Custom(func(t *rapid.T) *model.Project {
		return gen.Project(t, gen.ProjectOpts{Satisfied: true, KeyType: true, RegexType: true, Container: true, EnumNotes: true})
	})
	for i := 0; i < 40; i++ {
		sp := pg.Example(7000 + i).Text(nil)
		add("valid-generated", "schema", sp.Root, sp.Types, sp.Rules, schemaOps[i%4:i%4+1])
	}
	// dereferenced views (lazily evaluated informers are held and asked again after every later step)
	chain := []sut.Named{{Name: "@top", Text: "{\n  \"top\": 1\n}"}, {Name: "@middle", Text: "{ // {allOf: \"@top\"}\n  \"middle\": \"m\"\n}"}, {Name: "@item", Text: "{\n  \"one\": 1\n}"}}
	derefOps := [][]string{{"deref", "openapi", "deref", "example"}, {"check", "deref", "typeopenapi", "deref"}}
	add("valid-deref-allof", "schema", "{ // {allOf: \"@middle\"}\n  \"own\": true\n}", chain, nil, derefOps)
	add("valid-deref-ref", "schema", "@item", chain, nil, derefOps)
	add("valid-deref-choice", "schema", "@item | @top", chain, nil, derefOps)
	add("valid-deref-or", "schema", `{"k": 1 // {or: ["@item", "integer"]}`+"\n}", chain, nil, derefOps)
	add("valid-deref-nested", "schema", "{\n  \"a\": { // {allOf: \"@item\"}\n    \"b\": @middle\n  },\n  \"c\": [@item]\n}", chain, nil, derefOps)
	// refused registrations in the middle of a script: nothing later may differ from the script without them
	noisy := [][]string{{"check", "addtype-dup", "deref", "openapi", "example", "ast"}, {"addtype-dup", "check", "deref", "typeopenapi"}, {"deref", "addtype-broken", "addrule-late", "deref", "openapi", "example"},
		{"example", "addtype-unused", "example", "openapi", "deref"}, {"addrule-late", "addtype-dup", "addtype-broken", "check", "example", "openapi", "deref", "used"}}
	add("valid-deref-allof", "schema", "{ // {allOf: \"@middle\"}\n  \"own\": true\n}", chain, nil, noisy)
	add("valid-deref-ref", "schema", "@item", chain, nil, noisy)
	add("valid-deref-choice", "schema", "@item | @top", chain, nil, noisy)
	add("valid-types", "schema", "{\n  \"a\": @t,\n  @k: [@t]\n}", tT, nil, noisy[:3])
	add("valid-enum-rule", "schema", `"a" // {enum: @e}`, nil, []sut.Named{{Name: "@e", Text: "[\n \"a\", // first\n \"b\"\n]"}}, noisy[2:])
	add("invalid-checker", "schema", `{"a": @missing}`, chain, nil, noisy[:2])
	// one parsed type registered in several root schemas (complete and incomplete sets of types)
	shared := func(class, text string, types []sut.Named, rules []sut.Named, ops [][]string) {
		for _, o := range ops {
			out = append(out, Script{Kind: "schema", Text: text, Types: types, Rules: rules, Ops: o, Class: class, Share: true})
		}
	}
	pet := []sut.Named{{Name: "@pet", Text: "{\n  \"name\": @petName,\n  \"tags\": [@tag]\n}"}, {Name: "@petName", Text: `"Tom" // {minLength: 1}`}, {Name: "@tag", Text: `"t" // {enum: @tags}`}}
	tagRule := []sut.Named{{Name: "@tags", Text: "[\n  \"t\",\n  // the rest\n  \"u\"\n]"}}
	shOps := [][]string{{"check", "example", "openapi", "deref"}, {"deref", "check", "ast", "typeopenapi"}}
	shared("shared-complete", "{\n  \"pet\": @pet\n}", pet, tagRule, shOps)
	shared("shared-complete", "[@pet, @petName]", pet, tagRule, shOps)
	shared("shared-missing-inner", "{\n  \"pet\": @pet\n}", pet[:1], tagRule, shOps)
	shared("shared-missing-inner", "@pet | @petName", pet[:2], tagRule, shOps)
	shared("shared-other-root", "{\n  \"n\": @petName,\n  \"t\": \"u\" // {enum: @tags}\n}", pet[1:], tagRule, shOps)
	// recursion through a choice whose first alternative is the recursive one: the example builder walks the
	// alternatives up to its cut-off - twice on the same object, and on type objects shared by two roots
	tree := []sut.Named{{Name: "@node", Text: "{\n  \"id\": 1,\n  \"next\": @node | @leaf\n}"}, {Name: "@leaf", Text: `"leaf"`}, {Name: "@al", Text: "@node"}}
	recOps := [][]string{{"example", "example", "check", "example"}, {"check", "example", "openapi", "example", "deref"}}
	add("valid-recursive-choice", "schema", "{\n  \"tree\": @node\n}", tree, nil, recOps)
	add("valid-recursive-choice", "schema", "{\n  \"a\": @node,\n  \"b\": @al,\n  \"c\": [@node | @leaf]\n}", tree, nil, recOps)
	shared("shared-recursive-choice", "{\n  \"tree\": @node\n}", tree, nil, recOps)
	shared("shared-recursive-choice", "@al | @leaf", tree, nil, recOps[:1])
	// regex schemas as types: a fresh object per script, with and without earlier use of that object
	code := []sut.Named{{Name: "@code", Text: "/[a-z]{6}-[0-9]{4}/", Regex: true}}
	rxOps := [][]string{{"check", "example", "openapi", "example"}, {"example", "typeopenapi", "check"}}
	add("valid-regex-type", "schema", "{\n  \"code\": @code\n}", code, nil, rxOps)
	add("valid-regex-type-preused", "schema", "{\n  \"code\": @code\n}", code, nil, rxOps)
	add("valid-regex-type", "schema", "[@code, @code]", code, nil, rxOps[:1])
	add("valid-regex-type-preused", "schema", "\"abcdef-1234\" // {type: \"@code\"}", code, nil, rxOps[:1])
	// a root schema without an example value (empty text, comment only) that still gets the parsed types
	// registered: nothing of that may reach the schemas loaded afterwards
	shared("shared-empty-root", "# nothing here", pet, tagRule, [][]string{{"check", "example", "ast", "len"}, {"len", "check"}})
	shared("shared-empty-root", "", pet[1:], tagRule, [][]string{{"check", "used"}})
	shared("shared-empty-root", " \n ", pet[:2], nil, [][]string{{"example", "check"}})
	inh := []sut.Named{{Name: "@base", Text: "{\n  \"id\": 1\n}"}, {Name: "@user", Text: "{ // {allOf: \"@base\"}\n  \"name\": \"n\"\n}"}}
	shared("shared-allof-complete", "{\n  \"u\": @user\n}", inh, nil, shOps)
	shared("shared-allof-missing-base", "{\n  \"u\": @user\n}", inh[1:], nil, shOps)
	add("invalid-scanner", "schema", `{"a": 1,}`, nil, nil, schemaOps[:2])
	add("invalid-scanner", "schema", `[1, 2`, nil, nil, schemaOps[:2])
	add("invalid-scanner", "schema", deep(3)+" }", nil, nil, schemaOps[:2])
	add("invalid-loader-midway", "schema", `1 // {or: [{type: "integer", min: 0}, {type: "string", unknownRule: 1}]}`, nil, nil, schemaOps[:3])
	add("invalid-loader-midway", "schema", `"a" // {enum: ["a", "b", {}]}`, nil, nil, schemaOps[:3])
	add("invalid-loader-midway", "schema", "{ // {allOf: [\"@b\", 1]}\n  \"own\": 1\n}", tB, nil, schemaOps[:3])
	add("invalid-loader-midway", "schema", "{\n  \"a\": {\"b\": [1, 2, {\"c\": 3 // {min: }\n}]}\n}", nil, nil, schemaOps[:3])
	add("invalid-loader-midway", "schema", `1 // {or: [{type: "integer"}, {type:`, nil, nil, schemaOps[:2])
	add("invalid-compiler", "schema", `1 // {minLength: 1}`, nil, nil, schemaOps[:2])
	add("invalid-compiler", "schema", `{"a": 1 // {min: 2, max: 1}`+"\n}", nil, nil, schemaOps[:2])
	add("invalid-checker", "schema", "{\n  \"a\": 1 // {min: 2}\n}", nil, nil, schemaOps[:3])
	add("invalid-checker", "schema", `{"a": @missing}`, nil, nil, schemaOps[:3])
	add("invalid-checker", "schema", "{ // {allOf: \"@b\"}\n  \"base\": 1\n}", tB, nil, schemaOps[:3])
	add("invalid-type", "schema", `{"a": @t}`, []sut.Named{{Name: "@t", Text: `{"b": 1 // {min: 2}` + "\n}"}}, nil, schemaOps[:3])
	add("invalid-type-load", "schema", `{"a": @t}`, []sut.Named{{Name: "@t", Text: `{"b": [1, 2, {"c": 1 // {unknownRule: 1}` + "\n}]}"}}, nil, schemaOps[:3])
	eo := [][]string{{"check", "values", "ast", "len"}, {"values", "values", "check"}}
	add("enum", "enum", "[1, 2, \"three\"]", nil, nil, eo)
	add("enum", "enum", "[\n  \"a\", // first\n  \"b\" // second\n]", nil, nil, eo)
	add("enum-invalid", "enum", "[1, 1]", nil, nil, eo)
	add("enum-invalid", "enum", "[1, 2, {", nil, nil, eo)
	ro := [][]string{{"check", "pattern", "len", "openapi"}, {"openapi", "pattern"}}
	add("regex", "regex", "/^a+$/", nil, nil, ro)
	add("regex-invalid", "regex", "/[/", nil, nil, ro)
	do := [][]string{{"check", "lexemes", "len"}, {"lexemes", "check"}, {"lexemes", "len", "check"}, {"lexemes3", "check", "len"}, {"lexemes3", "len", "lexemes"}, {"len", "lexemes", "lexemes", "check"}}
	add("doc", "doc", `{"a": [1, 2, {"b": "c"}]}`, nil, nil, do)
	add("doc", "doc", " [true, null, -0.5]  \n", nil, nil, do)
	add("doc-invalid", "doc", `{"a": [1, 2, }`, nil, nil, do)
	add("doc-invalid", "doc", `[1, 2, 3] x`, nil, nil, do)
	add("doc-invalid", "doc", `{"a": 1, "b"`, nil, nil, do)
	// documents inside a larger text (the option every API-file reader uses)
	add("doc-trailing", "doc-trailing", `{"a": [1, true]} GET /cats`, nil, nil, do)
	add("doc-trailing", "doc-trailing", "[1, 2]\n    Body\n", nil, nil, do[:4])
	add("doc-trailing", "doc-trailing", `"text"x`, nil, nil, do[1:4])
	return out
}

var pool = withFamilies(scripts())

// withFamilies appends, for every script with no-effect operations, the script without them and
// links the two; a script without such operations is its own family.
func withFamilies(in []Script) []Script {
	out := append([]Script{}, in...)
	for i := range in {
		out[i].Family = i
		var kept []string
		for _, op := range in[i].Ops {
			if !noEffect[op] {
				kept = append(kept, op)
			}
		}
		if len(kept) != len(in[i].Ops) {
			twin := in[i]
			twin.Ops = kept
			twin.Family = len(out)
			out[i].Family = len(out)
			out = append(out, twin)
		}
	}
	return out
}

// Step: run the next operation of the script living in a slot, or put a new script into the slot.
type Step struct {
	Slot   int `json:"slot"`
	Script int `json:"script"` // >= 0: (re)start this script in the slot; -1: continue; -2: runtime.GC
}

type Case struct {
	Steps []Step `json:"steps"`
}

type held struct {
	what     string
	bytes    []byte // the returned slice itself
	snapshot string
	render   func() string // re-render a held structured value (AST, values, error)
}

type object struct {
	script int
	pos    int
	s      *jschema.JSchema
	types  map[string]schema.Schema
	e      *enum.Enum
	r      *regex.RSchema
	d      schema.Document
}

func errText(err error) string {
	if err == nil {
		return "<nil>"
	}
	e := sut.Describe(err)
	return fmt.Sprintf("%s|%d|%s|%d|%d|%d|%s", e.GoType, e.Code, e.Message, e.Index, e.Line, e.Column, e.UserType)
}

// store: the parsed types and rules of a case, for the scripts that share them
type store struct {
	types map[string]schema.Schema
	rules map[string]*enum.Enum
}

func newStore() *store {
	return &store{types: map[string]schema.Schema{}, rules: map[string]*enum.Enum{}}
}

func build(sc Script, st *store) *object {
	o := &object{}
	switch sc.Kind {
	case "schema":
		o.s = jschema.New("@main", sc.Text)
		o.types = map[string]schema.Schema{}
		rule := func(r sut.Named) *enum.Enum {
			if !sc.Share || st == nil {
				return enum.New(r.Name, r.Text)
			}
			k := r.Name + "\x00" + r.Text
			if st.rules[k] == nil {
				st.rules[k] = enum.New(r.Name, r.Text)
			}
			return st.rules[k]
		}
		for _, r := range sc.Rules {
			o.s.AddRule(r.Name, rule(r))
		}
		for _, t := range sc.Types {
			var ts schema.Schema
			k := t.Name + "\x00" + t.Text
			if sc.Share && st != nil && st.types[k] != nil {
				ts = st.types[k]
			} else if t.Regex {
				r := regex.New(t.Name, t.Text)
				if strings.Contains(sc.Class, "preused") {
					// the caller has already asked this object for examples before it registers it as a type
					_, _ = r.Example()
					_, _ = r.Example()
				}
				ts = r
			} else {
				js := jschema.New(t.Name, t.Text)
				for _, r := range sc.Rules {
					js.AddRule(r.Name, rule(r))
				}
				ts = js
				if sc.Share && st != nil {
					st.types[k] = ts
				}
			}
			o.types[t.Name] = ts
			o.s.AddType(t.Name, ts)
		}
	case "enum":
		o.e = enum.New("@e", sc.Text)
	case "regex":
		o.r = regex.New("@r", sc.Text)
	case "doc":
		o.d = jdoc.New("doc", sc.Text)
	case "doc-trailing":
		o.d = jdoc.New("doc", sc.Text, jdoc.AllowTrailingNonSpaceCharacters())
	}
	return o
}

// perform runs one operation; it returns the rendered result and the values to hold
func perform(o *object, sc Script, op string) (string, []held) {
	var hs []held
	var out string
	esc := sut.Trap(op, func() {
		switch sc.Kind + ":" + op {
		case "schema:check":
			err := o.s.Check()
			out = errText(err)
			if err != nil {
				e := err
				hs = append(hs, held{what: "error of Check()", snapshot: errText(e), render: func() string { return errText(e) }})
			}
		case "schema:len":
			n, err := o.s.Len()
			out = fmt.Sprintf("%d,%s", n, errText(err))
		case "schema:example":
			b, err := o.s.Example()
			out = fmt.Sprintf("%s,%s", b, errText(err))
			if err == nil {
				hs = append(hs, held{what: "bytes of Example()", bytes: b, snapshot: string(b)})
			}
		case "schema:ast":
			a, err := o.s.GetAST()
			j, _ := json.Marshal(a)
			out = fmt.Sprintf("%s,%s", j, errText(err))
			if err == nil {
				hs = append(hs, held{what: "AST of GetAST()", snapshot: string(j), render: func() string { x, _ := json.Marshal(a); return string(x) }})
			}
		case "schema:used":
			u, err := o.s.UsedUserTypes()
			out = fmt.Sprintf("%v,%s", u, errText(err))
			if err == nil {
				hs = append(hs, held{what: "slice of UsedUserTypes()", snapshot: fmt.Sprint(u), render: func() string { return fmt.Sprint(u) }})
			}
		case "schema:openapi":
			if o.s.Check() != nil {
				out = "not accepted"
				return
			}
			b, err := openapi.NewSchemaObject(o.s).MarshalJSON()
			out = fmt.Sprintf("%s,%v", b, err)
			if err == nil {
				hs = append(hs, held{what: "bytes of OpenAPI MarshalJSON()", bytes: b, snapshot: string(b)})
			}
		case "schema:typeopenapi":
			if o.s.Check() != nil || len(sc.Types) == 0 {
				out = "not applicable"
				return
			}
			b, err := openapi.NewSchemaObject(o.types[sc.Types[0].Name]).MarshalJSON()
			out = fmt.Sprintf("%s,%v", b, err)
			if err == nil {
				hs = append(hs, held{what: "bytes of a type's OpenAPI MarshalJSON()", bytes: b, snapshot: string(b)})
			}
		case "schema:deref":
			if o.s.Check() != nil {
				out = "not accepted"
				return
			}
			infos := openapi.Dereference(o.s)
			render := func() string { return renderInfos(infos) }
			out = render()
			hs = append(hs, held{what: "informers of Dereference()", snapshot: out, render: render})
		case "schema:addtype-dup":
			// a second type under a name that is taken (or under the root's own name): refused
			name := "@main"
			if len(sc.Types) > 0 {
				name = sc.Types[0].Name
			}
			if err := o.s.AddType(name, jschema.New(name, "{\n  \"two\": \"x\"\n}")); err != nil {
				out = "refused"
			} else if len(sc.Types) > 0 {
				out = "ACCEPTED a second type under a taken name"
			}
		case "schema:addtype-broken":
			if err := o.s.AddType("@broken", jschema.New("@broken", "{\n  \"a\": [1, {\"c\": 1 // {unknownRule: 1}\n}]\n}")); err != nil {
				out = "refused"
			} else {
				out = "ACCEPTED a type that does not load"
			}
		case "schema:addrule-late":
			o.s.Check()
			if err := o.s.AddRule("@late", enum.New("@late", "[1, 2]")); err != nil {
				out = "refused"
			} else {
				out = "ACCEPTED a rule after compilation"
			}
		case "schema:addtype-unused":
			// a valid type nothing refers to: accepted or refused, never of consequence
			_ = o.s.AddType("@unused", jschema.New("@unused", `{"u": [1, 2]}`))
			out = "done"
		case "enum:check":
			out = errText(o.e.Check())
		case "enum:values":
			vv, err := o.e.Values()
			render := func() string {
				var b strings.Builder
				for _, v := range vv {
					fmt.Fprintf(&b, "%s:%s:%q;", v.Value.String(), v.Type, v.Comment)
				}
				return b.String()
			}
			out = render() + "," + errText(err)
			if err == nil {
				hs = append(hs, held{what: "slice of Values()", snapshot: render(), render: render})
			}
		case "enum:ast":
			a, err := o.e.GetAST()
			j, _ := json.Marshal(a)
			out = fmt.Sprintf("%s,%s", j, errText(err))
		case "enum:len":
			n, err := o.e.Len()
			out = fmt.Sprintf("%d,%s", n, errText(err))
		case "regex:check":
			out = errText(o.r.Check())
		case "regex:pattern":
			p, err := o.r.Pattern()
			out = fmt.Sprintf("%q,%s", p, errText(err))
		case "regex:len":
			n, err := o.r.Len()
			out = fmt.Sprintf("%d,%s", n, errText(err))
		case "regex:openapi":
			if o.r.Check() != nil {
				out = "not accepted"
				return
			}
			b, err := openapi.NewSchemaObject(o.r).MarshalJSON()
			out = fmt.Sprintf("%s,%v", b, err)
			if err == nil {
				hs = append(hs, held{what: "bytes of regex OpenAPI MarshalJSON()", bytes: b, snapshot: string(b)})
			}
		case "doc:check", "doc-trailing:check":
			out = errText(o.d.Check())
		case "doc:len", "doc-trailing:len":
			n, err := o.d.Len()
			out = fmt.Sprintf("%d,%s", n, errText(err))
		case "doc:lexemes", "doc:lexemes3", "doc-trailing:lexemes", "doc-trailing:lexemes3":
			var b strings.Builder
			limit := 1000
			if op == "lexemes3" {
				limit = 3 // an iteration that is left half-way
			}
			for i := 0; i < limit; i++ {
				lex, err := o.d.NextLexeme()
				if err != nil {
					if !errors.Is(err, io.EOF) {
						b.WriteString("ERR " + errText(err))
					}
					break
				}
				l := sut.LexOf(lex)
				fmt.Fprintf(&b, "%s@%d-%d;", l.Type, l.Begin, l.End)
			}
			out = b.String()
		default:
			out = "unknown op"
		}
	})
	if esc != nil {
		out = "PANIC " + esc.Value
	}
	return out, hs
}

func renderInfos(infos []openapi.SchemaInformer) string {
	var b strings.Builder
	var one func(inf openapi.SchemaInformer, depth int)
	one = func(inf openapi.SchemaInformer, depth int) {
		j, err := inf.SchemaObject().MarshalJSON()
		fmt.Fprintf(&b, "%*s%v %s %v %q", depth*2, "", inf.Type(), j, err, inf.Annotation())
		if pi, ok := inf.(openapi.PropertyInformer); ok {
			fmt.Fprintf(&b, " key=%q optional=%v", pi.Key(), pi.Optional())
		}
		b.WriteString("\n")
		if oi, ok := inf.(openapi.ObjectInformer); ok && depth < 6 {
			for _, p := range oi.PropertiesInfos() {
				one(p, depth+1)
			}
		}
	}
	for _, inf := range infos {
		one(inf, 0)
	}
	return b.String()
}

var aloneCache = map[int][]string{}

func alone(script int) []string {
	if r, ok := aloneCache[script]; ok {
		return r
	}
	r := runScriptAlone(pool[script])
	aloneCache[script] = r
	return r
}

// runScriptAlone: what a pristine process computes for a script executed from the start
func runScriptAlone(sc Script) []string {
	o := build(sc, newStore())
	var res []string
	for _, op := range sc.Ops {
		r, _ := perform(o, sc, op)
		res = append(res, r)
	}
	return res
}

func oracle(c Case) *ev.Verdict {
	// empty the sync.Pools so that the case does not depend on what earlier cases left there
	runtime.GC()
	runtime.GC()
	slots := map[int]*object{}
	shared := newStore()
	first := map[string]string{}
	firstStep := map[string]int{}
	var holds []held
	for i, st := range c.Steps {
		switch {
		case st.Script == -2:
			runtime.GC()
			runtime.GC()
			continue
		case st.Script >= 0:
			if st.Script >= len(pool) {
				continue
			}
			o := build(pool[st.Script], shared)
			o.script = st.Script
			slots[st.Slot] = o
		}
		o := slots[st.Slot]
		if o == nil || o.pos >= len(pool[o.script].Ops) {
			continue
		}
		sc := pool[o.script]
		op := sc.Ops[o.pos]
		res, hs := perform(o, sc, op)
		eff := 0
		for _, x := range sc.Ops[:o.pos] {
			if !noEffect[x] {
				eff++
			}
		}
		key := fmt.Sprintf("%d/%d", sc.Family, eff)
		o.pos++
		if noEffect[op] {
			if strings.HasPrefix(res, "ACCEPTED") {
				return ev.V("accepted:"+op, "step %d: %s of script %d (%s): %s", i, op, o.script, sc.Class, res)
			}
			continue
		}
		if strings.HasPrefix(res, "PANIC ") {
			return ev.V("panic:"+sc.Kind+":"+op, "step %d: %s of %s script %d panicked: %s", i, op, sc.Class, o.script, res)
		}
		// what the script gives when it is run alone on objects of its own
		if want := alone(o.script); o.pos-1 < len(want) && want[o.pos-1] != res {
			if sc.Share && strings.Contains(sc.Class, "allof") {
				return ev.V("history-dependent:shared-type-object-with-allOf", "step %d: %s of script %d (%s, text %.80q; its type objects are shared with the other root schemas of the case) gives\n  %.300s\nrun alone it gives\n  %.300s", i, op, o.script, sc.Class, sc.Text, res, want[o.pos-1])
			}
			return ev.V("history-dependent:"+sc.Kind+":"+op, "step %d: %s (operation %d of script %d, %s, text %.80q) gives\n  %.300s\nrun alone the script gives\n  %.300s", i, op, o.pos-1, o.script, sc.Class, sc.Text, res, want[o.pos-1])
		}
		if prev, ok := first[key]; ok {
			if prev != res {
				if sc.Share && strings.Contains(sc.Class, "allof") {
					return ev.V("history-dependent:shared-type-object-with-allOf", "step %d: %s of script %d (%s, text %.80q; its type objects are shared with the other root schemas of the case) gives\n  %.300s\nbut the same script gave at step %d\n  %.300s", i, op, o.script, sc.Class, sc.Text, res, firstStep[key], prev)
				}
				return ev.V("history-dependent:"+sc.Kind+":"+op, "step %d: %s (operation %d of script %d, %s, text %.80q) gives\n  %.300s\nbut the same script gave at step %d\n  %.300s", i, op, o.pos-1, o.script, sc.Class, sc.Text, res, firstStep[key], prev)
			}
		} else {
			first[key] = res
			firstStep[key] = i
		}
		holds = append(holds, hs...)
		// every value ever returned must still be what it was
		for _, h := range holds {
			now := ""
			if h.bytes != nil {
				now = string(h.bytes)
			} else if h.render != nil {
				now = h.render()
			}
			if now != h.snapshot {
				return ev.V("returned-value-changed:"+strings.Fields(h.what)[0]+":"+strings.TrimSuffix(strings.Fields(h.what)[len(strings.Fields(h.what))-1], "()"), "after step %d (%s of script %d): the %s returned earlier changed from\n  %.300s\nto\n  %.300s", i, op, o.script, h.what, h.snapshot, now)
			}
		}
	}
	return nil
}

func classify(c Case) (nontrivial bool) {
	failed, okAfterFail, heldTwo := false, false, 0
	slots := map[int][2]int{}
	for _, st := range c.Steps {
		if st.Script >= 0 && st.Script < len(pool) {
			slots[st.Slot] = [2]int{st.Script, 0}
		}
		s, ok := slots[st.Slot]
		if !ok || st.Script == -2 || s[1] >= len(pool[s[0]].Ops) {
			continue
		}
		sc := pool[s[0]]
		op := sc.Ops[s[1]]
		slots[st.Slot] = [2]int{s[0], s[1] + 1}
		if strings.HasPrefix(sc.Class, "invalid") {
			failed = true
		} else if failed {
			okAfterFail = true
		}
		if (op == "example" || op == "openapi" || op == "typeopenapi") && !strings.HasPrefix(sc.Class, "invalid") {
			heldTwo++
		}
	}
	return okAfterFail && heldTwo >= 2
}

func genCase(t *rapid.T) Case {
	n := rapid.IntRange(2, ev.N(30, 60)).Draw(t, "steps")
	var c Case
	for i := 0; i < n; i++ {
		st := Step{Slot: rapid.IntRange(0, 3).Draw(t, "slot"), Script: -1}
		switch rapid.IntRange(0, 9).Draw(t, "kind") {
		case 0, 1, 2:
			st.Script = rapid.IntRange(0, len(pool)-1).Draw(t, "script")
		case 3:
			if rapid.IntRange(0, 3).Draw(t, "gc") == 0 {
				st.Script = -2
			}
		}
		c.Steps = append(c.Steps, st)
	}
	return c
}

func judged(c Case) *ev.Verdict {
	if classify(c) {
		j, _ := json.Marshal(c)
		ev.NonTrivial("histories", string(j))
		if ev.WantSample("histories") {
			ev.Sample("histories", describe(c))
		}
	}
	return oracle(c)
}

func describe(c Case) []string {
	var out []string
	slots := map[int][2]int{}
	for _, st := range c.Steps {
		if st.Script == -2 {
			out = append(out, "gc")
			continue
		}
		if st.Script >= 0 && st.Script < len(pool) {
			slots[st.Slot] = [2]int{st.Script, 0}
			out = append(out, fmt.Sprintf("slot %d := new %s %s %.40q", st.Slot, pool[st.Script].Kind, pool[st.Script].Class, pool[st.Script].Text))
		}
		s, ok := slots[st.Slot]
		if !ok || s[1] >= len(pool[s[0]].Ops) {
			continue
		}
		out = append(out, fmt.Sprintf("slot %d: %s", st.Slot, pool[s[0]].Ops[s[1]]))
		slots[st.Slot] = [2]int{s[0], s[1] + 1}
	}
	return out
}

func registerAll() {
	ev.Register("histories", judged)
	ev.Register("pairs", oracle)
	ev.Register("question-order", questionOrder)
}

// QCase: operation Op (an index into the script's list) of script Script
type QCase struct {
	Script int `json:"script"`
	Op     int `json:"op"`
}

// orderFree: questions about the input whose answer is a function of the input alone, whatever was asked of
// the same object before (examples of regex schemas are a stream of different values by design; a lexeme
// iteration continues where the last one stopped)
func orderFree(sc Script, op string) bool {
	switch sc.Kind + ":" + op {
	case "schema:check", "schema:len", "schema:ast", "schema:used", "enum:check", "enum:values", "enum:ast", "enum:len",
		"regex:check", "regex:pattern", "regex:len", "doc:check", "doc:len", "doc-trailing:check", "doc-trailing:len":
		return true
	case "doc:lexemes", "doc-trailing:lexemes":
		// a complete iteration that is the first one on its object starts at the beginning, whatever was
		// asked before it (questionOrder looks at the position)
		return true
	case "schema:example", "schema:openapi", "schema:typeopenapi":
		for _, t := range sc.Types {
			if t.Regex {
				return false
			}
		}
		return true
	}
	return false
}

// questionOrder: the answer to an order-free question inside a script equals the answer a fresh object of
// the same input gives when that question is the first one it is asked
func questionOrder(c QCase) *ev.Verdict {
	if c.Script < 0 || c.Script >= len(pool) || c.Op < 0 || c.Op >= len(pool[c.Script].Ops) {
		return nil
	}
	sc := pool[c.Script]
	op := sc.Ops[c.Op]
	if !orderFree(sc, op) {
		return nil
	}
	if op == "lexemes" {
		for _, before := range sc.Ops[:c.Op] {
			if before == "lexemes" || before == "lexemes3" {
				return nil // (continues or follows another iteration)
			}
		}
	}
	got := alone(c.Script)
	single := sc
	single.Ops = []string{op}
	first := runScriptAlone(single)
	if c.Op < len(got) && len(first) == 1 && got[c.Op] != first[0] {
		return ev.V("answer-depends-on-earlier-questions:"+sc.Kind+":"+op, "script %d (%s, text %.80q): %s asked after %v gives\n  %.300s\nasked first, of a fresh object, it gives\n  %.300s", c.Script, sc.Class, sc.Text, op, sc.Ops[:c.Op], got[c.Op], first[0])
	}
	return nil
}

func TestPropQuestionOrder(t *testing.T) {
	registerAll()
	if i, _ := ev.Shard(); i != 0 {
		t.Skip("not sharded")
	}
	ev.KeepFirst("question-order")
	var n, nt, bad int64
	for i, sc := range pool {
		for k, op := range sc.Ops {
			if !orderFree(sc, op) {
				continue
			}
			n++
			c := QCase{Script: i, Op: k}
			if k > 0 {
				nt++
				ev.NonTrivial("question-order", fmt.Sprintf("%d/%d", i, k))
			}
			if v := questionOrder(c); v != nil && ev.Report("question-order", c, v) {
				bad++
			}
		}
	}
	ev.Count("question-order", n)
	ev.Sample("question-order", QCase{Script: len(pool) - 1, Op: 1})
	ev.Exhaustive("question-order", fmt.Sprintf("every order-free question at every position of the %d scripts against the same question asked first of a fresh object", len(pool)))
	_ = nt
	if bad > 0 {
		t.Errorf("VIOLATION-CANDIDATE question-order: %d", bad)
	}
}

func TestPropHistories(t *testing.T) {
	registerAll()
	ev.Rapid(t, "histories", ev.N(600, 6000), genCase, judged)
}

// all ordered pairs of scripts: run A completely, run B completely, re-inspect A's held results;
// B's results must equal B run alone
func TestPropPairs(t *testing.T) {
	registerAll()
	ev.KeepFirst("pairs")
	var n, bad int64
	idx := 0
	// quick: about 9000 of the ordered pairs (every one of them in thorough)
	q := len(pool) * len(pool) / 9000
	if q < 3 {
		q = 3
	}
	stride := ev.N(q, 1)
	for a := range pool {
		for b := range pool {
			idx++
			if !ev.Mine(idx) || (idx/7)%stride != 0 {
				continue
			}
			var c Case
			c.Steps = append(c.Steps, Step{Slot: 0, Script: a})
			for i := 1; i < len(pool[a].Ops); i++ {
				c.Steps = append(c.Steps, Step{Slot: 0, Script: -1})
			}
			c.Steps = append(c.Steps, Step{Slot: 1, Script: b})
			for i := 1; i < len(pool[b].Ops); i++ {
				c.Steps = append(c.Steps, Step{Slot: 1, Script: -1})
			}
			// B again in a third slot: must repeat B's results although A and B ran before
			c.Steps = append(c.Steps, Step{Slot: 2, Script: b})
			for i := 1; i < len(pool[b].Ops); i++ {
				c.Steps = append(c.Steps, Step{Slot: 2, Script: -1})
			}
			n++
			ev.NonTrivial("pairs", fmt.Sprintf("%d/%d", a, b))
			if n%500 == 1 {
				ev.Sample("pairs", describe(c))
			}
			if v := oracle(c); v != nil && ev.Report("pairs", c, v) {
				bad++
			}
		}
	}
	ev.Count("pairs", n)
	if stride == 1 {
		ev.Exhaustive("pairs", fmt.Sprintf("all ordered pairs of the %d scripts", len(pool)))
	}
	if bad > 0 {
		t.Errorf("VIOLATION-CANDIDATE pairs: %d", bad)
	}
}

// every script executed by a pristine process as its first action must give what this (used)
// process computes for it
func TestPropPristine(t *testing.T) {
	registerAll()
	if i, _ := ev.Shard(); i != 0 {
		t.Skip("not sharded")
	}
	// warm this process up with everything
	for _, sc := range pool {
		runScriptAlone(sc)
	}
	dir := t.TempDir()
	out := dir + "/pristine.jsonl"
	cmd := exec.Command(os.Args[0], "-test.run", "^TestWorker$", "-test.timeout", "120s")
	cmd.Env = append(os.Environ(), "C10_WORKER_OUT="+out, "VERIF_OUT=")
	if b, err := cmd.CombinedOutput(); err != nil {
		t.Fatalf("INCONCLUSIVE worker failed: %v\n%s", err, b)
	}
	f, err := os.Open(out)
	if err != nil {
		t.Fatalf("INCONCLUSIVE %v", err)
	}
	defer f.Close()
	sc := bufio.NewScanner(f)
	sc.Buffer(make([]byte, 1<<20), 1<<26)
	i := 0
	for sc.Scan() {
		var want []string
		json.Unmarshal(sc.Bytes(), &want)
		got := runScriptAlone(pool[i])
		ev.Count("pristine", 1)
		ev.NonTrivial("pristine", fmt.Sprint(i))
		for k := range want {
			if k < len(got) && got[k] != want[k] {
				v := ev.V("differs-from-pristine-process:"+pool[i].Kind+":"+pool[i].Ops[k], "script %d (%s) operation %s: a pristine process computes\n  %.300s\nthis process (after many other inputs)\n  %.300s", i, pool[i].Class, pool[i].Ops[k], want[k], got[k])
				if ev.Report("pristine", map[string]any{"script": i}, v) {
					t.Errorf("VIOLATION-CANDIDATE pristine: %s", v.Sig)
				}
				break
			}
		}
		i++
	}
	ev.Sample("pristine", pool[1])
}

// TestWorker: one pristine process per script would cost a process start each; instead the worker
// re-executes itself once per script so that each script really is the first thing a process handles.
func TestWorker(t *testing.T) {
	out := os.Getenv("C10_WORKER_OUT")
	if out == "" {
		t.Skip("worker mode only")
	}
	if one := os.Getenv("C10_WORKER_ONE"); one != "" {
		var i int
		fmt.Sscan(one, &i)
		j, _ := json.Marshal(runScriptAlone(pool[i]))
		f, _ := os.OpenFile(out, os.O_APPEND|os.O_WRONLY|os.O_CREATE, 0o644)
		f.Write(append(j, '\n'))
		f.Close()
		return
	}
	for i := range pool {
		cmd := exec.Command(os.Args[0], "-test.run", "^TestWorker$")
		cmd.Env = append(os.Environ(), fmt.Sprintf("C10_WORKER_ONE=%d", i))
		if b, err := cmd.CombinedOutput(); err != nil {
			t.Fatalf("worker %d: %v\n%s", i, err, b)
		}
	}
}

// a refused registration leaves no trace: the script with such operations gives, at its other
// operations, what the script without them gives
func TestPropNoEffect(t *testing.T) {
	registerAll()
	if i, _ := ev.Shard(); i != 0 {
		t.Skip("not sharded")
	}
	for i, sc := range pool {
		if sc.Family == i {
			continue
		}
		got, want := runScriptAlone(sc), runScriptAlone(pool[sc.Family])
		ev.Count("no-effect", 1)
		ev.NonTrivial("no-effect", fmt.Sprint(i))
		k := 0
		for j, op := range sc.Ops {
			if noEffect[op] {
				if strings.HasPrefix(got[j], "ACCEPTED") {
					v := ev.V("accepted:"+op, "script %d (%s): %s", i, sc.Class, got[j])
					if ev.Report("no-effect", map[string]any{"script": i}, v) {
						t.Errorf("VIOLATION-CANDIDATE no-effect: %s", v.Sig)
					}
				}
				continue
			}
			if got[j] != want[k] {
				v := ev.V("refused-call-has-effect:"+op, "script %d (%s, text %.80q, operations %v): %s after the refused registrations gives\n  %.400s\nwithout them\n  %.400s", i, sc.Class, sc.Text, sc.Ops, op, got[j], want[k])
				if ev.Report("no-effect", map[string]any{"script": i}, v) {
					t.Errorf("VIOLATION-CANDIDATE no-effect: %s", v.Sig)
				}
				break
			}
			k++
		}
	}
	ev.Sample("no-effect", pool[len(pool)-1])
}

func TestPropRegressions(t *testing.T) {
	registerAll()
	ev.ReplayDir(t, ev.Root()+"/regress/C10")
}

func TestReplay(t *testing.T) {
	registerAll()
	ev.Replay(t)
}
