// C10 - returned results stay intact and do not depend on what was processed before.
package c10

import (
	"bufio"
	"encoding/json"
	"errors"
	"fmt"
	"io"
	"os"
	"os/exec"
	"runtime"
	"strings"
	"testing"

	schema "github.com/jsightapi/jsight-schema-core"
	jdoc "github.com/jsightapi/jsight-schema-core/formats/json"
	"github.com/jsightapi/jsight-schema-core/notations/jschema"
	"github.com/jsightapi/jsight-schema-core/notations/regex"
	"github.com/jsightapi/jsight-schema-core/openapi"
	"github.com/jsightapi/jsight-schema-core/rules/enum"
	"pgregory.net/rapid"

	"verif/internal/ev"
	"verif/internal/gen"
	"verif/internal/model"
	"verif/internal/sut"
)

func TestMain(m *testing.M) { ev.Main(m, "C10") }

// Script: one input and the operations performed on the object built from it, in order.
type Script struct {
	Kind  string      `json:"kind"` // schema enum regex doc
	Text  string      `json:"text"`
	Types []sut.Named `json:"types,omitempty"`
	Rules []sut.Named `json:"rules,omitempty"`
	Ops   []string    `json:"ops"`
	Class string      `json:"class"`
}

func deep(n int) string {
	s := `[1, {"leaf": "value", "n": 12.5}]`
	for i := 0; i < n; i++ {
		s = fmt.Sprintf("{\n\"level%d\": %s,\n\"sibling%d\": [true, null, \"%s\"]\n}", i, s, i, strings.Repeat("x", 40*i))
	}
	return s
}

var schemaOps = [][]string{
	{"check", "example", "ast", "openapi", "used", "len"},
	{"example", "example", "openapi", "openapi", "check"},
	{"len", "openapi", "example", "ast", "typeopenapi", "example"},
	{"ast", "check", "typeopenapi", "example", "openapi"},
}

func scripts() []Script {
	var out []Script
	add := func(class, kind, text string, types, rules []sut.Named, ops [][]string) {
		for _, o := range ops {
			out = append(out, Script{Kind: kind, Text: text, Types: types, Rules: rules, Ops: o, Class: class})
		}
	}
	tB := []sut.Named{{Name: "@b", Text: "{\n  \"base\": [1, 2, 3],\n  \"more\": {\"x\": \"" + strings.Repeat("y", 300) + "\"}\n}"}}
	tT := []sut.Named{{Name: "@t", Text: `{"b": [1, 2, 3], "c": "` + strings.Repeat("z", 600) + `"}`}, {Name: "@k", Text: `"kk"`}}
	add("valid-small", "schema", `1`, nil, nil, schemaOps[:2])
	add("valid-small", "schema", `{"a": 1}`, nil, nil, schemaOps)
	add("valid-small", "schema", `"abc" // {minLength: 1}`, nil, nil, schemaOps[:2])
	add("valid-small", "schema", `[1, "two", {"three": 3}]`, nil, nil, schemaOps[1:3])
	for _, d := range []int{1, 2, 4, 6} {
		add("valid-deep", "schema", deep(d), nil, nil, schemaOps)
	}
	add("valid-types", "schema", "{\n  \"a\": @t,\n  @k: [@t]\n}", tT, nil, schemaOps)
	add("valid-allof", "schema", "{ // {allOf: \"@b\"}\n  \"own\": 1\n}", tB, nil, schemaOps)
	add("valid-enum-rule", "schema", `"a" // {enum: @e}`, nil, []sut.Named{{Name: "@e", Text: "[\n \"a\", // first\n \"b\"\n]"}}, schemaOps[:2])
	add("valid-or", "schema", `1 // {or: [{type: "integer", min: 0}, {type: "string", regex: "^a"}, "@k"]}`, tT, nil, schemaOps[:3])
	// rule-sets with format types: their OpenAPI conversion rewrites type names (datetime -> date-time)
	add("valid-or-formats", "schema", `"2021-01-02T07:23:12Z" // {or: [{type: "datetime"}, {type: "integer"}, {type: "email"}]}`, nil, nil, schemaOps)
	add("valid-or-formats", "schema", "{\n  \"when\": \"2020-02-29\", // {or: [{type: \"date\"}, {type: \"uuid\"}, \"null\"]}\n  \"who\": \"a@b.cc\" // {or: [{type: \"email\", nullable: true}, {type: \"uri\"}]}\n}", nil, nil, schemaOps)
	add("valid-formats", "schema", "{\n  \"d\": \"2020-02-29\", // {type: \"date\"}\n  \"u\": \"550e8400-e29b-41d4-a716-446655440000\", // {type: \"uuid\"}\n  \"p\": 1.25 // {precision: 2}\n}", nil, nil, schemaOps[2:])
	// examples of many sizes (pooled buffers grow by doubling: 512, 1024, 2048, 4096, ...)
	for _, n := range []int{20, 45, 90, 150, 200, 250, 300, 350, 400, 600, 800, 1500, 3000} {
		var b strings.Builder
		b.WriteString("[")
		for i := 0; i < n; i++ {
			if i > 0 {
				b.WriteString(", ")
			}
			fmt.Fprintf(&b, "%d", 1000000000+i)
		}
		b.WriteString("]")
		add("valid-sized", "schema", b.String(), nil, nil, [][]string{{"example", "openapi", "example"}, {"check", "example"}})
		var o strings.Builder
		o.WriteString("{")
		for i := 0; i < n/4+1; i++ {
			if i > 0 {
				o.WriteString(", ")
			}
			fmt.Fprintf(&o, "\"key%04d\": \"value %d\"", i, i)
		}
		o.WriteString("}")
		add("valid-sized", "schema", o.String(), nil, nil, [][]string{{"example", "openapi", "example"}})
	}
	// generated projects (accepted by construction) as further scripts
	pg := rapid.Custom(func(t *rapid.T) *model.Project {
		return gen.Project(t, gen.ProjectOpts{Satisfied: true, KeyType: true, RegexType: true, Container: true, EnumNotes: true})
	})
	for i := 0; i < 40; i++ {
		sp := pg.Example(7000 + i).Text(nil)
		add("valid-generated", "schema", sp.Root, sp.Types, sp.Rules, schemaOps[i%4:i%4+1])
	}
	add("invalid-scanner", "schema", `{"a": 1,}`, nil, nil, schemaOps[:2])
	add("invalid-scanner", "schema", `[1, 2`, nil, nil, schemaOps[:2])
	add("invalid-scanner", "schema", deep(3)+" }", nil, nil, schemaOps[:2])
	add("invalid-loader-midway", "schema", `1 // {or: [{type: "integer", min: 0}, {type: "string", unknownRule: 1}]}`, nil, nil, schemaOps[:3])
	add("invalid-loader-midway", "schema", `"a" // {enum: ["a", "b", {}]}`, nil, nil, schemaOps[:3])
	add("invalid-loader-midway", "schema", "{ // {allOf: [\"@b\", 1]}\n  \"own\": 1\n}", tB, nil, schemaOps[:3])
	add("invalid-loader-midway", "schema", "{\n  \"a\": {\"b\": [1, 2, {\"c\": 3 // {min: }\n}]}\n}", nil, nil, schemaOps[:3])
	add("invalid-loader-midway", "schema", `1 // {or: [{type: "integer"}, {type:`, nil, nil, schemaOps[:2])
	add("invalid-compiler", "schema", `1 // {minLength: 1}`, nil, nil, schemaOps[:2])
	add("invalid-compiler", "schema", `{"a": 1 // {min: 2, max: 1}`+"\n}", nil, nil, schemaOps[:2])
	add("invalid-checker", "schema", "{\n  \"a\": 1 // {min: 2}\n}", nil, nil, schemaOps[:3])
	add("invalid-checker", "schema", `{"a": @missing}`, nil, nil, schemaOps[:3])
	add("invalid-checker", "schema", "{ // {allOf: \"@b\"}\n  \"base\": 1\n}", tB, nil, schemaOps[:3])
	add("invalid-type", "schema", `{"a": @t}`, []sut.Named{{Name: "@t", Text: `{"b": 1 // {min: 2}` + "\n}"}}, nil, schemaOps[:3])
	add("invalid-type-load", "schema", `{"a": @t}`, []sut.Named{{Name: "@t", Text: `{"b": [1, 2, {"c": 1 // {unknownRule: 1}` + "\n}]}"}}, nil, schemaOps[:3])
	eo := [][]string{{"check", "values", "ast", "len"}, {"values", "values", "check"}}
	add("enum", "enum", "[1, 2, \"three\"]", nil, nil, eo)
	add("enum", "enum", "[\n  \"a\", // first\n  \"b\" // second\n]", nil, nil, eo)
	add("enum-invalid", "enum", "[1, 1]", nil, nil, eo)
	add("enum-invalid", "enum", "[1, 2, {", nil, nil, eo)
	ro := [][]string{{"check", "pattern", "len", "openapi"}, {"openapi", "pattern"}}
	add("regex", "regex", "/^a+$/", nil, nil, ro)
	add("regex-invalid", "regex", "/[/", nil, nil, ro)
	do := [][]string{{"check", "lexemes", "len"}, {"lexemes", "check"}}
	add("doc", "doc", `{"a": [1, 2, {"b": "c"}]}`, nil, nil, do)
	add("doc-invalid", "doc", `{"a": [1, 2, }`, nil, nil, do)
	return out
}

var pool = scripts()

// Step: run the next operation of the script living in a slot, or put a new script into the slot.
type Step struct {
	Slot   int `json:"slot"`
	Script int `json:"script"` // >= 0: (re)start this script in the slot; -1: continue; -2: runtime.GC
}

type Case struct {
	Steps []Step `json:"steps"`
}

type held struct {
	what     string
	bytes    []byte // the returned slice itself
	snapshot string
	render   func() string // re-render a held structured value (AST, values, error)
}

type object struct {
	script int
	pos    int
	s      *jschema.JSchema
	types  map[string]schema.Schema
	e      *enum.Enum
	r      *regex.RSchema
	d      schema.Document
}

func errText(err error) string {
	if err == nil {
		return "<nil>"
	}
	e := sut.Describe(err)
	return fmt.Sprintf("%s|%d|%s|%d|%d|%d|%s", e.GoType, e.Code, e.Message, e.Index, e.Line, e.Column, e.UserType)
}

func build(sc Script) *object {
	o := &object{}
	switch sc.Kind {
	case "schema":
		o.s = jschema.New("@main", sc.Text)
		o.types = map[string]schema.Schema{}
		for _, r := range sc.Rules {
			o.s.AddRule(r.Name, enum.New(r.Name, r.Text))
		}
		for _, t := range sc.Types {
			ts := jschema.New(t.Name, t.Text)
			o.types[t.Name] = ts
			o.s.AddType(t.Name, ts)
		}
	case "enum":
		o.e = enum.New("@e", sc.Text)
	case "regex":
		o.r = regex.New("@r", sc.Text)
	case "doc":
		o.d = jdoc.New("doc", sc.Text)
	}
	return o
}

// perform runs one operation; it returns the rendered result and the values to hold
func perform(o *object, sc Script, op string) (string, []held) {
	var hs []held
	var out string
	esc := sut.Trap(op, func() {
		switch sc.Kind + ":" + op {
		case "schema:check":
			err := o.s.Check()
			out = errText(err)
			if err != nil {
				e := err
				hs = append(hs, held{what: "error of Check()", snapshot: errText(e), render: func() string { return errText(e) }})
			}
		case "schema:len":
			n, err := o.s.Len()
			out = fmt.Sprintf("%d,%s", n, errText(err))
		case "schema:example":
			b, err := o.s.Example()
			out = fmt.Sprintf("%s,%s", b, errText(err))
			if err == nil {
				hs = append(hs, held{what: "bytes of Example()", bytes: b, snapshot: string(b)})
			}
		case "schema:ast":
			a, err := o.s.GetAST()
			j, _ := json.Marshal(a)
			out = fmt.Sprintf("%s,%s", j, errText(err))
			if err == nil {
				hs = append(hs, held{what: "AST of GetAST()", snapshot: string(j), render: func() string { x, _ := json.Marshal(a); return string(x) }})
			}
		case "schema:used":
			u, err := o.s.UsedUserTypes()
			out = fmt.Sprintf("%v,%s", u, errText(err))
			if err == nil {
				hs = append(hs, held{what: "slice of UsedUserTypes()", snapshot: fmt.Sprint(u), render: func() string { return fmt.Sprint(u) }})
			}
		case "schema:openapi":
			if o.s.Check() != nil {
				out = "not accepted"
				return
			}
			b, err := openapi.NewSchemaObject(o.s).MarshalJSON()
			out = fmt.Sprintf("%s,%v", b, err)
			if err == nil {
				hs = append(hs, held{what: "bytes of OpenAPI MarshalJSON()", bytes: b, snapshot: string(b)})
			}
		case "schema:typeopenapi":
			if o.s.Check() != nil || len(sc.Types) == 0 {
				out = "not applicable"
				return
			}
			b, err := openapi.NewSchemaObject(o.types[sc.Types[0].Name]).MarshalJSON()
			out = fmt.Sprintf("%s,%v", b, err)
			if err == nil {
				hs = append(hs, held{what: "bytes of a type's OpenAPI MarshalJSON()", bytes: b, snapshot: string(b)})
			}
		case "enum:check":
			out = errText(o.e.Check())
		case "enum:values":
			vv, err := o.e.Values()
			render := func() string {
				var b strings.Builder
				for _, v := range vv {
					fmt.Fprintf(&b, "%s:%s:%q;", v.Value.String(), v.Type, v.Comment)
				}
				return b.String()
			}
			out = render() + "," + errText(err)
			if err == nil {
				hs = append(hs, held{what: "slice of Values()", snapshot: render(), render: render})
			}
		case "enum:ast":
			a, err := o.e.GetAST()
			j, _ := json.Marshal(a)
			out = fmt.Sprintf("%s,%s", j, errText(err))
		case "enum:len":
			n, err := o.e.Len()
			out = fmt.Sprintf("%d,%s", n, errText(err))
		case "regex:check":
			out = errText(o.r.Check())
		case "regex:pattern":
			p, err := o.r.Pattern()
			out = fmt.Sprintf("%q,%s", p, errText(err))
		case "regex:len":
			n, err := o.r.Len()
			out = fmt.Sprintf("%d,%s", n, errText(err))
		case "regex:openapi":
			if o.r.Check() != nil {
				out = "not accepted"
				return
			}
			b, err := openapi.NewSchemaObject(o.r).MarshalJSON()
			out = fmt.Sprintf("%s,%v", b, err)
			if err == nil {
				hs = append(hs, held{what: "bytes of regex OpenAPI MarshalJSON()", bytes: b, snapshot: string(b)})
			}
		case "doc:check":
			out = errText(o.d.Check())
		case "doc:len":
			n, err := o.d.Len()
			out = fmt.Sprintf("%d,%s", n, errText(err))
		case "doc:lexemes":
			var b strings.Builder
			for i := 0; i < 1000; i++ {
				lex, err := o.d.NextLexeme()
				if err != nil {
					if !errors.Is(err, io.EOF) {
						b.WriteString("ERR " + errText(err))
					}
					break
				}
				l := sut.LexOf(lex)
				fmt.Fprintf(&b, "%s@%d-%d;", l.Type, l.Begin, l.End)
			}
			out = b.String()
		default:
			out = "unknown op"
		}
	})
	if esc != nil {
		out = "PANIC " + esc.Value
	}
	return out, hs
}

// runScriptAlone: what a pristine process computes for a script executed from the start
func runScriptAlone(sc Script) []string {
	o := build(sc)
	var res []string
	for _, op := range sc.Ops {
		r, _ := perform(o, sc, op)
		res = append(res, r)
	}
	return res
}

func oracle(c Case) *ev.Verdict {
	// empty the sync.Pools so that the case does not depend on what earlier cases left there
	runtime.GC()
	runtime.GC()
	slots := map[int]*object{}
	first := map[string]string{}
	firstStep := map[string]int{}
	var holds []held
	for i, st := range c.Steps {
		switch {
		case st.Script == -2:
			runtime.GC()
			runtime.GC()
			continue
		case st.Script >= 0:
			if st.Script >= len(pool) {
				continue
			}
			o := build(pool[st.Script])
			o.script = st.Script
			slots[st.Slot] = o
		}
		o := slots[st.Slot]
		if o == nil || o.pos >= len(pool[o.script].Ops) {
			continue
		}
		sc := pool[o.script]
		op := sc.Ops[o.pos]
		res, hs := perform(o, sc, op)
		key := fmt.Sprintf("%d/%d", o.script, o.pos)
		o.pos++
		if strings.HasPrefix(res, "PANIC ") {
			return ev.V("panic:"+sc.Kind+":"+op, "step %d: %s of %s script %d panicked: %s", i, op, sc.Class, o.script, res)
		}
		if prev, ok := first[key]; ok {
			if prev != res {
				return ev.V("history-dependent:"+sc.Kind+":"+op, "step %d: %s (operation %d of script %d, %s, text %.80q) gives\n  %.300s\nbut the same script gave at step %d\n  %.300s", i, op, o.pos-1, o.script, sc.Class, sc.Text, res, firstStep[key], prev)
			}
		} else {
			first[key] = res
			firstStep[key] = i
		}
		holds = append(holds, hs...)
		// every value ever returned must still be what it was
		for _, h := range holds {
			now := ""
			if h.bytes != nil {
				now = string(h.bytes)
			} else if h.render != nil {
				now = h.render()
			}
			if now != h.snapshot {
				return ev.V("returned-value-changed:"+strings.Fields(h.what)[0]+":"+strings.TrimSuffix(strings.Fields(h.what)[len(strings.Fields(h.what))-1], "()"), "after step %d (%s of script %d): the %s returned earlier changed from\n  %.300s\nto\n  %.300s", i, op, o.script, h.what, h.snapshot, now)
			}
		}
	}
	return nil
}

func classify(c Case) (nontrivial bool) {
	failed, okAfterFail, heldTwo := false, false, 0
	slots := map[int][2]int{}
	for _, st := range c.Steps {
		if st.Script >= 0 && st.Script < len(pool) {
			slots[st.Slot] = [2]int{st.Script, 0}
		}
		s, ok := slots[st.Slot]
		if !ok || st.Script == -2 || s[1] >= len(pool[s[0]].Ops) {
			continue
		}
		sc := pool[s[0]]
		op := sc.Ops[s[1]]
		slots[st.Slot] = [2]int{s[0], s[1] + 1}
		if strings.HasPrefix(sc.Class, "invalid") {
			failed = true
		} else if failed {
			okAfterFail = true
		}
		if (op == "example" || op == "openapi" || op == "typeopenapi") && !strings.HasPrefix(sc.Class, "invalid") {
			heldTwo++
		}
	}
	return okAfterFail && heldTwo >= 2
}

func genCase(t *rapid.T) Case {
	n := rapid.IntRange(2, ev.N(30, 60)).Draw(t, "steps")
	var c Case
	for i := 0; i < n; i++ {
		st := Step{Slot: rapid.IntRange(0, 3).Draw(t, "slot"), Script: -1}
		switch rapid.IntRange(0, 9).Draw(t, "kind") {
		case 0, 1, 2:
			st.Script = rapid.IntRange(0, len(pool)-1).Draw(t, "script")
		case 3:
			if rapid.IntRange(0, 3).Draw(t, "gc") == 0 {
				st.Script = -2
			}
		}
		c.Steps = append(c.Steps, st)
	}
	return c
}

func judged(c Case) *ev.Verdict {
	if classify(c) {
		j, _ := json.Marshal(c)
		ev.NonTrivial("histories", string(j))
		if ev.WantSample("histories") {
			ev.Sample("histories", describe(c))
		}
	}
	return oracle(c)
}

func describe(c Case) []string {
	var out []string
	slots := map[int][2]int{}
	for _, st := range c.Steps {
		if st.Script == -2 {
			out = append(out, "gc")
			continue
		}
		if st.Script >= 0 && st.Script < len(pool) {
			slots[st.Slot] = [2]int{st.Script, 0}
			out = append(out, fmt.Sprintf("slot %d := new %s %s %.40q", st.Slot, pool[st.Script].Kind, pool[st.Script].Class, pool[st.Script].Text))
		}
		s, ok := slots[st.Slot]
		if !ok || s[1] >= len(pool[s[0]].Ops) {
			continue
		}
		out = append(out, fmt.Sprintf("slot %d: %s", st.Slot, pool[s[0]].Ops[s[1]]))
		slots[st.Slot] = [2]int{s[0], s[1] + 1}
	}
	return out
}

func registerAll() {
	ev.Register("histories", judged)
	ev.Register("pairs", oracle)
}

func TestPropHistories(t *testing.T) {
	registerAll()
	ev.Rapid(t, "histories", ev.N(600, 6000), genCase, judged)
}

// all ordered pairs of scripts: run A completely, run B completely, re-inspect A's held results;
// B's results must equal B run alone
func TestPropPairs(t *testing.T) {
	registerAll()
	ev.KeepFirst("pairs")
	var n, bad int64
	idx := 0
	stride := ev.N(3, 1)
	for a := range pool {
		for b := range pool {
			idx++
			if !ev.Mine(idx) || (idx/7)%stride != 0 {
				continue
			}
			var c Case
			c.Steps = append(c.Steps, Step{Slot: 0, Script: a})
			for i := 1; i < len(pool[a].Ops); i++ {
				c.Steps = append(c.Steps, Step{Slot: 0, Script: -1})
			}
			c.Steps = append(c.Steps, Step{Slot: 1, Script: b})
			for i := 1; i < len(pool[b].Ops); i++ {
				c.Steps = append(c.Steps, Step{Slot: 1, Script: -1})
			}
			// B again in a third slot: must repeat B's results although A and B ran before
			c.Steps = append(c.Steps, Step{Slot: 2, Script: b})
			for i := 1; i < len(pool[b].Ops); i++ {
				c.Steps = append(c.Steps, Step{Slot: 2, Script: -1})
			}
			n++
			ev.NonTrivial("pairs", fmt.Sprintf("%d/%d", a, b))
			if n%500 == 1 {
				ev.Sample("pairs", describe(c))
			}
			if v := oracle(c); v != nil && ev.Report("pairs", c, v) {
				bad++
			}
		}
	}
	ev.Count("pairs", n)
	if stride == 1 {
		ev.Exhaustive("pairs", fmt.Sprintf("all ordered pairs of the %d scripts", len(pool)))
	}
	if bad > 0 {
		t.Errorf("VIOLATION-CANDIDATE pairs: %d", bad)
	}
}

// every script executed by a pristine process as its first action must give what this (used)
// process computes for it
func TestPropPristine(t *testing.T) {
	registerAll()
	if i, _ := ev.Shard(); i != 0 {
		t.Skip("not sharded")
	}
	// warm this process up with everything
	for _, sc := range pool {
		runScriptAlone(sc)
	}
	dir := t.TempDir()
	out := dir + "/pristine.jsonl"
	cmd := exec.Command(os.Args[0], "-test.run", "^TestWorker$", "-test.timeout", "120s")
	cmd.Env = append(os.Environ(), "C10_WORKER_OUT="+out, "VERIF_OUT=")
	if b, err := cmd.CombinedOutput(); err != nil {
		t.Fatalf("INCONCLUSIVE worker failed: %v\n%s", err, b)
	}
	f, err := os.Open(out)
	if err != nil {
		t.Fatalf("INCONCLUSIVE %v", err)
	}
	defer f.Close()
	sc := bufio.NewScanner(f)
	sc.Buffer(make([]byte, 1<<20), 1<<26)
	i := 0
	for sc.Scan() {
		var want []string
		json.Unmarshal(sc.Bytes(), &want)
		got := runScriptAlone(pool[i])
		ev.Count("pristine", 1)
		ev.NonTrivial("pristine", fmt.Sprint(i))
		for k := range want {
			if k < len(got) && got[k] != want[k] {
				v := ev.V("differs-from-pristine-process:"+pool[i].Kind+":"+pool[i].Ops[k], "script %d (%s) operation %s: a pristine process computes\n  %.300s\nthis process (after many other inputs)\n  %.300s", i, pool[i].Class, pool[i].Ops[k], want[k], got[k])
				if ev.Report("pristine", map[string]any{"script": i}, v) {
					t.Errorf("VIOLATION-CANDIDATE pristine: %s", v.Sig)
				}
				break
			}
		}
		i++
	}
	ev.Sample("pristine", pool[1])
}

// TestWorker: one pristine process per script would cost a process start each; instead the worker
// re-executes itself once per script so that each script really is the first thing a process handles.
func TestWorker(t *testing.T) {
	out := os.Getenv("C10_WORKER_OUT")
	if out == "" {
		t.Skip("worker mode only")
	}
	if one := os.Getenv("C10_WORKER_ONE"); one != "" {
		var i int
		fmt.Sscan(one, &i)
		j, _ := json.Marshal(runScriptAlone(pool[i]))
		f, _ := os.OpenFile(out, os.O_APPEND|os.O_WRONLY|os.O_CREATE, 0o644)
		f.Write(append(j, '\n'))
		f.Close()
		return
	}
	for i := range pool {
		cmd := exec.Command(os.Args[0], "-test.run", "^TestWorker$")
		cmd.Env = append(os.Environ(), fmt.Sprintf("C10_WORKER_ONE=%d", i))
		if b, err := cmd.CombinedOutput(); err != nil {
			t.Fatalf("worker %d: %v\n%s", i, err, b)
		}
	}
}

func TestPropRegressions(t *testing.T) {
	registerAll()
	ev.ReplayDir(t, ev.Root()+"/regress/C10")
}

func TestReplay(t *testing.T) {
	registerAll()
	ev.Replay(t)
}
