// C05 - type references resolve exactly; UsedUserTypes() lists exactly the names used.
package c05

import (
	"fmt"
	"regexp"
	"sort"
	"strings"
	"testing"

	"pgregory.net/rapid"

	"verif/internal/ev"
	"verif/internal/gen"
	"verif/internal/model"
	"verif/internal/ref/graph"
	"verif/internal/sut"
)

func TestMain(m *testing.M) { ev.Main(m, "C05") }

type Case struct {
	P      *model.Project `json:"project"`
	Extras int            `json:"extras"` // number of valid unreferenced types added for the metamorphic part
	Esc    []int          `json:"esc,omitempty"` // non-empty: one character of every quoted type name is spelled \uXXXX (which one: this stream)
	Refuse int            `json:"refuse,omitempty"` // > 0: the withheld types are first offered to the root with a text it has to refuse (which text: this number)
	Nest   bool           `json:"nest,omitempty"`   // every schema registers only the types its own text names (types behind a type are registered on that type)
}

var refusedTexts = []string{"", "# only a comment", "  \n ", "{", "### block\ncomment ###", "1 // {min: }"}

// text: the project as the library gets it; with Refuse set every withheld type is first offered to the root
// with a text that cannot be registered - a refused registration is no registration
func (c Case) text(p *model.Project) sut.Project {
	sp := p.Text(c.layout())
	sp.Nest = c.Nest
	if c.Refuse > 0 {
		for i, w := range p.Withheld {
			sp.Refused = append(sp.Refused, sut.Named{Name: w, Text: refusedTexts[(c.Refuse+i)%len(refusedTexts)]})
		}
	}
	return sp
}

// layout: the canonical layout, or the canonical layout with escapes inside the quoted type names
func (c Case) layout() *model.Layout {
	if len(c.Esc) == 0 {
		return nil
	}
	return &model.Layout{Esc: 1, Seq: c.Esc}
}

var notFound = regexp.MustCompile(`"(@[A-Za-z0-9_-]+)"`)

func sortedSet(ss []string) string {
	c := append([]string(nil), ss...)
	sort.Strings(c)
	return strings.Join(c, ",")
}

func keys(m map[string]int) []string {
	var out []string
	for k := range m {
		out = append(out, k)
	}
	sort.Strings(out)
	return out
}

func oracle(c Case) *ev.Verdict {
	p := c.P
	if p == nil || p.Root == nil {
		return nil
	}
	tp := c.text(p)
	ev.Guard("projects", c)
	o := sut.Observe(tp)
	ev.Unguard()
	if len(o.Escapes) > 0 {
		e := o.Escapes[0]
		return ev.V("panic:"+e.Op+":"+e.Frame, "%s panicked: %s\n%s", e.Op, e.Value, tp)
	}
	if o.Again != "" {
		return ev.V("second-call-differs:"+strings.SplitN(o.Again, " ", 2)[0], "%s\n%s", o.Again, tp)
	}
	if len(o.AddErr) > 0 {
		for n, e := range o.AddErr {
			return ev.V(fmt.Sprintf("harness:addtype-%d", e.Code), "AddType(%s) fails: %s\n%s", n, e, tp)
		}
	}
	// (1) used types: exactly the names the root text mentions
	mentioned, positions := graph.Mentions(p.Root)
	if o.UsedErr != nil {
		return ev.V("used:error", "UsedUserTypes() fails: %s\n%s", o.UsedErr, tp)
	}
	seen := map[string]bool{}
	for _, u := range o.Used {
		if seen[u] {
			return ev.V("used:duplicate", "UsedUserTypes() lists %s twice: %v\n%s", u, o.Used, tp)
		}
		seen[u] = true
	}
	if sortedSet(o.Used) != sortedSet(mentioned) {
		// which position was missed / invented
		for _, m := range mentioned {
			if !seen[m] {
				return ev.V("used:misses:"+positions[m][0], "UsedUserTypes() = %v does not list %s (mentioned as %v)\n%s", o.Used, m, positions[m], tp)
			}
		}
		return ev.V("used:invents", "UsedUserTypes() = %v, the text mentions %v\n%s", o.Used, mentioned, tp)
	}
	// (2) missing types
	missing := graph.Missing(p)
	if len(missing) == 0 {
		if o.Check != nil {
			return ev.V(fmt.Sprintf("resolve:rejects-complete:code-%d", o.Check.Code), "every reachable type is registered but Check() fails: %s\n%s", o.Check, tp)
		}
	} else {
		if o.Check == nil {
			m := keys(missing)[0]
			return ev.V("resolve:accepts-missing:"+positionOf(p, m), "type(s) %v are reachable and not registered but Check() accepts\n%s", keys(missing), tp)
		}
		if o.Check.Code != 1302 {
			m := keys(missing)[0]
			return ev.V(fmt.Sprintf("resolve:wrong-diagnostic:code-%d:%s", o.Check.Code, positionOf(p, m)), "type(s) %v are missing; Check() fails with %s instead of 'type not found'\n%s", keys(missing), o.Check, tp)
		}
		named := notFound.FindStringSubmatch(o.Check.Message)
		if named == nil || missing[named[1]] == 0 {
			return ev.V("resolve:names-wrong-type", "missing types %v; the diagnostic says %q\n%s", keys(missing), o.Check.Message, tp)
		}
	}
	// (2') the way an API project is built: the type objects are made once, a first root schema gets
	// all of them (withheld ones included) and is checked, a second root object with the same text
	// gets the registered subset of the SAME objects: its verdict is the one of the fresh build
	_, allOfPos := graph.Mentions(p.Root)
	usesAllOf := false
	scan := func(pos map[string][]string) {
		for _, pp := range pos {
			for _, x := range pp {
				if x == "allOf" {
					usesAllOf = true
				}
			}
		}
	}
	scan(allOfPos)
	for _, t := range p.Types {
		if t.Node != nil {
			_, pos := graph.Mentions(t.Node)
			scan(pos)
		}
	}
	if len(p.Withheld) > 0 && usesAllOf {
		// allOf is compiled in place: the first root schema that uses a type object merges the inherited
		// properties into it for good (known finding recorded under C10, which owns histories)
		ev.Excluded("projects", "shared type objects: project uses allOf (compiled in place, C10 known finding)")
	}
	if len(p.Withheld) > 0 && !usesAllOf && !c.Nest { // (with nested registrations a type object keeps what was registered on it)
		full := p.Clone()
		full.Withheld = nil
		fullText := full.Text(c.layout())
		fullText.Nest = c.Nest
		first := sut.Build(fullText)
		ev.Guard("projects", c)
		of := sut.ObserveBuilt(first)
		second := sut.BuildSharing(tp, first)
		o3 := sut.ObserveBuilt(second)
		ev.Unguard()
		if len(of.Escapes)+len(o3.Escapes) > 0 {
			e := append(of.Escapes, o3.Escapes...)[0]
			return ev.V("shared:panic:"+e.Op+":"+e.Frame, "%s panicked when the type objects were shared by two root schemas: %s\n%s", e.Op, e.Value, tp)
		}
		if sut.CodeOf(o3.Check) != sut.CodeOf(o.Check) || (o.Check != nil && o3.Check.Message != o.Check.Message) || sortedSet(o3.Used) != sortedSet(o.Used) {
			return ev.V("shared:verdict-differs", "type objects first registered (all of them, withheld %v included) in another root schema: Check() = %v, UsedUserTypes() = %v; with fresh objects %v, %v\n%s", p.Withheld, o3.Check, o3.Used, o.Check, o.Used, tp)
		}
		ev.Class("projects", "type objects shared with a complete root schema")
	}
	// (3) additional valid, unreferenced types change nothing
	if c.Extras > 0 {
		q := p.Clone()
		for i := 0; i < c.Extras; i++ {
			var n *model.Node
			switch i % 3 {
			case 0:
				n = model.Scalar("integer", "7", model.R("min", model.Num("1")))
			case 1:
				n = model.Obj().Add("z", model.Scalar("string", `"zz"`))
			default:
				n = model.Arr().Item(model.Scalar("boolean", "true"))
			}
			q.Types = append([]model.Type{{Name: fmt.Sprintf("@extra%d", i), Node: n}}, q.Types...)
			if i == 1 { // an extra type may refer to another registered extra type
				n.Add("e", model.Ref("@extra0"))
			}
		}
		o2 := sut.Observe(c.text(q))
		for n := range o2.TypeOpenAPI {
			if strings.HasPrefix(n, "@extra") {
				delete(o2.TypeOpenAPI, n)
			}
		}
		if o.Render() != o2.Render() {
			a, b := o.Render(), o2.Render()
			i := 0
			for i < len(a) && i < len(b) && a[i] == b[i] {
				i++
			}
			lo := i - 100
			if lo < 0 {
				lo = 0
			}
			return ev.V("extras:changed", "registering %d unreferenced valid types changes the result near ...%.200s vs ...%.200s\n%s", c.Extras, a[lo:], b[lo:], tp)
		}
	}
	return nil
}

func positionOf(p *model.Project, name string) string {
	check := func(n *model.Node) string {
		_, pos := graph.Mentions(n)
		if l := pos[name]; len(l) > 0 {
			return l[0]
		}
		return ""
	}
	if s := check(p.Root); s != "" {
		return s
	}
	for _, t := range p.Types {
		if t.Node != nil && !p.IsWithheld(t.Name) {
			if s := check(t.Node); s != "" {
				return "via-type:" + s
			}
		}
	}
	return "?"
}

// ---- generation: projects whose only possible defect is a missing type

type pool struct {
	str, integer, obj, arr, any []string // names by kind
}

// refNode places a reference to one of the pool types in a randomly chosen position under key k of obj
func addReference(t *rapid.T, obj *model.Node, i int, pl pool, label string) {
	key := fmt.Sprintf("p%d", i)
	// written keys that look like something else: a quoted key that reads like a type name (it is a plain
	// key, not a shortcut), a key that is itself wrapped in quotes, keys with escapes
	switch rapid.IntRange(0, 8).Draw(t, label+"oddkey") {
	case 0:
		key = fmt.Sprintf("@p%d", i)
	case 1:
		key = fmt.Sprintf("\"q%d\"", i)
	case 2:
		key = fmt.Sprintf("a\\b/%d\n", i)
	}
	pick := func(names []string, l string) string { return rapid.SampledFrom(names).Draw(t, label+l) }
	switch rapid.IntRange(0, 11).Draw(t, label+"pos") {
	case 11:
		// an empty container that is "this or a value of that type" (a rule-set with a further rule beside the name)
		// (the named type has to be of the container's kind: the example is judged against it)
		set := func(name string) model.Val {
			return model.Set(model.R("type", model.Str(name)), model.R("nullable", model.Bool(true)))
		}
		switch {
		case len(pl.arr) > 0 && rapid.Bool().Draw(t, label+"emptyarr"):
			obj.Add(key, model.Arr(model.R("or", model.List(set(pick(pl.arr, "emptyorarr")), model.Str("array")))))
		case len(pl.obj) > 0:
			obj.Add(key, model.Obj(model.R("or", model.List(model.Str("object"), set(pick(pl.obj, "emptyorobj"))))))
		default:
			obj.Add(key, model.Scalar("integer", "1"))
		}
	case 10:
		// a nested object that inherits on its own (below an object that may itself carry allOf)
		if len(pl.obj) > 0 {
			obj.Add(key, model.Obj(model.R("allOf", model.Str(pick(pl.obj, "nestedallof")))).Add("nested_own_"+key, model.Scalar("integer", "1")))
			if !obj.HasRule("allOf") && !obj.HasRule("additionalProperties") && rapid.Bool().Draw(t, label+"outerallof") {
				outer := pick(pl.obj, "outerallofname")
				obj.Rules = append(obj.Rules, model.R("allOf", model.Str(outer)))
			}
			return
		}
		obj.Add(key, model.Scalar("integer", "1"))
	case 0:
		obj.Add(key, model.Ref(pick(pl.any, "n")))
	case 1:
		nms := rapid.SliceOfNDistinct(rapid.SampledFrom(pl.any), 2, 3, func(s string) string { return s }).Draw(t, label+"choice")
		obj.Add(key, model.Choice(nms...))
	case 2:
		if len(pl.str) > 0 {
			ks := pick(pl.str, "k")
			n := 0
			for _, k := range obj.Keys {
				if k.Shortcut && k.Name == ks {
					n = 2 // (the same shortcut twice is a duplicate key)
				} else if k.Shortcut {
					n++
				}
			}
			if n >= 2 { // at most two key shortcuts per object, of different types
				obj.Add(key, model.Scalar("integer", "1"))
				return
			}
			obj.AddShortcut(ks, model.Scalar("integer", fmt.Sprint(i)))
			return
		}
		obj.Add(key, model.Scalar("integer", "1"))
	case 3:
		if len(pl.integer) > 0 {
			obj.Add(key, model.Scalar("integer", "7", model.R("type", model.Str(pick(pl.integer, "t")))))
		} else {
			obj.Add(key, model.Scalar("string", `"kk"`, model.R("type", model.Str(pick(pl.str, "t")))))
		}
	case 4:
		if len(pl.str) > 0 {
			obj.Add(key, model.Scalar("string", `"kk"`, model.R("or", model.List(model.Str(pick(pl.str, "o")), model.Str("boolean")))))
		} else {
			obj.Add(key, model.Scalar("integer", "1"))
		}
	case 5:
		if len(pl.integer) > 0 {
			first := []model.Rule{model.R("type", model.Str(pick(pl.integer, "os")))}
			if rapid.Bool().Draw(t, label+"osn") {
				first = append(first, model.R("nullable", model.Bool(true)))
			}
			obj.Add(key, model.Scalar("integer", "7", model.R("or", model.List(model.Set(first...), model.Set(model.R("type", model.Str("boolean")))))))
		} else {
			obj.Add(key, model.Scalar("integer", "1"))
		}
	case 6:
		obj.Add(key, model.Arr().Item(model.Ref(pick(pl.any, "item"))))
	case 7:
		if rapid.Bool().Draw(t, label+"apempty") {
			// an object without a single property, which only says what further properties look like
			e := model.Obj(model.R("additionalProperties", model.Str(pick(pl.any, "ap"))))
			if rapid.Bool().Draw(t, label+"apitem") {
				obj.Add(key, model.Arr().Item(e))
			} else {
				obj.Add(key, e)
			}
			return
		}
		if !obj.HasRule("additionalProperties") && !obj.HasRule("allOf") {
			obj.Rules = append(obj.Rules, model.R("additionalProperties", model.Str(pick(pl.any, "ap"))))
		}
		obj.Add(key, model.Scalar("integer", "1"))
	case 8:
		if len(pl.obj) > 0 && !obj.HasRule("allOf") && !obj.HasRule("additionalProperties") {
			obj.Rules = append(obj.Rules, model.R("allOf", model.Str(pick(pl.obj, "allof"))))
		}
		obj.Add(key, model.Scalar("integer", "1"))
	default:
		obj.Add(key, model.Obj().Add("deep", model.Arr().Item(model.Obj().Add("er", model.Ref(pick(pl.any, "deep"))))))
	}
}

func genCase(t *rapid.T) Case {
	p := &model.Project{}
	// leaf types; allOf parents use keys that nobody else uses
	p.Types = []model.Type{
		{Name: "@s1", Node: model.Scalar("string", `"kk"`)},
		{Name: "@s2", Node: model.Scalar("string", `"kk"`, model.R("minLength", model.Num("1")))},
		{Name: "@i1", Node: model.Scalar("integer", "7")},
		{Name: "@i2", Node: model.Scalar("integer", "7", model.R("or", model.List(model.Set(model.R("type", model.Str("integer")), model.R("min", model.Num("0"))), model.Set(model.R("type", model.Str("string"))))))},
		{Name: "@o1", Node: model.Obj().Add("o1_q", model.Scalar("integer", "1"))},
		{Name: "@a1", Node: model.Arr().Item(model.Scalar("integer", "1"))},
	}
	leaf := pool{str: []string{"@s1", "@s2"}, integer: []string{"@i1", "@i2"}, obj: []string{"@o1"}, arr: []string{"@a1"}, any: []string{"@s1", "@s2", "@i1", "@i2", "@o1", "@a1"}}
	all := leaf
	nm := rapid.IntRange(0, 2).Draw(t, "nmid")
	for i := 0; i < nm; i++ {
		name := fmt.Sprintf("@m%d", i)
		obj := model.Obj()
		np := rapid.IntRange(1, 2).Draw(t, name+"np")
		for j := 0; j < np; j++ {
			addReference(t, obj, j, leaf, fmt.Sprintf("%s.%d", name, j))
		}
		// keys of mid types must not collide with the root's keys when inherited
		for k := range obj.Keys {
			if !obj.Keys[k].Shortcut {
				obj.Keys[k].Name = fmt.Sprintf("m%d_%s", i, obj.Keys[k].Name)
			}
		}
		p.Types = append(p.Types, model.Type{Name: name, Node: obj})
		all.any = append(all.any, name)
		if !obj.HasRule("allOf") {
			hasShortcut := false
			for _, k := range obj.Keys {
				hasShortcut = hasShortcut || k.Shortcut
			}
			if !hasShortcut {
				all.obj = append(all.obj, name)
			}
		}
	}
	root := model.Obj()
	np := rapid.IntRange(1, 3).Draw(t, "rootnp")
	for j := 0; j < np; j++ {
		addReference(t, root, j, all, fmt.Sprintf("root.%d", j))
	}
	p.Root = root
	if rapid.IntRange(0, 9).Draw(t, "rootkind") == 0 {
		p.Root = model.Ref(rapid.SampledFrom(all.any).Draw(t, "rootref"))
	}
	// registered subset: reachable types are withheld with probability 1/4; unreachable ones stay
	// registered (they only refer to leaf types, which are then registered too unless reachable)
	reach := graph.Reachable(p)
	for _, ty := range p.Types {
		if reach[ty.Name] && rapid.IntRange(0, 3).Draw(t, "withhold"+ty.Name) == 0 {
			p.Withheld = append(p.Withheld, ty.Name)
		}
	}
	// unreachable registered types must only refer to registered types ("valid" extras)
	for changed := true; changed; {
		changed = false
		for _, ty := range p.Types {
			if reach[ty.Name] || p.IsWithheld(ty.Name) {
				continue
			}
			names, _ := graph.Mentions(ty.Node)
			for _, n := range names {
				if p.IsWithheld(n) {
					p.Withheld = append(p.Withheld, ty.Name)
					changed = true
					break
				}
			}
		}
	}
	c := Case{P: p, Extras: rapid.IntRange(0, 3).Draw(t, "extras")}
	if rapid.IntRange(0, 3).Draw(t, "escaped") == 0 {
		c.Esc = rapid.SliceOfN(rapid.IntRange(0, 11), 2, 8).Draw(t, "esc")
	}
	c.Nest = rapid.IntRange(0, 3).Draw(t, "nest") == 0
	if c.Nest {
		c.Esc = nil // (the harness decides who registers what by looking for the names in the texts)
	}
	if len(p.Withheld) > 0 && rapid.IntRange(0, 2).Draw(t, "refusedfirst") == 0 {
		c.Refuse = rapid.IntRange(1, 6).Draw(t, "refuse")
	}
	return c
}

func judged(c Case) *ev.Verdict {
	if c.P != nil && c.P.Root != nil {
		missing := graph.Missing(c.P)
		nt := false
		for m, d := range missing {
			pos := positionOf(c.P, m)
			ev.Class("projects", "withheld at "+pos)
			if d >= 2 || strings.Contains(pos, "or") || strings.Contains(pos, "allOf") || strings.Contains(pos, "additionalProperties") || strings.Contains(pos, "key") {
				nt = true
			}
		}
		if len(missing) == 0 {
			ev.Class("projects", "nothing missing")
		}
		if nt {
			ev.NonTrivial("projects", c.P.Text(nil).String())
			if ev.WantSample("projects") {
				ev.Sample("projects", c.P.Text(nil))
			}
		}
	}
	return oracle(c)
}

func registerAll() {
	ev.Register("projects", judged)
	ev.Register("positions", judgedPositions)
}

func TestPropProjects(t *testing.T) {
	registerAll()
	ev.Rapid(t, "projects", ev.N(8000, 25000), genCase, judged)
}

// ---- every reference position at every depth: chains root -> @t1 -> ... -> @td, d <= 3

// shape builds a type that refers to target from one reference position; kind is what a referrer
// can rely on, need is what the position demands of its target
type shape struct {
	name, kind, need string
	build            func(target string, depth int) *model.Node
}

func scalarI(rules ...model.Rule) *model.Node { return model.Scalar("integer", "7", rules...) }
func scalarS(rules ...model.Rule) *model.Node { return model.Scalar("string", `"kk"`, rules...) }

var shapes = []shape{
	{"value-shortcut", "obj", "any", func(n string, d int) *model.Node { return model.Obj().Add(fmt.Sprintf("p%d", d), model.Ref(n)) }},
	{"choice", "obj", "any", func(n string, d int) *model.Node {
		return model.Obj().Add(fmt.Sprintf("p%d", d), model.Choice(n, "@z"))
	}},
	{"key-shortcut", "obj", "str", func(n string, d int) *model.Node { return model.Obj().AddShortcut(n, model.Scalar("integer", "1")) }},
	{"property-type", "obj", "int", func(n string, d int) *model.Node {
		return model.Obj().Add(fmt.Sprintf("p%d", d), scalarI(model.R("type", model.Str(n))))
	}},
	{"property-or-item", "obj", "int", func(n string, d int) *model.Node {
		return model.Obj().Add(fmt.Sprintf("p%d", d), scalarI(model.R("or", model.List(model.Str(n), model.Str("boolean")))))
	}},
	{"property-or-rule-set", "obj", "int", func(n string, d int) *model.Node {
		return model.Obj().Add(fmt.Sprintf("p%d", d), scalarI(model.R("or", model.List(model.Set(model.R("type", model.Str("boolean"))), model.Set(model.R("type", model.Str(n)), model.R("nullable", model.Bool(true)))))))
	}},
	{"array-item", "obj", "any", func(n string, d int) *model.Node {
		return model.Obj().Add(fmt.Sprintf("p%d", d), model.Arr().Item(model.Ref(n)))
	}},
	{"additionalProperties", "obj", "any", func(n string, d int) *model.Node {
		return model.Obj(model.R("additionalProperties", model.Str(n))).Add(fmt.Sprintf("p%d", d), model.Scalar("integer", "1"))
	}},
	{"additionalProperties-no-property", "obj", "any", func(n string, d int) *model.Node {
		return model.Obj(model.R("additionalProperties", model.Str(n)))
	}},
	{"additionalProperties-nested-no-property", "obj", "any", func(n string, d int) *model.Node {
		return model.Obj().Add(fmt.Sprintf("p%d", d), model.Arr().Item(model.Obj(model.R("additionalProperties", model.Str(n)))))
	}},
	{"empty-object-or-rule-set", "obj", "obj", func(n string, d int) *model.Node {
		return model.Obj().Add(fmt.Sprintf("p%d", d), model.Obj(model.R("or", model.List(model.Set(model.R("type", model.Str(n)), model.R("nullable", model.Bool(true))), model.Str("object")))))
	}},
	{"empty-array-or-rule-set-root", "arr", "arr", func(n string, d int) *model.Node {
		return model.Arr(model.R("or", model.List(model.Str("array"), model.Set(model.R("type", model.Str(n)), model.R("nullable", model.Bool(true))))))
	}},
	{"allOf", "obj", "obj", func(n string, d int) *model.Node {
		return model.Obj(model.R("allOf", model.Str(n))).Add(fmt.Sprintf("own%d", d), model.Scalar("integer", "1"))
	}},
	{"nested", "obj", "any", func(n string, d int) *model.Node {
		return model.Obj().Add(fmt.Sprintf("p%d", d), model.Obj().Add("q", model.Arr().Item(model.Obj().Add("r", model.Ref(n)))))
	}},
	{"nested-allOf", "obj", "obj", func(n string, d int) *model.Node {
		return model.Obj().Add(fmt.Sprintf("p%d", d), model.Obj(model.R("allOf", model.Str(n))).Add(fmt.Sprintf("nown%d", d), model.Scalar("integer", "1")))
	}},
	{"scalar-type", "int", "int", func(n string, d int) *model.Node { return scalarI(model.R("type", model.Str(n))) }},
	{"scalar-or-item", "int", "int", func(n string, d int) *model.Node {
		return scalarI(model.R("or", model.List(model.Str(n), model.Str("boolean"))))
	}},
	{"scalar-or-rule-set", "int", "int", func(n string, d int) *model.Node {
		return scalarI(model.R("or", model.List(model.Set(model.R("type", model.Str(n))), model.Set(model.R("type", model.Str("boolean"))))))
	}},
	{"string-type", "str", "str", func(n string, d int) *model.Node { return scalarS(model.R("type", model.Str(n))) }},
	{"string-or-item", "str", "str", func(n string, d int) *model.Node {
		return scalarS(model.R("or", model.List(model.Str("boolean"), model.Str(n))))
	}},
	{"array", "arr", "any", func(n string, d int) *model.Node { return model.Arr().Item(model.Ref(n)) }},
	{"alias", "alias", "any", func(n string, d int) *model.Node { return model.Ref(n) }},
	{"alias-choice", "alias", "any", func(n string, d int) *model.Node { return model.Choice("@z", n) }},
}

func leafOf(need string) *model.Node {
	switch need {
	case "obj":
		return model.Obj().Add("leaf", model.Scalar("integer", "1"))
	case "str":
		return model.Scalar("string", `"kk"`)
	case "arr":
		return model.Arr().Item(model.Scalar("integer", "1"))
	}
	return model.Scalar("integer", "7")
}

func fits(kind, need string) bool { return need == "any" || kind == need }

func judgedPositions(c Case) *ev.Verdict { return oracle(c) }

func TestPropPositions(t *testing.T) {
	registerAll()
	ev.KeepFirst("positions")
	maxDepth := ev.N(2, 3)
	idx := 0
	var n, nt, bad int64
	var chain []int
	var rec func(need string)
	emit := func() {
		// chain[0] is the root's shape, chain[i] the shape of @t<i>; the last type is a leaf
		d := len(chain)
		names := make([]string, d+1)
		names[0] = "@main"
		for i := 1; i <= d; i++ {
			names[i] = fmt.Sprintf("@t%d", i)
		}
		for withheld := 0; withheld <= d; withheld++ { // 0 = everything registered
			idx++
			if !ev.Mine(idx) {
				continue
			}
			p := &model.Project{Types: []model.Type{{Name: "@z", Node: model.Scalar("integer", "7")}}}
			p.Root = shapes[chain[0]].build(names[1], 0)
			for i := 1; i < d; i++ {
				p.Types = append(p.Types, model.Type{Name: names[i], Node: shapes[chain[i]].build(names[i+1], i)})
			}
			p.Types = append(p.Types, model.Type{Name: names[d], Node: leafOf(shapes[chain[d-1]].need)})
			if withheld > 0 {
				p.Withheld = []string{names[withheld]}
			}
			c := Case{P: p}
			if idx%3 == 0 {
				c.Esc = []int{idx % 5, idx % 2, idx % 7}
			}
			n++
			if withheld > 0 {
				nt++
				var pos []string
				for _, k := range chain {
					pos = append(pos, shapes[k].name)
				}
				ev.Class("positions", fmt.Sprintf("withheld at depth %d", withheld))
				if nt%400 == 1 {
					ev.Sample("positions", p.Text(nil))
				}
			}
			if v := oracle(c); v != nil && ev.Report("positions", c, v) {
				bad++
			}
		}
	}
	rec = func(need string) {
		for k, sh := range shapes {
			if !fits(sh.kind, need) && !(len(chain) == 0) {
				continue
			}
			if len(chain) > 0 && sh.kind == "alias" && need != "any" {
				continue
			}
			chain = append(chain, k)
			emit()
			if len(chain) < maxDepth {
				rec(sh.need)
			}
			chain = chain[:len(chain)-1]
		}
	}
	rec("any")
	ev.Count("positions", n)
	ev.NonTrivialEnum("positions", nt)
	var names []string
	for _, sh := range shapes {
		names = append(names, sh.name)
	}
	ev.Exhaustive("positions", fmt.Sprintf("every chain root -> @t1 -> ... -> @td (d <= %d) in which each schema refers to the next from one of the %d reference positions %v (kinds permitting), with everything registered and with each single type of the chain withheld", maxDepth, len(shapes), names))
	if bad > 0 {
		t.Errorf("VIOLATION-CANDIDATE positions: %d", bad)
	}
}

func TestPropRegressions(t *testing.T) {
	registerAll()
	ev.ReplayDir(t, ev.Root()+"/regress/C05")
}

func TestReplay(t *testing.T) {
	registerAll()
	ev.Replay(t)
}

var _ = gen.Permutation
