package c12

import (
	"testing"

	"verif/internal/ev"
)

// FuzzDocument: the whole C12 oracle (verdict vs encoding/json, lexeme stream, tree, Len) on raw bytes;
// the first byte picks the trailing-characters option and the order of operations on one object.
func FuzzDocument(f *testing.F) {
	for _, s := range []string{`{}`, `[]`, `{"a":[1,2,{"b":null}]}`, ` [ true , false ] `, `"é😀"`, `-0.5e+10`, `{"":0,}`, `1.`, `tru`, `[1,]`,
		"{\"a\":1}\nx", `"\u12`, `{"a" 1}`, `0]`, `{}x`, `[[[[[[[[[[]]]]]]]]]]`, "\t\r\n 1 \t\r\n", `"a\qb"`, "\"a\x01b\"", `{"k":"v","k":"w"}`, `1e5`, `01`, `-`, `nul`} {
		for _, m := range []byte{0, 1, 2, 9} {
			f.Add(append([]byte{m}, s...))
		}
	}
	f.Fuzz(func(t *testing.T, data []byte) {
		if len(data) < 1 || len(data) > 2048 {
			return
		}
		m := int(data[0])
		c := Case{Text: string(data[1:]), Trailing: m%2 == 1}
		if k := (m / 2) % (len(orders) + 1); k > 0 {
			c.Order = orders[k-1]
		}
		ev.Fuzz(t, "document", oracle(c))
	})
}
