// C12 - the JSON document scanner accepts exactly RFC 8259; its lexemes rebuild the document.
package c12

import (
	"bytes"
	"encoding/json"
	"fmt"
	"strings"
	"testing"
	"unicode/utf8"

	"pgregory.net/rapid"

	"verif/internal/ev"
	"verif/internal/gen"
	"verif/internal/ref/jsonv"
	"verif/internal/sut"
)

func TestMain(m *testing.M) { ev.Main(m, "C12") }

type Case struct {
	Text     string `json:"text"`
	Trailing bool   `json:"trailing,omitempty"`
	// Order: "" = every operation on a fresh Document; otherwise the operations (c Check, l Len,
	// x whole lexeme stream) run in this order on one Document object
	Order string `json:"order,omitempty"`
}

// a digit = read that many lexemes and stop there (an iteration left half-way, then asked something else);
// every order holds c, l and x (the oracle judges all three answers) and a digit is followed by c or l,
// which start from the beginning again, before x (x after a digit alone would be the rest of the stream)
var orders = []string{"lcx", "clx", "xlc", "lxc", "cxl", "llccx", "xcxl", "1clx", "2lcx", "4lxc", "5lcx", "7clx", "9lxc", "3c2lx", "6cxl"}

func isBlank(c byte) bool { return c == ' ' || c == '\t' || c == '\n' || c == '\r' }

// firstValue: does encoding/json's streaming decoder read one value from the start, and where does it end
func firstValue(s string) (ok bool, end int) {
	d := json.NewDecoder(strings.NewReader(s))
	var raw json.RawMessage
	if err := d.Decode(&raw); err != nil {
		return false, 0
	}
	return true, int(d.InputOffset())
}

// somePrefixValid: is some prefix of s a complete JSON text (shortest-prefix reading of "value followed by anything")
func somePrefixValid(s string) bool {
	for i := 1; i <= len(s); i++ {
		if json.Valid([]byte(s[:i])) {
			return true
		}
	}
	return false
}

func lastTokenClass(s string) string {
	t := strings.TrimRight(s, " \t\r\n")
	if len(t) < len(s) {
		return "blank"
	}
	if t == "" {
		return "empty"
	}
	c := t[len(t)-1]
	switch {
	case c >= '0' && c <= '9':
		return "digit"
	case strings.IndexByte("{}[],:\"\\/.+-", c) >= 0:
		return string(c)
	case c == 'e' || c == 'E':
		return "e"
	case c >= 'a' && c <= 'z':
		return "letter"
	case c < 0x20:
		return "control"
	case c >= 0x80:
		return "non-ascii"
	}
	return "other"
}

func oracle(c Case) *ev.Verdict {
	s := c.Text
	if !utf8.ValidString(s) {
		return nil
	}
	var o *sut.DocOutcome
	if c.Order == "" {
		o = sut.ObserveDoc(s, c.Trailing, true)
	} else {
		o = sut.ObserveDocSeq(s, c.Trailing, c.Order)
	}
	if len(o.Escapes) > 0 {
		e := o.Escapes[0]
		return ev.V("panic:"+e.Op+":"+e.Frame, "%s panicked on %q: %s", e.Op, s, e.Value)
	}
	if o.Unstable != "" {
		return ev.V("same-object:unstable", "%q: %s", s, o.Unstable)
	}
	mode := "strict"
	if c.Order != "" {
		mode = "same-object:strict"
	}
	var want bool
	var wantLen int
	if !c.Trailing {
		want = json.Valid([]byte(s))
		wantLen = len(strings.TrimRight(s, " \t\r\n"))
	} else {
		mode = strings.TrimSuffix(mode, "strict") + "trailing"
		a, end := firstValue(s)
		b := somePrefixValid(s)
		if a != b {
			return nil // the two readings of "a JSON value followed by anything" differ: not asserted
		}
		want, wantLen = a, end
	}
	got := o.Check == nil
	if got != want {
		if got {
			return ev.V(mode+":accepts:after-"+lastTokenClass(s), "Check() accepts %q which is not a JSON text", s)
		}
		return ev.V(mode+":rejects:code-"+fmt.Sprint(o.Check.Code), "Check() rejects %q (%s) although it is a JSON text", s, o.Check)
	}
	if !want {
		return nil // the property says nothing about Len()/NextLexeme of a rejected document
	}
	if o.LenErr != nil {
		return ev.V(mode+":len-verdict", "Len() fails with %v although Check() accepts %q", o.LenErr, s)
	}
	if o.LexErr != nil {
		return ev.V(mode+":lexeme-verdict", "the NextLexeme stream ends with %v although Check() accepts %q", o.LexErr, s)
	}
	if int(o.Len) != wantLen {
		return ev.V(mode+":len", "Len(%q) = %d, the value ends at %d", s, o.Len, wantLen)
	}
	// lexeme stream
	val := strings.TrimLeft(s[:wantLen], " \t\r\n")
	ref, err := jsonv.Parse([]byte(val))
	if err != nil {
		return ev.V("harness:reference", "reference decoder rejects %q: %v", val, err)
	}
	tree, v := rebuild(s, o.Lexemes, mode)
	if v != nil {
		return v
	}
	if tree.Canon() != ref.Canon() {
		return ev.V(mode+":tree", "tree rebuilt from the lexemes of %q is %s, an independent decoder gives %s", s, tree.Canon(), ref.Canon())
	}
	return nil
}

var pairs = map[string]string{"literal-end": "literal-begin", "object-end": "object-begin", "key-end": "key-begin",
	"value-end": "value-begin", "array-end": "array-begin", "item-end": "item-begin"}

type frame struct {
	typ   string
	begin uint
	val   *jsonv.Value
	key   string
}

// rebuild checks stack discipline and spans and reconstructs the value
func rebuild(s string, lex []sut.Lex, mode string) (*jsonv.Value, *ev.Verdict) {
	var stack []frame
	var root *jsonv.Value
	attach := func(v *jsonv.Value) *ev.Verdict {
		// find the nearest container
		for i := len(stack) - 1; i >= 0; i-- {
			switch stack[i].typ {
			case "object-begin":
				// the pending key sits in a value-begin frame above
				k := ""
				found := false
				for j := len(stack) - 1; j > i; j-- {
					if stack[j].typ == "value-begin" {
						k, found = stack[j].key, true
					}
				}
				if !found {
					return ev.V(mode+":lexemes:value-without-key", "value outside value-begin in %q", s)
				}
				stack[i].val.Keys = append(stack[i].val.Keys, k)
				stack[i].val.Vals = append(stack[i].val.Vals, v)
				return nil
			case "array-begin":
				stack[i].val.Items = append(stack[i].val.Items, v)
				return nil
			}
		}
		if root != nil {
			return ev.V(mode+":lexemes:two-roots", "two top-level values in the lexeme stream of %q", s)
		}
		root = v
		return nil
	}
	pendingKey := ""
	for i, l := range lex {
		if !(l.Begin <= l.End && int(l.End) < len(s)) {
			return nil, ev.V(mode+":lexemes:span", "lexeme %d %s has span %d-%d outside the %d-byte content %q", i, l.Type, l.Begin, l.End, len(s), s)
		}
		if l.Value != "\x00(long value not kept)" && l.Value != s[l.Begin:l.End+1] { // (the harness elides values of 8 KB and more in documents over 64 KB)
			return nil, ev.V(mode+":lexemes:value", "lexeme %d %s value %q is not content[%d:%d]", i, l.Type, l.Value, l.Begin, l.End+1)
		}
		if open, isEnd := pairs[l.Type]; isEnd {
			if len(stack) == 0 || stack[len(stack)-1].typ != open {
				return nil, ev.V(mode+":lexemes:nesting", "lexeme %d %s does not close the innermost open lexeme in %q", i, l.Type, s)
			}
			top := stack[len(stack)-1]
			if top.begin != l.Begin {
				return nil, ev.V(mode+":lexemes:begin-mismatch", "lexeme %d %s begins at %d, its opening lexeme at %d in %q", i, l.Type, l.Begin, top.begin, s)
			}
			stack = stack[:len(stack)-1]
			switch l.Type {
			case "literal-end":
				lit, err := jsonv.Parse([]byte(l.Value))
				if err != nil || lit.Kind == jsonv.Array || lit.Kind == jsonv.Object {
					return nil, ev.V(mode+":lexemes:literal-bytes", "literal lexeme covers %q which is not exactly one scalar literal (in %q)", l.Value, s)
				}
				if v := attach(lit); v != nil {
					return nil, v
				}
			case "key-end":
				k, err := jsonv.Unquote(l.Value)
				if err != nil {
					return nil, ev.V(mode+":lexemes:key-bytes", "key lexeme covers %q which is not exactly one string literal (in %q)", l.Value, s)
				}
				pendingKey = k
			case "object-end", "array-end":
				if (l.Type == "object-end") != (s[l.End] == '}') || (l.Type == "array-end") != (s[l.End] == ']') {
					return nil, ev.V(mode+":lexemes:container-span", "%s ends at byte %q in %q", l.Type, s[l.End], s)
				}
				if v := attach(top.val); v != nil {
					return nil, v
				}
			}
			continue
		}
		f := frame{typ: l.Type, begin: l.Begin}
		switch l.Type {
		case "object-begin":
			f.val = &jsonv.Value{Kind: jsonv.Object}
		case "array-begin":
			f.val = &jsonv.Value{Kind: jsonv.Array}
		case "value-begin":
			f.key = pendingKey
		case "literal-begin", "key-begin", "item-begin":
		default:
			return nil, ev.V(mode+":lexemes:unexpected-type", "unexpected lexeme %s in a JSON document %q", l.Type, s)
		}
		if l.Begin != l.End {
			return nil, ev.V(mode+":lexemes:begin-span", "opening lexeme %d %s spans %d-%d", i, l.Type, l.Begin, l.End)
		}
		stack = append(stack, f)
	}
	if len(stack) != 0 {
		return nil, ev.V(mode+":lexemes:unclosed", "lexeme stream of %q ends with %d open lexemes", s, len(stack))
	}
	if root == nil {
		return nil, ev.V(mode+":lexemes:empty", "no value in the lexeme stream of accepted %q", s)
	}
	return root, nil
}

// the 24 byte classes of RFC 8259 plus composite tokens that put the scanner deep inside literals
var single = []string{"{", "}", "[", "]", ",", ":", "\"", "\\", "/", "b", "u", "0", "1", "-", "+", ".", "e", "E", "t", "r", "a", "l", "s", "n", " ", "\n", "x", "\x01", "é"}
var composite = []string{"true", "false", "null", "tru", "fals", "nul", "\"\\u", "\"\\u0", "\"\\u00", "\"\\u000", "1.", "1e", "1e+", "\"a\"", "-0"}

func nontrivial(s string, accepted bool) bool {
	if len(s) < 2 {
		return false
	}
	if accepted {
		return true
	}
	// rejected at its last byte / at end of input: the text without its last byte is still a viable prefix
	return json.Valid([]byte(s[:len(s)-1])) || viablePrefix(s)
}

// viablePrefix: s can be extended to a valid document (checked with the stdlib scanner: the syntax
// error, if any, is "unexpected end of JSON input")
func viablePrefix(s string) bool {
	var v any
	err := json.Unmarshal([]byte(s), &v)
	if err == nil {
		return true
	}
	se, ok := err.(*json.SyntaxError)
	return ok && strings.Contains(se.Error(), "unexpected end")
}

func enumerate(t *testing.T, name string, alpha []string, maxLen int) {
	ev.KeepFirst(name)
	var n, nt, bad int64
	gen.Shortlex(alpha, maxLen, ev.Mine, func(b []byte, toks []int) {
		s := string(b)
		for _, tr := range []bool{false, true} {
			c := Case{Text: s, Trailing: tr}
			n++
			v := oracle(c)
			if v != nil && ev.Report(name, c, v) {
				bad++
			}
			// the same operations on one Document object: every order for the shortest texts, one
			// order (rotating) for the others
			h := int(n)
			for i, ord := range orders {
				if len(toks) > 2 && i != h%len(orders) {
					continue
				}
				c.Order = ord
				n++
				if v := oracle(c); v != nil && ev.Report(name, c, v) {
					bad++
				}
			}
		}
		if utf8.Valid(b) && nontrivial(s, json.Valid(b)) {
			nt++
			if len(s) >= maxLen && json.Valid(b) && ev.WantSample(name) {
				ev.Sample(name, Case{Text: s})
			}
		}
	})
	ev.Count(name, n)
	ev.NonTrivialEnum(name, nt)
	ev.Exhaustive(name, fmt.Sprintf("every concatenation of <= %d tokens from %q, with and without the trailing-characters option, on fresh Documents and with the operations on one Document (orders %v: all of them up to 2 tokens, one in rotation beyond)", maxLen, alpha, orders))
	if bad > 0 {
		t.Errorf("VIOLATION-CANDIDATE %s: %d cases", name, bad)
	}
}

func TestPropEnumerate(t *testing.T) {
	registerAll()
	enumerate(t, "tokens", append(append([]string{}, single...), composite...), ev.N(3, 4))
	enumerate(t, "bytes", single, ev.N(4, 5))
}

func judged(c Case) *ev.Verdict {
	if utf8.ValidString(c.Text) && nontrivial(c.Text, json.Valid([]byte(c.Text))) {
		ev.NonTrivial("random", c.Text)
		if json.Valid([]byte(c.Text)) {
			ev.Class("random", "valid")
		} else {
			ev.Class("random", "invalid-after-"+lastTokenClass(c.Text[:len(c.Text)-1]))
		}
		if ev.WantSample("random") && len(c.Text) > 20 {
			ev.Sample("random", c)
		}
	}
	return oracle(c)
}

func registerAll() {
	ev.Register("tokens", oracle)
	ev.Register("bytes", oracle)
	ev.Register("random", judged)
	ev.Register("deep", judgedDeep)
	ev.Register("deep-random", judgedDeep)
}

func TestPropRandom(t *testing.T) {
	registerAll()
	alpha := append(append([]string{}, single...), composite...)
	ev.Rapid(t, "random", ev.N(5000, 50000), func(t *rapid.T) Case {
		v := gen.JSONValue(t, gen.JSONOpts{Exponents: true, DupKeys: true, Depth: 4})
		s := gen.EncodeJSONDoc(t, v)
		switch rapid.IntRange(0, 3).Draw(t, "mutations") {
		case 0:
		case 1:
			s = gen.Mutate(t, s, alpha)
		case 2:
			s = gen.Mutate(t, gen.Mutate(t, s, alpha), alpha)
		default:
			s += rapid.SampledFrom([]string{" x", "]", "1", "\n{}", ",", "\"", " true"}).Draw(t, "tail")
		}
		return Case{Text: s, Trailing: rapid.Bool().Draw(t, "trailing"), Order: rapid.SampledFrom(append([]string{"", ""}, orders...)).Draw(t, "order")}
	}, judged)
}

// nest wraps core in the containers named by shape, outermost first: 'a' = array, 'o' = object,
// 'A' / 'O' = the same with a sibling before and after
func nest(shape string, core string) string {
	var open, close strings.Builder
	stack := []string{}
	for _, c := range shape {
		switch c {
		case 'a':
			open.WriteString("[")
			stack = append(stack, "]")
		case 'A':
			open.WriteString("[1,")
			stack = append(stack, ",\"z\"]")
		case 'o':
			open.WriteString(`{"k":`)
			stack = append(stack, "}")
		default:
			open.WriteString(`{"a":[],"k":`)
			stack = append(stack, `,"z":{}}`)
		}
	}
	for i := len(stack) - 1; i >= 0; i-- {
		close.WriteString(stack[i])
	}
	return open.String() + core + close.String()
}

func deepShape(kind int, depth int) string {
	var b strings.Builder
	for i := 0; i < depth; i++ {
		b.WriteByte([]string{"a", "o", "ao", "AO", "aaoO", "oAa"}[kind][i%len([]string{"a", "o", "ao", "AO", "aaoO", "oAa"}[kind])])
	}
	return b.String()
}

func judgedDeep(c Case) *ev.Verdict {
	d := 0
	max := 0
	inStr := false
	for i := 0; i < len(c.Text); i++ {
		switch ch := c.Text[i]; {
		case ch == '"':
			inStr = !inStr
		case inStr:
		case ch == '[' || ch == '{':
			d++
			if d > max {
				max = d
			}
		case ch == ']' || ch == '}':
			d--
		}
	}
	if max >= 8 {
		ev.NonTrivial("deep", c.Text+c.Order)
		switch {
		case max >= 64:
			ev.Class("deep", "nesting depth >= 64")
		case max >= 19:
			ev.Class("deep", "nesting depth 19..63")
		default:
			ev.Class("deep", "nesting depth 8..18")
		}
		if json.Valid([]byte(c.Text)) {
			ev.Class("deep", "valid")
		}
		if ev.WantSample("deep") && len(c.Text) < 400 {
			ev.Sample("deep", c)
		}
	}
	return oracle(c)
}

// nesting depth is the one dimension no length-bounded enumeration reaches: every depth up to 160
// in six container patterns, balanced and with one closer missing / superfluous / of the wrong kind,
// then random shapes up to depth 400
func TestPropDeep(t *testing.T) {
	registerAll()
	ev.KeepFirst("deep")
	idx := 0
	var bad int64
	for depth := 1; depth <= ev.N(160, 400); depth++ {
		for kind := 0; kind < 6; kind++ {
			for variant := 0; variant < 4; variant++ {
				idx++
				if !ev.Mine(idx) {
					continue
				}
				s := nest(deepShape(kind, depth), []string{"1", `"s"`, "[]", "{}", "null"}[(depth+kind)%5])
				switch variant {
				case 1:
					s = s[:len(s)-1]
				case 2:
					s += s[len(s)-1:]
				case 3:
					mid := len(s) / 2
					for mid < len(s) && s[mid] != ']' && s[mid] != '}' {
						mid++
					}
					if mid < len(s) {
						s = s[:mid] + map[byte]string{']': "}", '}': "]"}[s[mid]] + s[mid+1:]
					}
				}
				for _, tr := range []bool{false, true} {
					c := Case{Text: s, Trailing: tr, Order: append([]string{""}, orders...)[idx%(len(orders)+1)]}
					if v := judgedDeep(c); v != nil && ev.Report("deep", c, v) {
						bad++
					}
					ev.Count("deep", 1)
				}
			}
		}
	}
	// ... and a few depths up to the limit of the reference decoder (encoding/json reads 10000 levels)
	for _, depth := range []int{1000, 2500, 4999, 5000, 5001, 7500, 9999, 10000} {
		for kind := 0; kind < 6; kind++ {
			idx++
			if !ev.Mine(idx) {
				continue
			}
			s := nest(deepShape(kind, depth), []string{"1", `"s"`, "[]", "{}", "null"}[(depth+kind)%5])
			if !json.Valid([]byte(s)) {
				continue // (a pattern that opens more than one container per level goes beyond the decoder's limit)
			}
			c := Case{Text: s, Trailing: kind%2 == 1}
			if v := judgedDeep(c); v != nil && ev.Report("deep", c, v) {
				bad++
			}
			ev.Count("deep", 1)
		}
	}
	if bad > 0 {
		t.Errorf("VIOLATION-CANDIDATE deep: %d cases", bad)
	}
}

func TestPropDeepRandom(t *testing.T) {
	registerAll()
	ev.Rapid(t, "deep-random", ev.N(600, 6000), func(t *rapid.T) Case {
		depth := rapid.SampledFrom([]int{10, 18, 19, 20, 33, 36, 40, 64, 65, 100, 130, 257, 400}).Draw(t, "depth")
		var sh strings.Builder
		for i := 0; i < depth; i++ {
			sh.WriteByte(rapid.SampledFrom([]byte("aaooAO")).Draw(t, "c"))
		}
		v := gen.JSONValue(t, gen.JSONOpts{Exponents: true, Depth: 2})
		s := nest(sh.String(), gen.EncodeJSON(t, v))
		if rapid.IntRange(0, 3).Draw(t, "mutate") == 0 {
			s = gen.Mutate(t, s, []string{"]", "}", "[", "{", ",", ":", "1"})
		}
		return Case{Text: s, Trailing: rapid.Bool().Draw(t, "trailing"), Order: rapid.SampledFrom(append([]string{"", ""}, orders...)).Draw(t, "order")}
	}, func(c Case) *ev.Verdict {
		v := judgedDeep(c)
		return v
	})
}

func TestPropRegressions(t *testing.T) {
	registerAll()
	ev.ReplayDir(t, ev.Root()+"/regress/C12")
}

func TestReplay(t *testing.T) {
	registerAll()
	ev.Replay(t)
}

var _ = bytes.Equal
