package zz
import ("testing"; "fmt"; "github.com/jsightapi/jsight-schema-core/notations/jschema")
func TestZZ(t *testing.T) {
	res := map[string]int{}
	for i := 0; i < 300; i++ {
		root := jschema.New("@main", `{"x": @a}`)
		a := jschema.New("@a", `{"y": @b}`)
		b := jschema.New("@b", `{"z": @c}`)
		c := jschema.New("@c", `1 // {or: [{type: "integer", min: 0}, {type: "string"}]}`)
		b.AddType("@c", c)
		a.AddType("@b", b)
		root.AddType("@a", a)
		res[fmt.Sprint(root.Check())]++
	}
	for k, v := range res { t.Logf("%d x %.150s", v, k) }
}
