package zz
import ("testing"; "encoding/json"; "github.com/jsightapi/jsight-schema-core/notations/jschema"; "github.com/jsightapi/jsight-schema-core/openapi")
func TestZZ(t *testing.T) {
	for _, p := range []string{`@a // {or: ["@a", "@b"]}`, `@a // {or: ["@b", "@a"]}`, `@a // {or: ["@b", "string"]}`, `@a // {or: [{type: "@a"}, {type:"string", minLength: 1}]}`, `@a | @b // {type: "mixed"}`, `@a // {type: "@a"}`,`{"k": @a // {type: "@a", optional: true}
}`} {
	root := jschema.New("@main", p)
	root.AddType("@a", jschema.New("@a", `1`))
	root.AddType("@b", jschema.New("@b", `"s"`))
	err := root.Check()
	a, _ := root.GetAST()
	b, _ := json.Marshal(a.Rules)
	ex, exerr := root.Example()
	var o []byte
	if err == nil { o, _ = openapi.NewSchemaObject(root).MarshalJSON() }
	t.Logf("%s\n  check=%v\n  value=%q rules=%s\n  ex=%s %v\n oas=%s", p, err, a.Value, b, ex, exerr, o)
	}
}
