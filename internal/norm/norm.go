// Package norm normalises observable outputs for comparisons that the properties define "modulo"
// something (notes modulo their own line breaks, hex addresses, ...).
package norm

import (
	"encoding/json"
	"regexp"
	"strings"
)

var blankRun = regexp.MustCompile(`[ \t\r\n]+`)

// Note collapses blank runs and line breaks inside a free-text note and trims it.
// (Only space, TAB, CR and LF are blanks of the language; a no-break space, an ideographic space, a form feed
// at either end are characters of the note.)
func Note(s string) string { return strings.Trim(blankRun.ReplaceAllString(s, " "), " ") }

// AST re-renders an AST JSON with every "Comment" value normalised by Note.
func AST(astJSON string) string {
	var v any
	d := json.NewDecoder(strings.NewReader(astJSON))
	d.UseNumber()
	if err := d.Decode(&v); err != nil {
		return astJSON
	}
	walk(v)
	// encoding/json sorts map keys: fine for equality comparisons, rule order is kept separately below
	b, _ := json.Marshal(v)
	return string(b) + "|order:" + strings.Join(RuleOrder(astJSON), ",")
}

func walk(v any) {
	switch x := v.(type) {
	case map[string]any:
		for k, c := range x {
			if k == "Comment" {
				if s, ok := c.(string); ok {
					x[k] = Note(s)
				}
			} else {
				walk(c)
			}
		}
	case []any:
		for _, c := range x {
			walk(c)
		}
	}
}

// RuleOrder lists the keys of every "Rules"/"Properties" object in document order (encoding/json's
// map decoding loses it).
func RuleOrder(astJSON string) []string {
	var out []string
	d := json.NewDecoder(strings.NewReader(astJSON))
	type frame struct {
		obj      bool
		key      string
		expectK  bool
		tracking bool
	}
	var st []frame
	lastKey := ""
	for {
		t, err := d.Token()
		if err != nil {
			break
		}
		switch x := t.(type) {
		case json.Delim:
			switch x {
			case '{':
				tr := lastKey == "Rules" || lastKey == "Properties"
				st = append(st, frame{obj: true, expectK: true, tracking: tr})
				if tr {
					out = append(out, "{")
				}
			case '[':
				st = append(st, frame{})
			case '}', ']':
				if len(st) > 0 {
					if st[len(st)-1].tracking {
						out = append(out, "}")
					}
					st = st[:len(st)-1]
				}
				if len(st) > 0 && st[len(st)-1].obj {
					st[len(st)-1].expectK = true
				}
			}
			continue
		case string:
			if len(st) > 0 && st[len(st)-1].obj && st[len(st)-1].expectK {
				lastKey = x
				st[len(st)-1].expectK = false
				if st[len(st)-1].tracking {
					out = append(out, x)
				}
				continue
			}
		}
		if len(st) > 0 && st[len(st)-1].obj {
			st[len(st)-1].expectK = true
		}
	}
	return out
}

var hexAddr = regexp.MustCompile(`0x[0-9a-fA-F]{6,}`)

// MaskAddr replaces heap addresses.
func MaskAddr(s string) string { return hexAddr.ReplaceAllString(s, "0xADDR") }
