package dec

import (
	"math/big"
	"testing"
)

// cross-check against big.Rat on all grammar strings up to length 5 over a small alphabet
func TestAgainstRat(t *testing.T) {
	alpha := []byte("019-.e+")
	var all []string
	var rec func(s []byte, l int)
	rec = func(s []byte, l int) {
		if d := Parse(string(s)); d != nil {
			all = append(all, string(s))
		}
		if l == 0 {
			return
		}
		for _, c := range alpha {
			rec(append(s, c), l-1)
		}
	}
	rec(nil, 5)
	if len(all) < 1000 {
		t.Fatalf("only %d numbers", len(all))
	}
	rats := make([]*big.Rat, len(all))
	decs := make([]*Dec, len(all))
	for i, s := range all {
		r, ok := new(big.Rat).SetString(s)
		if !ok {
			t.Fatalf("big.Rat rejects %q", s)
		}
		rats[i], decs[i] = r, Parse(s)
		if decs[i].Rat().Cmp(r) != 0 {
			t.Fatalf("%q: Rat() = %v want %v", s, decs[i].Rat(), r)
		}
		k := int64(0)
		x := new(big.Rat).Set(r)
		for !x.IsInt() {
			x.Mul(x, big.NewRat(10, 1))
			k++
		}
		if decs[i].FracDigits().Int64() != k {
			t.Fatalf("%q: FracDigits %v want %d", s, decs[i].FracDigits(), k)
		}
	}
	for i := range all {
		for j := range all {
			if decs[i].Cmp(decs[j]) != rats[i].Cmp(rats[j]) {
				t.Fatalf("Cmp(%q,%q) = %d want %d", all[i], all[j], decs[i].Cmp(decs[j]), rats[i].Cmp(rats[j]))
			}
		}
	}
	for _, bad := range []string{"", "-", "01", "1.", ".1", "1e", "1e+", "+1", "1e1.0", "0x1", " 1", "1 ", "--1", "1..2"} {
		if Parse(bad) != nil {
			t.Fatalf("accepted %q", bad)
		}
	}
	huge := Parse("1e99999999999999999999999")
	if huge.Cmp(Parse("10")) != 1 || Parse("-1e99999999999999999999999").Cmp(Parse("-10")) != -1 || Parse("1e-99999999999999999999999").Cmp(Parse("0.0001")) != -1 {
		t.Fatal("huge exponents")
	}
}
