// Package dec is an exact decimal reference: parse by the JSON number grammar, hold the value as
// sign x coefficient x 10^exponent with an unbounded exponent, compare exactly.
// It shares no code with the library's json.Number; the self-test cross-checks it with math/big.Rat.
package dec

import (
	"math/big"
	"regexp"
	"strings"
)

var Grammar = regexp.MustCompile(`^-?(0|[1-9][0-9]*)(\.[0-9]+)?([eE][+-]?[0-9]+)?$`)

// Dec is +-Coef x 10^Exp; Coef has neither leading nor trailing zeros and is "" for zero.
type Dec struct {
	Neg  bool // sign as written (a zero may be written negative; it still equals zero)
	Coef string
	Exp  *big.Int
}

// Parse returns nil when s is not a JSON number.
func Parse(s string) *Dec {
	if !Grammar.MatchString(s) {
		return nil
	}
	d := &Dec{Exp: new(big.Int)}
	if strings.HasPrefix(s, "-") {
		d.Neg = true
		s = s[1:]
	}
	mant, exp := s, ""
	if i := strings.IndexAny(s, "eE"); i >= 0 {
		mant, exp = s[:i], s[i+1:]
	}
	if exp != "" {
		d.Exp.SetString(strings.TrimPrefix(exp, "+"), 10)
	}
	ip, fp := mant, ""
	if i := strings.IndexByte(mant, '.'); i >= 0 {
		ip, fp = mant[:i], mant[i+1:]
	}
	d.Exp.Sub(d.Exp, big.NewInt(int64(len(fp))))
	digits := strings.TrimLeft(ip+fp, "0")
	t := strings.TrimRight(digits, "0")
	d.Exp.Add(d.Exp, big.NewInt(int64(len(digits)-len(t))))
	d.Coef = t
	if t == "" {
		d.Exp.SetInt64(0)
	}
	return d
}

func (d *Dec) IsZero() bool { return d.Coef == "" }

// Sign is -1, 0, +1.
func (d *Dec) Sign() int {
	if d.IsZero() {
		return 0
	}
	if d.Neg {
		return -1
	}
	return 1
}

// adjusted exponent: position of the most significant digit
func (d *Dec) top() *big.Int {
	return new(big.Int).Add(d.Exp, big.NewInt(int64(len(d.Coef))))
}

func cmpAbs(a, b *Dec) int {
	if a.IsZero() || b.IsZero() {
		switch {
		case a.IsZero() && b.IsZero():
			return 0
		case a.IsZero():
			return -1
		}
		return 1
	}
	if c := a.top().Cmp(b.top()); c != 0 {
		return c
	}
	// same magnitude: compare digit strings left-aligned
	x, y := a.Coef, b.Coef
	for len(x) < len(y) {
		x += "0"
	}
	for len(y) < len(x) {
		y += "0"
	}
	return strings.Compare(x, y)
}

// Cmp compares the denoted values.
func (a *Dec) Cmp(b *Dec) int {
	sa, sb := a.Sign(), b.Sign()
	switch {
	case sa != sb:
		if sa < sb {
			return -1
		}
		return 1
	case sa == 0:
		return 0
	case sa > 0:
		return cmpAbs(a, b)
	}
	return -cmpAbs(a, b)
}

// FracDigits is the least k >= 0 such that value x 10^k is an integer.
func (d *Dec) FracDigits() *big.Int {
	if d.Exp.Sign() >= 0 {
		return new(big.Int)
	}
	return new(big.Int).Neg(d.Exp)
}

// Rat converts to math/big.Rat; only for exponents of moderate size.
func (d *Dec) Rat() *big.Rat {
	r := new(big.Rat)
	if d.IsZero() {
		return r
	}
	c, _ := new(big.Int).SetString(d.Coef, 10)
	e := d.Exp.Int64()
	p := new(big.Int).Exp(big.NewInt(10), big.NewInt(abs(e)), nil)
	if e >= 0 {
		r.SetInt(c.Mul(c, p))
	} else {
		r.SetFrac(c, p)
	}
	if d.Neg {
		r.Neg(r)
	}
	return r
}

func abs(x int64) int64 {
	if x < 0 {
		return -x
	}
	return x
}
