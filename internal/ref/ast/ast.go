// Package ast maps a model to the AST the property promises ("one node per example element in source
// order with kind, key, key-is-shortcut, decoded value / reference text, note and exactly the written
// rules") and projects the library's AST JSON onto the same shape.
package ast

import (
	"encoding/json"
	"math/big"
	"strings"

	"verif/internal/model"
	"verif/internal/norm"
	"verif/internal/ref/jsonv"
)

type Rule struct {
	Name  string `json:"name,omitempty"`
	Kind  string `json:"kind"`
	Value string `json:"value,omitempty"`
	Note  string `json:"note,omitempty"`
	Items []Rule `json:"items,omitempty"`
	Props []Rule `json:"props,omitempty"`
}

type Node struct {
	Kind     string `json:"kind"`
	Key      string `json:"key,omitempty"`
	Shortcut bool   `json:"shortcut,omitempty"`
	Value    string `json:"value,omitempty"`
	Note     string `json:"note,omitempty"`
	Rules    []Rule `json:"rules,omitempty"`
	Kids     []Node `json:"kids,omitempty"`
}

func litKind(k string) string {
	switch k {
	case "num":
		return "number"
	case "bool":
		return "boolean"
	case "null":
		return "null"
	case "str":
		return "string"
	}
	return k
}

func canonUint(s string) string {
	n, ok := new(big.Int).SetString(s, 10)
	if !ok {
		return s
	}
	return n.String()
}

func scalarVal(v model.Val) Rule {
	switch v.K {
	case "str":
		return Rule{Kind: "string", Value: v.Str}
	case "rule":
		return Rule{Kind: "reference", Value: v.Lit}
	}
	return Rule{Kind: litKind(v.K), Value: v.Lit}
}

func typeName(v model.Val) Rule {
	if strings.HasPrefix(v.Str, "@") {
		return Rule{Kind: "reference", Value: v.Str}
	}
	return Rule{Kind: "string", Value: v.Str}
}

// ExpectRule is the projection a written rule must have.
func ExpectRule(r model.Rule) Rule {
	v := r.Val
	out := Rule{}
	switch r.Name {
	case "minLength", "maxLength", "minItems", "maxItems", "precision":
		out = Rule{Kind: "number", Value: canonUint(v.Lit)}
	case "type":
		out = typeName(v)
	case "allOf":
		if v.K == "list" {
			if len(v.Items) == 1 {
				out = Rule{Kind: "reference", Value: v.Items[0].Str}
			} else {
				out = Rule{Kind: "array"}
				for _, it := range v.Items {
					out.Items = append(out.Items, Rule{Kind: "reference", Value: it.Str})
				}
			}
		} else {
			out = Rule{Kind: "reference", Value: v.Str}
		}
	case "additionalProperties":
		if v.K == "str" {
			out = typeName(v)
		} else {
			out = scalarVal(v)
		}
	case "enum":
		if v.K == "rule" {
			out = Rule{Kind: "reference", Value: v.Lit}
		} else {
			out = Rule{Kind: "array"}
			for i, it := range v.Items {
				x := scalarVal(it)
				if i < len(v.Notes) {
					x.Note = norm.Note(v.Notes[i])
				}
				out.Items = append(out.Items, x)
			}
		}
	case "or":
		out = Rule{Kind: "array"}
		for _, it := range v.Items {
			if it.K == "str" {
				out.Items = append(out.Items, typeName(it))
			} else {
				o := Rule{Kind: "object"}
				for _, rr := range it.Rules {
					o.Props = append(o.Props, ExpectRule(rr))
				}
				out.Items = append(out.Items, o)
			}
		}
	default:
		out = scalarVal(v)
	}
	out.Name = r.Name
	return out
}

// Expect maps a model node to its promised AST.
func Expect(n *model.Node, key model.Key) Node {
	p := Node{Key: key.Name, Shortcut: key.Shortcut, Note: norm.Note(n.Note)}
	switch n.Kind {
	case "object", "array":
		p.Kind = n.Kind
	case "ref":
		p.Kind = "reference"
		p.Value = n.Refs[0]
		p.Rules = append(p.Rules, Rule{Name: "type", Kind: "reference", Value: n.Refs[0]})
	case "choice":
		p.Kind = "reference"
		p.Value = strings.Join(n.Refs, " | ")
		o := Rule{Name: "or", Kind: "array"}
		for _, r := range n.Refs {
			o.Items = append(o.Items, Rule{Kind: "string", Value: r})
		}
		p.Rules = append(p.Rules, o)
	default:
		v := model.LitVal(n.Lit)
		p.Kind = litKind(v.K)
		p.Value = v.Lit
		if v.K == "str" {
			p.Value = v.Str
		}
	}
	for _, r := range n.Rules {
		p.Rules = append(p.Rules, ExpectRule(r))
	}
	for i, k := range n.Kids {
		kk := model.Key{}
		if n.Kind == "object" {
			kk = n.Keys[i]
		}
		p.Kids = append(p.Kids, Expect(k, kk))
	}
	return p
}

// ---- projection of the library's AST (from its JSON form, order preserved)

func str(v *jsonv.Value, k string) string {
	if x := v.Get(k); x != nil && x.Kind == jsonv.String {
		return x.Str
	}
	return ""
}

func projectRule(name string, v *jsonv.Value) Rule {
	r := Rule{Name: name, Kind: str(v, "TokenType"), Value: str(v, "Value"), Note: norm.Note(str(v, "Comment"))}
	if items := v.Get("Items"); items != nil && items.Kind == jsonv.Array {
		for _, it := range items.Items {
			r.Items = append(r.Items, projectRule("", it))
		}
	}
	if props := v.Get("Properties"); props != nil && props.Kind == jsonv.Object {
		for i, k := range props.Keys {
			r.Props = append(r.Props, projectRule(k, props.Vals[i]))
		}
	}
	return r
}

func projectNode(v *jsonv.Value) Node {
	n := Node{Kind: str(v, "TokenType"), Key: str(v, "Key"), Value: str(v, "Value"), Note: norm.Note(str(v, "Comment"))}
	if x := v.Get("IsKeyShortcut"); x != nil && x.Kind == jsonv.Bool {
		n.Shortcut = x.Bool
	}
	if rules := v.Get("Rules"); rules != nil && rules.Kind == jsonv.Object {
		for i, k := range rules.Keys {
			n.Rules = append(n.Rules, projectRule(k, rules.Vals[i]))
		}
	}
	if kids := v.Get("Children"); kids != nil && kids.Kind == jsonv.Array {
		for _, k := range kids.Items {
			n.Kids = append(n.Kids, projectNode(k))
		}
	}
	return n
}

// Project parses the library's marshalled AST.
func Project(astJSON string) (Node, error) {
	v, err := jsonv.Parse([]byte(astJSON))
	if err != nil {
		return Node{}, err
	}
	return projectNode(v), nil
}

// Diff returns the path and description of the first difference ("" when equal).
func Diff(want, got Node, path string) (string, string) {
	w, _ := json.Marshal(shallow(want))
	g, _ := json.Marshal(shallow(got))
	if string(w) != string(g) {
		return path, "node: want " + string(w) + " got " + string(g)
	}
	if len(want.Rules) != len(got.Rules) {
		wn, gn := names(want.Rules), names(got.Rules)
		return path + "/rules", "rule list: want " + wn + " got " + gn
	}
	for i := range want.Rules {
		w, _ := json.Marshal(want.Rules[i])
		g, _ := json.Marshal(got.Rules[i])
		if string(w) != string(g) {
			return path + "/rules/" + want.Rules[i].Name, "rule: want " + string(w) + " got " + string(g)
		}
	}
	if len(want.Kids) != len(got.Kids) {
		return path + "/children", "child count differs"
	}
	for i := range want.Kids {
		if p, d := Diff(want.Kids[i], got.Kids[i], path+"/"+want.Kids[i].Key); d != "" {
			return p, d
		}
	}
	return "", ""
}

func shallow(n Node) Node { n.Rules, n.Kids = nil, nil; return n }

func names(rr []Rule) string {
	var s []string
	for _, r := range rr {
		s = append(s, r.Name)
	}
	return "[" + strings.Join(s, " ") + "]"
}
