package enumrule

import "testing"

func TestParse(t *testing.T) {
	valid := map[string]int{"[]": 0, " [ ] ": 0, "[1]": 1, "[1, 1.0]": 2, `["a", "A"]`: 2, "[true,false,null]": 3,
		"[1 // c\n]": 1, "[ // c\n1]": 1, "[1 /* c */, 2]": 2, "[1] // c": 1, "[1] /* c */\n": 1, "[-0, 0]": 2, "[\n1,\n2\n]\n": 2, `["a\"b"]`: 1, `["A"]`: 1, "[1 /**/]": 1, "[1, /*\n*/ 2]": 2}
	for s, n := range valid {
		r := Parse(s)
		if !r.Valid || len(r.Items) != n || r.Unsettled != "" {
			t.Errorf("%q: %+v", s, r)
		}
	}
	invalid := []string{"", "1", "[", "[1", "[1,]", "[,1]", "[1,,2]", "[1 2]", "[1e5]", "[01]", "[1.]", "[1, 1]", `["A", "A"]`, `["a/b", "a\/b"]`,
		"[1] x", "[1] [2]", "[{}]", "[[1]]", "[tru]", "[1] /", "[1 / 2]", "[1 /* c", "[1,\n// c\n]", "[\"a\nb\"]", `["\x"]`, "[1] # c", "[nulll]", "[truefalse]"}
	for _, s := range invalid {
		if r := Parse(s); r.Valid || r.Unsettled != "" {
			t.Errorf("%q accepted: %+v", s, r)
		}
	}
	for _, s := range []string{"// c\n[1]", "[1] /* c", "[1 //\n]"} {
		if r := Parse(s); r.Unsettled == "" {
			t.Errorf("%q should be unsettled: %+v", s, r)
		}
	}
}
