// Package enumrule is a reference recogniser for named enum rule texts, written from the
// documentation: a bracketed, comma separated list of distinct JSON scalars (no exponents) with
// optional // and /* */ annotations. It shares no code with rules/enum.
package enumrule

import (
	"encoding/json"
	"regexp"
	"strings"
)

type Item struct {
	Lit  string // literal as written
	Kind string // string integer float boolean null
	Str  string // decoded value for strings
}

type Result struct {
	Valid     bool
	Unsettled string // non-empty: the documentation does not settle this shape; nothing is asserted
	Why       string // reason for invalidity (class)
	Items     []Item
	End       int // offset just past the closing bracket
	HasAnnot  bool
}

var numRe = regexp.MustCompile(`^-?(0|[1-9][0-9]*)(\.[0-9]+)?`)

func isWS(c byte) bool { return c == ' ' || c == '\t' || c == '\n' || c == '\r' }

// Ident is the identity under which two entries are "the same".
func (it Item) Ident() string {
	if it.Kind == "string" {
		return "s:" + it.Str
	}
	return "l:" + it.Lit
}

type parser struct {
	s   string
	i   int
	res *Result
}

// skip blanks and annotations; returns false on an unterminated /* or a lone '/'
func (p *parser) skip(afterEnd bool) (ok bool, why string) {
	for p.i < len(p.s) {
		c := p.s[p.i]
		switch {
		case isWS(c):
			p.i++
		case c == '/':
			if p.i+1 >= len(p.s) {
				return false, "lone-slash"
			}
			switch p.s[p.i+1] {
			case '/':
				p.res.HasAnnot = true
				j := p.i + 2
				for j < len(p.s) && p.s[j] != '\n' && p.s[j] != '\r' {
					j++
				}
				if strings.TrimSpace(p.s[p.i+2:j]) == "" {
					p.res.Unsettled = "empty // annotation"
				}
				p.i = j
			case '*':
				p.res.HasAnnot = true
				k := strings.Index(p.s[p.i+2:], "*/")
				if k < 0 {
					if afterEnd {
						p.res.Unsettled = "unterminated /* after the closing bracket"
						p.i = len(p.s)
						return true, ""
					}
					return false, "unterminated-annotation"
				}
				p.i += 2 + k + 2
			default:
				return false, "lone-slash"
			}
		default:
			return true, ""
		}
	}
	return true, ""
}

func (p *parser) scalar() (Item, bool) {
	rest := p.s[p.i:]
	for _, kw := range []string{"true", "false", "null"} {
		if strings.HasPrefix(rest, kw) {
			p.i += len(kw)
			k := "boolean"
			if kw == "null" {
				k = "null"
			}
			return Item{Lit: kw, Kind: k}, true
		}
	}
	if rest != "" && rest[0] == '"' {
		// find the closing quote
		j := 1
		for j < len(rest) {
			if rest[j] == '\\' {
				j += 2
				continue
			}
			if rest[j] == '"' {
				break
			}
			j++
		}
		if j >= len(rest) {
			return Item{}, false
		}
		lit := rest[:j+1]
		var s string
		if json.Unmarshal([]byte(lit), &s) != nil || !json.Valid([]byte(lit)) {
			return Item{}, false
		}
		p.i += j + 1
		return Item{Lit: lit, Kind: "string", Str: s}, true
	}
	if m := numRe.FindString(rest); m != "" {
		p.i += len(m)
		k := "integer"
		if strings.Contains(m, ".") {
			k = "float"
		}
		return Item{Lit: m, Kind: k}, true
	}
	return Item{}, false
}

// Parse judges a rule text.
func Parse(s string) *Result {
	r := &Result{}
	p := &parser{s: s, res: r}
	fail := func(why string) *Result { r.Valid = false; r.Why = why; return r }
	// leading blanks only; an annotation before the bracket is not settled by the documentation
	for p.i < len(s) && isWS(s[p.i]) {
		p.i++
	}
	if p.i < len(s) && s[p.i] == '/' && p.i+1 < len(s) && (s[p.i+1] == '/' || s[p.i+1] == '*') {
		r.Unsettled = "annotation before the opening bracket"
		return r
	}
	if p.i >= len(s) || s[p.i] != '[' {
		return fail("no-opening-bracket")
	}
	p.i++
	seen := map[string]bool{}
	first := true
	for {
		if ok, why := p.skip(false); !ok {
			return fail(why)
		}
		if p.i >= len(s) {
			return fail("no-closing-bracket")
		}
		if s[p.i] == ']' && first {
			p.i++
			break
		}
		it, ok := p.scalar()
		if !ok {
			return fail("not-a-scalar")
		}
		// a scalar must be followed by a delimiter
		if p.i < len(s) && !isWS(s[p.i]) && s[p.i] != ',' && s[p.i] != ']' && s[p.i] != '/' {
			return fail("not-a-scalar")
		}
		if seen[it.Ident()] {
			return fail("duplicate")
		}
		seen[it.Ident()] = true
		r.Items = append(r.Items, it)
		first = false
		if ok, why := p.skip(false); !ok {
			return fail(why)
		}
		if p.i >= len(s) {
			return fail("no-closing-bracket")
		}
		if s[p.i] == ']' {
			p.i++
			break
		}
		if s[p.i] != ',' {
			return fail("missing-comma")
		}
		p.i++
	}
	r.End = p.i
	if ok, why := p.skip(true); !ok {
		return fail("after-bracket:" + why)
	}
	if p.i < len(s) {
		return fail("garbage-after-bracket")
	}
	r.Valid = true
	return r
}

// Inline renders the items as an inline list.
func Inline(items []Item) string {
	var parts []string
	for _, it := range items {
		parts = append(parts, it.Lit)
	}
	return "[" + strings.Join(parts, ", ") + "]"
}
