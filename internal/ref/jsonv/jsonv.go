// Package jsonv is an ordered JSON value tree built with encoding/json's token decoder
// (keys in document order, numbers keep their spelling). It shares no code with the repository.
package jsonv

import (
	"bytes"
	"encoding/json"
	"fmt"
	"io"
	"strings"
)

type Kind int

const (
	Null Kind = iota
	Bool
	Number
	String
	Array
	Object
)

func (k Kind) String() string {
	return [...]string{"null", "boolean", "number", "string", "array", "object"}[k]
}

type Value struct {
	Kind  Kind
	Bool  bool
	Num   string // spelling as in the source
	Str   string // decoded
	Items []*Value
	Keys  []string // decoded, in order (duplicates kept)
	Vals  []*Value
}

// Parse decodes exactly one JSON value surrounded by optional whitespace.
func Parse(b []byte) (*Value, error) {
	if !json.Valid(b) {
		return nil, fmt.Errorf("not valid JSON")
	}
	d := json.NewDecoder(bytes.NewReader(b))
	d.UseNumber()
	v, err := parse(d)
	if err != nil {
		return nil, err
	}
	if _, err := d.Token(); err != io.EOF {
		return nil, fmt.Errorf("trailing data")
	}
	return v, nil
}

func parse(d *json.Decoder) (*Value, error) {
	t, err := d.Token()
	if err != nil {
		return nil, err
	}
	switch x := t.(type) {
	case nil:
		return &Value{Kind: Null}, nil
	case bool:
		return &Value{Kind: Bool, Bool: x}, nil
	case json.Number:
		return &Value{Kind: Number, Num: string(x)}, nil
	case string:
		return &Value{Kind: String, Str: x}, nil
	case json.Delim:
		switch x {
		case '[':
			v := &Value{Kind: Array}
			for d.More() {
				it, err := parse(d)
				if err != nil {
					return nil, err
				}
				v.Items = append(v.Items, it)
			}
			if _, err := d.Token(); err != nil {
				return nil, err
			}
			return v, nil
		case '{':
			v := &Value{Kind: Object}
			for d.More() {
				kt, err := d.Token()
				if err != nil {
					return nil, err
				}
				k, ok := kt.(string)
				if !ok {
					return nil, fmt.Errorf("non-string key")
				}
				it, err := parse(d)
				if err != nil {
					return nil, err
				}
				v.Keys = append(v.Keys, k)
				v.Vals = append(v.Vals, it)
			}
			if _, err := d.Token(); err != nil {
				return nil, err
			}
			return v, nil
		}
	}
	return nil, fmt.Errorf("unexpected token %v", t)
}

// Get returns the first member with the key.
func (v *Value) Get(k string) *Value {
	if v == nil {
		return nil
	}
	for i, kk := range v.Keys {
		if kk == k {
			return v.Vals[i]
		}
	}
	return nil
}

func (v *Value) Has(k string) bool { return v.Get(k) != nil }

// Canon renders the tree canonically (keys in order, strings via encoding/json, numbers as spelled).
func (v *Value) Canon() string {
	var b strings.Builder
	v.canon(&b)
	return b.String()
}

func (v *Value) canon(b *strings.Builder) {
	switch v.Kind {
	case Null:
		b.WriteString("null")
	case Bool:
		fmt.Fprintf(b, "%v", v.Bool)
	case Number:
		b.WriteString(v.Num)
	case String:
		q, _ := json.Marshal(v.Str)
		b.Write(q)
	case Array:
		b.WriteByte('[')
		for i, it := range v.Items {
			if i > 0 {
				b.WriteByte(',')
			}
			it.canon(b)
		}
		b.WriteByte(']')
	case Object:
		b.WriteByte('{')
		for i, k := range v.Keys {
			if i > 0 {
				b.WriteByte(',')
			}
			q, _ := json.Marshal(k)
			b.Write(q)
			b.WriteByte(':')
			v.Vals[i].canon(b)
		}
		b.WriteByte('}')
	}
}

// Unquote decodes a JSON string literal.
func Unquote(lit string) (string, error) {
	var s string
	err := json.Unmarshal([]byte(lit), &s)
	return s, err
}

// Quote encodes a string as a JSON string literal without HTML escaping.
func Quote(s string) string {
	var b bytes.Buffer
	e := json.NewEncoder(&b)
	e.SetEscapeHTML(false)
	e.Encode(s)
	return strings.TrimSuffix(b.String(), "\n")
}
