// Package graph holds the reference-resolution models: which type names a schema text mentions,
// which types are reachable / missing (C05), and finiteness / self-requirement of type graphs (C06).
package graph

import (
	"strings"

	"verif/internal/model"
)

// Mentions lists the user type names a node tree refers to, in order of first occurrence, with the
// reference positions they occur in.
func Mentions(n *model.Node) (names []string, positions map[string][]string) {
	positions = map[string][]string{}
	add := func(name, pos string) {
		if !strings.HasPrefix(name, "@") {
			return
		}
		if _, ok := positions[name]; !ok {
			names = append(names, name)
		}
		positions[name] = append(positions[name], pos)
	}
	var rules func(rr []model.Rule, inSet bool)
	rules = func(rr []model.Rule, inSet bool) {
		for _, r := range rr {
			switch r.Name {
			case "type":
				if inSet {
					add(r.Val.Str, "or-rule-set-type")
				} else {
					add(r.Val.Str, "type")
				}
			case "or":
				for _, it := range r.Val.Items {
					if it.K == "str" {
						add(it.Str, "or-item")
					} else {
						rules(it.Rules, true)
					}
				}
			case "allOf":
				if r.Val.K == "list" {
					for _, it := range r.Val.Items {
						add(it.Str, "allOf")
					}
				} else {
					add(r.Val.Str, "allOf")
				}
			case "additionalProperties":
				if r.Val.K == "str" {
					add(r.Val.Str, "additionalProperties")
				}
			}
		}
	}
	n.Walk(func(k *model.Node) {
		switch k.Kind {
		case "ref":
			add(k.Refs[0], "value-shortcut")
		case "choice":
			for _, r := range k.Refs {
				add(r, "choice")
			}
		case "object":
			for _, key := range k.Keys {
				if key.Shortcut {
					add(key.Name, "key-shortcut")
				}
			}
		}
		rules(k.Rules, false)
	})
	return names, positions
}

// Missing returns the names reachable from the root through references of registered types that
// are not registered, with the depth (1 = mentioned by the root itself) at which each was met.
func Missing(p *model.Project) map[string]int {
	missing := map[string]int{}
	seen := map[string]bool{}
	type item struct {
		name  string
		depth int
	}
	first, _ := Mentions(p.Root)
	var queue []item
	for _, n := range first {
		queue = append(queue, item{n, 1})
	}
	for len(queue) > 0 {
		it := queue[0]
		queue = queue[1:]
		if seen[it.name] {
			continue
		}
		seen[it.name] = true
		t := p.Type(it.name)
		if t == nil || p.IsWithheld(it.name) {
			missing[it.name] = it.depth
			continue
		}
		if t.Node == nil {
			continue
		}
		next, _ := Mentions(t.Node)
		for _, n := range next {
			queue = append(queue, item{n, it.depth + 1})
		}
	}
	return missing
}

// Reachable returns all names reachable from the root (registered or not).
func Reachable(p *model.Project) map[string]bool {
	seen := map[string]bool{}
	first, _ := Mentions(p.Root)
	queue := append([]string{}, first...)
	for len(queue) > 0 {
		n := queue[0]
		queue = queue[1:]
		if seen[n] {
			continue
		}
		seen[n] = true
		if t := p.Type(n); t != nil && t.Node != nil && !p.IsWithheld(n) {
			next, _ := Mentions(t.Node)
			queue = append(queue, next...)
		}
	}
	return seen
}
