// Package graph holds the reference-resolution models: which type names a schema text mentions,
// which types are reachable / missing (C05), and finiteness / self-requirement of type graphs (C06).
package graph

import (
	"strings"

	"verif/internal/model"
)

// Mentions lists the user type names a node tree refers to, in order of first occurrence, with the
// reference positions they occur in.
func Mentions(n *model.Node) (names []string, positions map[string][]string) {
	positions = map[string][]string{}
	add := func(name, pos string) {
		if !strings.HasPrefix(name, "@") {
			return
		}
		if _, ok := positions[name]; !ok {
			names = append(names, name)
		}
		positions[name] = append(positions[name], pos)
	}
	var rules func(rr []model.Rule, inSet bool)
	rules = func(rr []model.Rule, inSet bool) {
		for _, r := range rr {
			switch r.Name {
			case "type":
				if inSet {
					add(r.Val.Str, "or-rule-set-type")
				} else {
					add(r.Val.Str, "type")
				}
			case "or":
				for _, it := range r.Val.Items {
					if it.K == "str" {
						add(it.Str, "or-item")
					} else {
						rules(it.Rules, true)
					}
				}
			case "allOf":
				if r.Val.K == "list" {
					for _, it := range r.Val.Items {
						add(it.Str, "allOf")
					}
				} else {
					add(r.Val.Str, "allOf")
				}
			case "additionalProperties":
				if r.Val.K == "str" {
					add(r.Val.Str, "additionalProperties")
				}
			}
		}
	}
	n.Walk(func(k *model.Node) {
		switch k.Kind {
		case "ref":
			add(k.Refs[0], "value-shortcut")
		case "choice":
			for _, r := range k.Refs {
				add(r, "choice")
			}
		case "object":
			for _, key := range k.Keys {
				if key.Shortcut {
					add(key.Name, "key-shortcut")
				}
			}
		}
		rules(k.Rules, false)
	})
	return names, positions
}

// Missing returns the names reachable from the root through references of registered types that
// are not registered, with the depth (1 = mentioned by the root itself) at which each was met.
func Missing(p *model.Project) map[string]int {
	missing := map[string]int{}
	seen := map[string]bool{}
	type item struct {
		name  string
		depth int
	}
	first, _ := Mentions(p.Root)
	var queue []item
	for _, n := range first {
		queue = append(queue, item{n, 1})
	}
	for len(queue) > 0 {
		it := queue[0]
		queue = queue[1:]
		if seen[it.name] {
			continue
		}
		seen[it.name] = true
		t := p.Type(it.name)
		if t == nil || p.IsWithheld(it.name) {
			missing[it.name] = it.depth
			continue
		}
		if t.Node == nil {
			continue
		}
		next, _ := Mentions(t.Node)
		for _, n := range next {
			queue = append(queue, item{n, it.depth + 1})
		}
	}
	return missing
}

// Reachable returns all names reachable from the root (registered or not).
func Reachable(p *model.Project) map[string]bool {
	seen := map[string]bool{}
	first, _ := Mentions(p.Root)
	queue := append([]string{}, first...)
	for len(queue) > 0 {
		n := queue[0]
		queue = queue[1:]
		if seen[n] {
			continue
		}
		seen[n] = true
		if t := p.Type(n); t != nil && t.Node != nil && !p.IsWithheld(n) {
			next, _ := Mentions(t.Node)
			queue = append(queue, next...)
		}
	}
	return seen
}

// ---- C06: finiteness and self-requirement of type graphs

// mandatoryLinks lists, for an object node, the groups of alternative targets of every mandatory,
// non-nullable, non-array property (one group per property: one name = plain link, several = choice).
func mandatoryLinks(p *model.Project, n *model.Node, inheriting map[*model.Node]bool) [][]string {
	var out [][]string
	if n == nil || n.Kind != "object" {
		return out
	}
	// an object that inherits (allOf) has the properties of its parents as its own
	if inheriting == nil {
		inheriting = map[*model.Node]bool{}
	}
	if !inheriting[n] {
		inheriting[n] = true
		for _, r := range n.Rules {
			if r.Name != "allOf" {
				continue
			}
			bases := []string{r.Val.Str}
			if r.Val.K == "list" {
				bases = nil
				for _, it := range r.Val.Items {
					bases = append(bases, it.Str)
				}
			}
			for _, b := range bases {
				out = append(out, mandatoryLinks(p, typeNode(p, b), inheriting)...)
			}
		}
		delete(inheriting, n)
	}
	for i, k := range n.Kids {
		if n.Keys[i].Shortcut {
			continue // whether {@k: ...} requires an instance is not settled; generators do not use it here
		}
		if k.Kind != "ref" && k.Kind != "choice" {
			// nested plain objects: their mandatory links are mandatory for the parent too
			if k.Kind == "object" && !optionalOrNullable(k) {
				out = append(out, mandatoryLinks(p, k, inheriting)...)
			}
			continue
		}
		if optionalOrNullable(k) {
			continue
		}
		out = append(out, k.Refs)
	}
	return out
}

func optionalOrNullable(k *model.Node) bool {
	for _, r := range k.Rules {
		if (r.Name == "optional" || r.Name == "nullable") && r.Val.Lit == "true" {
			return true
		}
	}
	return false
}

func typeNode(p *model.Project, name string) *model.Node {
	if name == "@main" {
		return p.Root
	}
	if t := p.Type(name); t != nil {
		return t.Node
	}
	return nil
}

// Finite computes the set of types that have a finite instance (least fixed point).
func Finite(p *model.Project) map[string]bool {
	names := []string{"@main"}
	for _, t := range p.Types {
		names = append(names, t.Name)
	}
	fin := map[string]bool{}
	for changed := true; changed; {
		changed = false
		for _, n := range names {
			if fin[n] {
				continue
			}
			node := typeNode(p, n)
			ok := true
			if node != nil && optionalOrNullable(node) {
				// the type's own body is nullable: null is an instance
				ok = true
			} else if node != nil && (node.Kind == "ref" || node.Kind == "choice") {
				// a type that is itself a reference / choice: finite if some alternative is
				ok = false
				for _, r := range node.Refs {
					if fin[r] {
						ok = true
					}
				}
			} else {
				for _, group := range mandatoryLinks(p, node, nil) {
					any := false
					for _, tg := range group {
						if fin[tg] {
							any = true
						}
					}
					if !any {
						ok = false
					}
				}
			}
			if ok {
				fin[n] = true
				changed = true
			}
		}
	}
	return fin
}

// SelfRequired: @main is reachable from @main along mandatory plain (single-target) links only.
// It also returns the length of the shortest such cycle (0 if none).
func SelfRequired(p *model.Project) (bool, int) {
	type item struct {
		name  string
		depth int
	}
	seen := map[string]bool{}
	queue := []item{{"@main", 0}}
	for len(queue) > 0 {
		it := queue[0]
		queue = queue[1:]
		node := typeNode(p, it.name)
		var groups [][]string
		if node != nil && it.name != "@main" && optionalOrNullable(node) {
			continue // a type whose body is nullable requires nothing
		}
		if node != nil && node.Kind == "ref" {
			groups = [][]string{node.Refs}
		} else {
			groups = mandatoryLinks(p, node, nil)
		}
		for _, g := range groups {
			if len(g) != 1 {
				continue
			}
			if g[0] == "@main" {
				return true, it.depth + 1
			}
			if !seen[g[0]] {
				seen[g[0]] = true
				queue = append(queue, item{g[0], it.depth + 1})
			}
		}
	}
	return false, 0
}

// HasCycle reports whether the reference graph (any kind of link) has a cycle.
func HasCycle(p *model.Project) bool {
	names := []string{"@main"}
	for _, t := range p.Types {
		names = append(names, t.Name)
	}
	state := map[string]int{}
	var dfs func(n string) bool
	dfs = func(n string) bool {
		state[n] = 1
		node := typeNode(p, n)
		if node != nil {
			ms, _ := Mentions(node)
			for _, m := range ms {
				if state[m] == 1 {
					return true
				}
				if state[m] == 0 && dfs(m) {
					return true
				}
			}
		}
		state[n] = 2
		return false
	}
	for _, n := range names {
		if state[n] == 0 && dfs(n) {
			return true
		}
	}
	return false
}
