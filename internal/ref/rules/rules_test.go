package rules

import (
	"testing"

	"verif/internal/model"
)

func TestPoolsAgreeWithRecognisers(t *testing.T) {
	for f, p := range Pools {
		for _, v := range p.Valid {
			if !recognise(f, v) {
				t.Errorf("%s: valid pool member %q not recognised", f, v)
			}
		}
		for _, v := range p.Invalid {
			if recognise(f, v) {
				t.Errorf("%s: invalid pool member %q recognised", f, v)
			}
		}
	}
}

func sat(n *model.Node) *Result { return Evaluate(&model.Project{Root: n}) }

func TestScalars(t *testing.T) {
	cases := []struct {
		n    *model.Node
		want bool
	}{
		{model.Scalar("integer", "5", model.R("min", model.Num("5"))), true},
		{model.Scalar("integer", "5", model.R("min", model.Num("5")), model.R("exclusiveMinimum", model.Bool(true))), false},
		{model.Scalar("float", "5.10", model.R("max", model.Num("5.1"))), true},
		{model.Scalar("float", "5.11", model.R("max", model.Num("5.1"))), false},
		{model.Scalar("integer", "-0", model.R("min", model.Num("0"))), true},
		{model.Scalar("string", `"ab"`, model.R("minLength", model.Num("2")), model.R("maxLength", model.Num("2"))), true},
		{model.Scalar("string", `"ab"`, model.R("maxLength", model.Num("1"))), false},
		{model.Scalar("string", `"a\nb"`, model.R("regex", model.Str(`\n`))), true},
		{model.Scalar("float", "1.250", model.R("precision", model.Num("2"))), true},
		{model.Scalar("float", "1.251", model.R("precision", model.Num("2"))), false},
		{model.Scalar("string", `"A"`, model.R("enum", model.List(model.Str("A"), model.Num("1")))), true},
		{model.Scalar("integer", "2", model.R("enum", model.List(model.Str("A"), model.Num("1")))), false},
		{model.Scalar("string", `"2021-02-29"`, model.R("type", model.Str("date"))), false},
		{model.Scalar("integer", "1", model.R("or", model.List(model.Str("string"), model.Set(model.R("type", model.Str("integer")), model.R("min", model.Num("2")))))), false},
		{model.Scalar("integer", "2", model.R("or", model.List(model.Str("string"), model.Set(model.R("type", model.Str("integer")), model.R("min", model.Num("2")))))), true},
		{model.Scalar("null", "null", model.R("nullable", model.Bool(true)), model.R("min", model.Num("2"))), true},
	}
	for i, c := range cases {
		if r := sat(c.n); r.Satisfied() != c.want {
			t.Errorf("case %d: satisfied=%v want %v (%v)", i, r.Satisfied(), c.want, r.Failures)
		}
	}
	p := &model.Project{
		Root:  model.Obj().Add("a", model.Scalar("integer", "1", model.R("type", model.Str("@t")))),
		Types: []model.Type{{Name: "@t", Node: model.Scalar("integer", "5", model.R("min", model.Num("3")))}},
	}
	if r := Evaluate(p); r.Satisfied() || len(r.Failures) != 1 || r.Failures[0].Where != "root" {
		t.Errorf("reference: %v", r.Failures)
	}
	arr := model.Arr(model.R("maxItems", model.Num("1"))).Item(model.Scalar("integer", "1")).Item(model.Scalar("integer", "2"))
	if r := sat(arr); r.Satisfied() {
		t.Error("maxItems")
	}
}
