package rules

import (
	"regexp"
	"strconv"
)

// Crisp pools: strings whose validity for a built-in format is beyond doubt. FormatOK only answers
// for members of these pools (known == true); everything else is left open.
var Pools = map[string]struct{ Valid, Invalid []string }{
	"date": {
		Valid:   []string{"2020-02-29", "2021-01-31", "1999-12-01", "2000-02-29", "2024-06-30"},
		Invalid: []string{"2021-02-29", "2021-13-01", "2021-00-10", "2021-04-31", "2020-2-9", "20200229", "2020/02/29", "2020-02-29T00:00:00Z", "", " 2020-02-29", "1900-02-29", "abcd-ef-gh"},
	},
	"datetime": {
		Valid:   []string{"2021-01-02T07:23:12Z", "2021-01-02T07:23:12+03:00", "2020-02-29T23:59:59-11:30", "2021-01-02T07:23:12.123Z"},
		Invalid: []string{"2021-01-02 07:23:12", "2021-01-02T07:23:12", "2021-01-02", "2021-02-29T07:23:12Z", "2021-01-02T24:23:12Z", "2021-01-02T07:60:12Z", "", "2021-01-02T07:23Z", "T07:23:12Z"},
	},
	"email": {
		Valid:   []string{"a@b.cc", "john.doe@example.com", "x_y@sub.example.org"},
		Invalid: []string{"ab.cc", "a@@b.cc", " a@b.cc", "a@b.cc ", "", "a b@c.dd", "@b.cc", "a@", "<a@b.cc>"},
	},
	"uri": {
		Valid:   []string{"http://a.b/c", "https://example.com", "ftp://host.tld/path/file.txt", "http://a.b/c?d=e#f"},
		Invalid: []string{"", "a b c", "http://a b/c", "://missing.scheme", "no-scheme-no-slash"},
	},
	"uuid": {
		Valid:   []string{"550e8400-e29b-41d4-a716-446655440000", "550E8400-E29B-41D4-A716-446655440000", "00000000-0000-0000-0000-000000000000"},
		Invalid: []string{"550e8400-e29b-41d4-a716-44665544000", "550e8400-e29b-41d4-a716-4466554400000", "550e8400-e29b-41d4-a716-44665544000g", "550e8400e-29b-41d4-a716-446655440000", "", "not-a-uuid", "550e8400-e29b-41d4-a716_446655440000"},
	},
}

var (
	dateRe     = regexp.MustCompile(`^(\d{4})-(\d{2})-(\d{2})$`)
	datetimeRe = regexp.MustCompile(`^(\d{4})-(\d{2})-(\d{2})T(\d{2}):(\d{2}):(\d{2})(\.\d+)?(Z|[+-]\d{2}:\d{2})$`)
	emailRe    = regexp.MustCompile(`^[A-Za-z0-9._]+@[A-Za-z0-9-]+(\.[A-Za-z0-9-]+)+$`)
	uriRe      = regexp.MustCompile(`^[a-z][a-z0-9+.-]*://[^\s/?#]+(/[^\s]*)?([?#][^\s]*)?$`)
	uuidRe     = regexp.MustCompile(`^[0-9a-fA-F]{8}-[0-9a-fA-F]{4}-[0-9a-fA-F]{4}-[0-9a-fA-F]{4}-[0-9a-fA-F]{12}$`)
)

func validDate(y, m, d int) bool {
	if m < 1 || m > 12 || d < 1 {
		return false
	}
	days := []int{31, 28, 31, 30, 31, 30, 31, 31, 30, 31, 30, 31}[m-1]
	if m == 2 && (y%4 == 0 && (y%100 != 0 || y%400 == 0)) {
		days = 29
	}
	return d <= days
}

func num(s string) int { n, _ := strconv.Atoi(s); return n }

func recognise(format, s string) bool {
	switch format {
	case "date":
		m := dateRe.FindStringSubmatch(s)
		return m != nil && validDate(num(m[1]), num(m[2]), num(m[3]))
	case "datetime":
		m := datetimeRe.FindStringSubmatch(s)
		return m != nil && validDate(num(m[1]), num(m[2]), num(m[3])) && num(m[4]) < 24 && num(m[5]) < 60 && num(m[6]) < 60
	case "email":
		return emailRe.MatchString(s)
	case "uri":
		return uriRe.MatchString(s)
	case "uuid":
		return uuidRe.MatchString(s)
	}
	return false
}

// FormatOK judges a pool member; known is false for strings outside the pools.
func FormatOK(format, s string) (ok, known bool) {
	p, has := Pools[format]
	if !has {
		return false, false
	}
	for _, v := range p.Valid {
		if v == s {
			return recognise(format, s), true
		}
	}
	for _, v := range p.Invalid {
		if v == s {
			return recognise(format, s), true
		}
	}
	return false, false
}
