// Package rules is the reference meaning of JSight value rules, written from the documentation:
// given a model project it says, for every example value in the root and in every registered type,
// whether the value satisfies the rules written next to it. It never calls the library.
package rules

import (
	"fmt"
	"regexp"
	"strconv"
	"strings"
	"unicode/utf8"

	"verif/internal/model"
	"verif/internal/ref/dec"
)

// Failure is one example value that breaks one of its rules.
type Failure struct {
	Where string // "root" or the type name
	Path  string
	Rule  string
	Why   string
}

func (f Failure) String() string { return fmt.Sprintf("%s%s: %s (%s)", f.Where, f.Path, f.Rule, f.Why) }

// Result of evaluating a project.
type Result struct {
	Failures  []Failure
	Ambiguous []string // reasons why the documentation does not settle the verdict; nothing may be asserted
	Boundary  []string // rules whose bound is within one unit of the example (for non-triviality)
	Depth     int      // deepest reference / or chain met
}

func (r *Result) Satisfied() bool { return len(r.Failures) == 0 }

type eval struct {
	p     *model.Project
	res   *Result
	where string
}

// Evaluate judges every example value of the root and of every registered type.
func Evaluate(p *model.Project) *Result {
	e := &eval{p: p, res: &Result{}}
	e.where = "root"
	e.node(p.Root, "")
	for _, t := range p.Registered() {
		if t.Node == nil {
			continue
		}
		e.where = t.Name
		e.node(t.Node, "")
	}
	return e.res
}

func (e *eval) fail(path, rule, why string) {
	e.res.Failures = append(e.res.Failures, Failure{Where: e.where, Path: path, Rule: rule, Why: why})
}

func (e *eval) amb(why string) { e.res.Ambiguous = append(e.res.Ambiguous, why) }

// containerOr: an (empty) object or array example beside an `or` rule satisfies it when an alternative
// names its own kind
func (e *eval) containerOr(n *model.Node, path string) {
	v, ok := n.Rule("or")
	if !ok {
		return
	}
	for _, alt := range v.Items {
		name := alt.Str
		if alt.K == "set" {
			for _, r := range alt.Rules {
				if r.Name == "type" {
					name = r.Val.Str
				}
			}
		}
		if name == n.Kind || name == "any" {
			return
		}
	}
	e.fail(path, "or", "no alternative names the kind of the example ("+n.Kind+")")
}

func (e *eval) node(n *model.Node, path string) {
	if n.Kind == "object" || n.Kind == "array" {
		e.containerOr(n, path)
	}
	switch n.Kind {
	case "object":
		for i, k := range n.Kids {
			e.node(k, path+"."+n.Keys[i].Name)
		}
	case "array":
		cnt := len(n.Kids)
		if v, ok := n.Rule("minItems"); ok {
			lim := atoi(v.Lit)
			e.boundary("minItems", cnt, lim)
			if cnt < lim {
				e.fail(path, "minItems", fmt.Sprintf("%d items < %d", cnt, lim))
			}
		}
		if v, ok := n.Rule("maxItems"); ok {
			lim := atoi(v.Lit)
			e.boundary("maxItems", cnt, lim)
			if cnt > lim {
				e.fail(path, "maxItems", fmt.Sprintf("%d items > %d", cnt, lim))
			}
		}
		for i, k := range n.Kids {
			e.node(k, fmt.Sprintf("%s[%d]", path, i))
		}
	case "ref", "choice":
		// no literal at this site; the referenced types' own examples are judged in the types
	default:
		if ok, rule, why := e.scalar(n.Lit, n.Kind, n.Rules, 0, n.Lit); !ok {
			e.fail(path, rule, why)
		}
	}
}

func (e *eval) boundary(rule string, have, lim int) {
	if have-lim >= -1 && have-lim <= 1 {
		side := "at"
		if have < lim {
			side = "below"
		} else if have > lim {
			side = "above"
		}
		e.res.Boundary = append(e.res.Boundary, rule+":"+side)
	}
}

func atoi(s string) int {
	n, err := strconv.Atoi(s)
	if err != nil {
		return 1 << 30
	}
	return n
}

func ruleOf(rr []model.Rule, name string) (model.Val, bool) {
	for _, r := range rr {
		if r.Name == name {
			return r.Val, true
		}
	}
	return model.Val{}, false
}

func boolRule(rr []model.Rule, name string) bool {
	v, ok := ruleOf(rr, name)
	return ok && v.Lit == "true"
}

func isNum(kind string) bool { return kind == "integer" || kind == "float" }

// kindFits: does a literal of kind `kind` fit the built-in type name t
func (e *eval) kindFits(kind, t string) (fits bool) {
	switch t {
	case "any", "mixed", "enum":
		return true
	case "string", "email", "uri", "uuid", "date", "datetime":
		return kind == "string"
	case "integer":
		return kind == "integer"
	case "float", "decimal":
		if kind == "integer" {
			e.amb("integer literal against a float/decimal type")
		}
		return kind == "float"
	case "boolean":
		return kind == "boolean"
	case "null":
		return kind == "null"
	case "object", "array":
		return false
	}
	return false
}

// scalar judges one literal against a rule list. depth counts reference / or nesting.
func (e *eval) scalar(lit, kind string, rr []model.Rule, depth int, own string) (ok bool, rule, why string) {
	if depth > e.res.Depth {
		e.res.Depth = depth
	}
	if depth > 8 {
		e.amb("reference chain deeper than 8")
		return true, "", ""
	}
	if kind == "null" {
		if boolRule(rr, "nullable") {
			if _, has := ruleOf(rr, "type"); has {
				e.amb("null example against a type rule")
			}
			if _, has := ruleOf(rr, "or"); has {
				e.amb("null example against an or rule")
			}
			return true, "", ""
		}
	}
	var d *dec.Dec
	if isNum(kind) {
		d = dec.Parse(lit)
	}
	var str string
	if kind == "string" {
		str = model.LitVal(lit).Str
	}
	for _, r := range rr {
		v := r.Val
		switch r.Name {
		case "min", "max":
			if d == nil {
				return false, r.Name, "not a number"
			}
			b := dec.Parse(v.Lit)
			c := d.Cmp(b)
			excl := boolRule(rr, "exclusiveMinimum")
			if r.Name == "max" {
				c = -c
				excl = boolRule(rr, "exclusiveMaximum")
			}
			e.numBoundary(r.Name, d, b)
			if c < 0 || (excl && c == 0) {
				return false, r.Name, fmt.Sprintf("%s vs bound %s exclusive=%v", lit, v.Lit, excl)
			}
		case "minLength", "maxLength":
			// the length of a string is its number of characters (code points), as in JSON Schema / OpenAPI,
			// whose minLength / maxLength the converter fills with the very same numbers
			n := utf8.RuneCountInString(str)
			e.boundary(r.Name, n, atoi(v.Lit))
			if r.Name == "minLength" && n < atoi(v.Lit) {
				return false, r.Name, fmt.Sprintf("length %d < %s", n, v.Lit)
			}
			if r.Name == "maxLength" && n > atoi(v.Lit) {
				return false, r.Name, fmt.Sprintf("length %d > %s", n, v.Lit)
			}
		case "regex":
			re, err := regexp.Compile(v.Str)
			if err != nil {
				e.amb("regex does not compile")
				continue
			}
			if !re.MatchString(str) {
				return false, "regex", fmt.Sprintf("%q does not match /%s/", str, v.Str)
			}
		case "precision":
			if d == nil {
				return false, "precision", "not a number"
			}
			p := atoi(v.Lit)
			sig := int(d.FracDigits().Int64())
			raw := 0
			if i := strings.IndexByte(lit, '.'); i >= 0 {
				raw = len(lit) - i - 1
			}
			if raw > p && p >= sig {
				e.amb("precision between significant and written fraction digits")
			}
			e.boundary("precision", sig, p)
			if sig > p {
				return false, "precision", fmt.Sprintf("%d fraction digits > %d", sig, p)
			}
		case "enum":
			items := v.Items
			if v.K == "rule" {
				items = nil
				found := false
				for _, er := range e.p.Enums {
					if er.Name == v.Lit {
						items, found = er.Items, true
					}
				}
				if !found {
					e.amb("enum rule not defined")
					continue
				}
			}
			if !e.enumHas(items, lit, kind, str, d) {
				return false, "enum", fmt.Sprintf("%s is not listed", lit)
			}
		case "type":
			if ok, why := e.typeOK(v.Str, lit, kind, str, depth); !ok {
				return false, "type", why
			}
		case "or":
			sat := false
			var whys []string
			for _, alt := range v.Items {
				var ok bool
				var why string
				if alt.K == "str" {
					ok, why = e.typeOK(alt.Str, lit, kind, str, depth+1)
				} else {
					ok, _, why = e.scalar(lit, kind, alt.Rules, depth+1, own) // (a `const` in the rule-set pins the value to the example the `or` rule is written next to)
				}
				if ok {
					sat = true
				} else {
					whys = append(whys, why)
				}
			}
			if !sat {
				return false, "or", "no alternative fits: " + strings.Join(whys, "; ")
			}
		case "const":
			// the value must be the example the rule is written next to; on the example itself that is
			// trivially true, through a type reference it pins the referring example
			if v.Lit == "true" && lit != own {
				a, b := model.LitVal(lit), model.LitVal(own)
				if a.K == "str" && b.K == "str" && a.Str == b.Str {
					continue // the same string under another spelling of its escapes is the same value
				}
				if a.K == "num" && b.K == "num" && dec.Parse(lit) != nil && dec.Parse(own) != nil && dec.Parse(lit).Cmp(dec.Parse(own)) == 0 {
					e.amb("const: equal value spelled differently")
				}
				return false, "const", fmt.Sprintf("%s is not the constant %s", lit, own)
			}
		case "nullable", "optional", "exclusiveMinimum", "exclusiveMaximum":
			// no value condition of their own
		}
	}
	return true, "", ""
}

func (e *eval) numBoundary(rule string, v, b *dec.Dec) {
	c := v.Cmp(b)
	if c == 0 {
		e.res.Boundary = append(e.res.Boundary, rule+":at")
		return
	}
	// within one unit of the last written place of either operand
	if v.Coef != "" && b.Coef != "" && v.Sign() == b.Sign() {
		x, y := v.Coef, b.Coef
		if len(x) > 1 && len(y) > 1 && (strings.HasPrefix(x, y[:len(y)-1]) || strings.HasPrefix(y, x[:len(x)-1])) {
			side := "below"
			if c > 0 {
				side = "above"
			}
			e.res.Boundary = append(e.res.Boundary, rule+":"+side)
		}
	}
}

func (e *eval) enumHas(items []model.Val, lit, kind, str string, d *dec.Dec) bool {
	for _, it := range items {
		switch it.K {
		case "str":
			if kind == "string" && it.Str == str {
				return true
			}
		case "num":
			if isNum(kind) {
				if it.Lit == lit {
					return true
				}
				if x := dec.Parse(it.Lit); x != nil && d != nil && x.Cmp(d) == 0 {
					e.amb("enum item numerically equal but spelled differently")
				}
			}
		default:
			if it.Lit == lit {
				return true
			}
		}
	}
	return false
}

// typeOK: the literal against a type name (built-in, format, or user type)
func (e *eval) typeOK(t, lit, kind, str string, depth int) (bool, string) {
	if strings.HasPrefix(t, "@") {
		td := e.p.Type(t)
		if td == nil || e.p.IsWithheld(t) {
			e.amb("reference to a missing type")
			return true, ""
		}
		if td.Regex != "" {
			pat := regexBody(td.Regex)
			re, err := regexp.Compile(pat)
			if err != nil {
				e.amb("regex type does not compile")
				return true, ""
			}
			if kind != "string" {
				return false, "not a string for regex type " + t
			}
			if !re.MatchString(str) {
				return false, fmt.Sprintf("%q does not match %s", str, td.Regex)
			}
			return true, ""
		}
		tn := td.Node
		if kind == "null" {
			// the repository refuses `null // {type: "integer", nullable: true}` with a compile error, so
			// what a null example means against a reference is not settled either way
			e.amb("null example against a user type reference")
			return true, ""
		}
		switch tn.Kind {
		case "object", "array":
			return false, "scalar example against container type " + t
		case "ref":
			return e.typeOK(tn.Refs[0], lit, kind, str, depth+1)
		case "choice":
			for _, r := range tn.Refs {
				if ok, _ := e.typeOK(r, lit, kind, str, depth+1); ok {
					return true, ""
				}
			}
			return false, "no alternative of " + t + " fits"
		}
		// scalar type: kinds must agree (unless the type says otherwise through its own rules)
		if kind == "null" && boolRule(tn.Rules, "nullable") {
			e.amb("null example against a reference to a nullable type")
			return true, ""
		}
		if tn.Kind != kind {
			_, a := ruleOf(tn.Rules, "type")
			_, b := ruleOf(tn.Rules, "or")
			_, c := ruleOf(tn.Rules, "enum")
			if a || b || c {
				// whether a type declared `any` / `enum` / `or` / with an explicit type admits examples of
				// another JSON kind than its own example is not settled by the documentation
				e.amb("example of another kind than the example of a referenced type that declares its type by rule")
				return true, ""
			}
		}
		if _, hasType := ruleOf(tn.Rules, "type"); !hasType {
			if _, hasOr := ruleOf(tn.Rules, "or"); !hasOr {
				if _, hasEnum := ruleOf(tn.Rules, "enum"); !hasEnum {
					want := tn.Kind
					if _, hasPrec := ruleOf(tn.Rules, "precision"); hasPrec {
						want = "float"
					}
					if want != kind {
						if isNum(want) && isNum(kind) {
							e.amb("integer/float literal against a float/integer user type")
						}
						return false, fmt.Sprintf("%s example against %s type %s", kind, tn.Kind, t)
					}
				}
			}
		}
		ok, rule, why := e.scalar(lit, kind, tn.Rules, depth+1, tn.Lit)
		if !ok {
			return false, t + ": " + rule + ": " + why
		}
		return true, ""
	}
	if !e.kindFits(kind, t) {
		return false, fmt.Sprintf("%s literal is not of type %s", kind, t)
	}
	switch t {
	case "email", "uri", "uuid", "date", "datetime":
		ok, known := FormatOK(t, str)
		if !known {
			e.amb("format value outside the crisp pools")
			return true, ""
		}
		if !ok {
			return false, fmt.Sprintf("%q is not a valid %s", str, t)
		}
	}
	return true, ""
}

func regexBody(s string) string {
	if len(s) >= 2 && s[0] == '/' {
		for i := 1; i < len(s); i++ {
			if s[i] == '/' {
				bs := 0
				for j := i - 1; j >= 1 && s[j] == '\\'; j-- {
					bs++
				}
				if bs%2 == 0 {
					return s[1:i]
				}
			}
		}
	}
	return s
}

func isASCII(s string) bool {
	for i := 0; i < len(s); i++ {
		if s[i] >= utf8.RuneSelf {
			return false
		}
	}
	return true
}

func abs(x int) int {
	if x < 0 {
		return -x
	}
	return x
}
