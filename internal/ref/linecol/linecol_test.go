package linecol

import "testing"

func TestAt(t *testing.T) {
	cases := []struct {
		text string
		idx  int
		l, c int
		lt   string
		term bool
	}{
		{"abc", 1, 1, 2, "abc", false},
		{"ab\ncd", 3, 2, 1, "cd", false},
		{"ab\ncd", 2, 1, 3, "ab", true},
		{"ab\r\ncd\r\nef", 7, 2, 4, "cd", true},
		{"ab\r\ncd\r\nef", 8, 3, 1, "ef", false},
		{"ab\rcd", 3, 2, 1, "cd", false},
		{"\n\nx", 2, 3, 1, "x", false},
	}
	for i, c := range cases {
		l, col, lt, term := At(c.text, c.idx, Convention(c.text))
		if l != c.l || col != c.c || lt != c.lt || term != c.term {
			t.Errorf("case %d: got %d:%d %q %v", i, l, col, lt, term)
		}
	}
	if Convention("a\r\nb\nc") != "mixed" || Convention("a\rb\r\nc") != "mixed" || Convention("abc") != "" {
		t.Error("convention")
	}
}
