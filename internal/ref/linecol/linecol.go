// Package linecol computes the 1-based line and column of a byte offset under a text's own newline
// convention (LF, CRLF or CR).
package linecol

import "strings"

// Convention returns "\n", "\r\n", "\r", "" (no line break in the text) or "mixed".
func Convention(text string) string {
	hasLF, hasCR, hasCRLF := false, false, false
	for i := 0; i < len(text); i++ {
		switch text[i] {
		case '\r':
			if i+1 < len(text) && text[i+1] == '\n' {
				hasCRLF = true
				i++
			} else {
				hasCR = true
			}
		case '\n':
			hasLF = true
		}
	}
	n := 0
	for _, b := range []bool{hasLF, hasCR, hasCRLF} {
		if b {
			n++
		}
	}
	switch {
	case n == 0:
		return ""
	case n > 1:
		return "mixed"
	case hasCRLF:
		return "\r\n"
	case hasCR:
		return "\r"
	}
	return "\n"
}

// At returns line, column (1-based) of byte index idx, the text of that line (without terminator),
// and whether idx points at a terminator byte.
func At(text string, idx int, conv string) (line, col int, lineText string, onTerminator bool) {
	if conv == "" {
		return 1, idx + 1, text, false
	}
	line = 1
	start := 0
	for {
		k := strings.Index(text[start:], conv)
		if k < 0 || start+k+len(conv) > idx {
			// idx lies in this line (or in its terminator)
			end := len(text)
			if k >= 0 {
				end = start + k
			}
			onTerminator = k >= 0 && idx >= end
			return line, idx - start + 1, text[start:end], onTerminator
		}
		start += k + len(conv)
		line++
	}
}
