// Package oas is an independent OpenAPI 3.0 Schema Object judge: a well-formedness checker and an
// instance validator ($ref into a components map, exact decimal minimum/maximum/multipleOf, nullable,
// boolean exclusive*, enum, allOf/anyOf/oneOf/not, items, properties/required/additionalProperties,
// minLength/maxLength in code points, pattern as RE2, format only for the crisp pools of ref/rules).
package oas

import (
	"fmt"
	"math/big"
	"regexp"
	"sort"
	"strconv"
	"strings"
	"unicode/utf8"

	"verif/internal/ref/dec"
	"verif/internal/ref/jsonv"
	"verif/internal/ref/rules"
)

type Err struct {
	Keyword string
	Path    string // schema keyword path with keys and indices erased
	Msg     string
	// AllOfVsAdditional is set when the failure comes from additionalProperties of an object schema
	// that is combined with allOf (beside it or inside one of its branches): OpenAPI 3.0's
	// additionalProperties does not see the properties of sibling allOf branches.
	AllOfVsAdditional bool
}

func (e *Err) Error() string { return e.Keyword + " at " + e.Path + ": " + e.Msg }

type Ctx struct {
	Components map[string]*jsonv.Value
	depth      int
	// TolerateAllOfAdditional: additionalProperties of an object schema that is combined with allOf is not
	// applied (the recorded finding "allOf beside additionalProperties"); Tolerated counts the places, so that
	// whatever else is wrong with the instance is still found
	TolerateAllOfAdditional bool
	Tolerated               int
}

var keywords = map[string]bool{"type": true, "properties": true, "required": true, "additionalProperties": true, "items": true, "minItems": true, "maxItems": true, "enum": true, "minimum": true, "maximum": true, "exclusiveMinimum": true, "exclusiveMaximum": true, "minLength": true, "maxLength": true, "pattern": true, "format": true, "multipleOf": true, "nullable": true, "allOf": true, "anyOf": true, "oneOf": true, "not": true, "$ref": true, "example": true, "description": true, "title": true, "default": true, "uniqueItems": true, "minProperties": true, "maxProperties": true, "readOnly": true, "writeOnly": true, "deprecated": true, "discriminator": true, "xml": true, "externalDocs": true}

var uintRe = regexp.MustCompile(`^[0-9]+$`)

func rat(s string) *big.Rat {
	d := dec.Parse(s)
	if d == nil {
		return new(big.Rat)
	}
	return d.Rat()
}

// WellFormed checks that s is a well-formed OpenAPI 3.0 Schema Object.
func WellFormed(s *jsonv.Value, path string, ctx *Ctx) error {
	if s == nil || s.Kind != jsonv.Object {
		return &Err{Keyword: "schema", Path: path, Msg: "a schema must be an object"}
	}
	seen := map[string]bool{}
	for i, k := range s.Keys {
		if seen[k] {
			return &Err{Keyword: "duplicate-keyword", Path: path, Msg: "duplicate keyword " + k}
		}
		seen[k] = true
		v := s.Vals[i]
		if !keywords[k] && !strings.HasPrefix(k, "x-") {
			return &Err{Keyword: "unknown-keyword", Path: path, Msg: "unknown keyword " + k}
		}
		switch k {
		case "type":
			if v.Kind != jsonv.String || !map[string]bool{"string": true, "integer": true, "number": true, "boolean": true, "array": true, "object": true}[v.Str] {
				return &Err{Keyword: "type", Path: path, Msg: "type must be one of the six OpenAPI 3.0 type names, got " + v.Canon()}
			}
		case "properties":
			if v.Kind != jsonv.Object {
				return &Err{Keyword: k, Path: path, Msg: "must be an object"}
			}
			ks := map[string]bool{}
			for j, pk := range v.Keys {
				if ks[pk] {
					return &Err{Keyword: k, Path: path, Msg: "duplicate property " + pk}
				}
				ks[pk] = true
				if err := WellFormed(v.Vals[j], path+"/properties/*", ctx); err != nil {
					return err
				}
			}
		case "required":
			if v.Kind != jsonv.Array {
				return &Err{Keyword: k, Path: path, Msg: "must be an array"}
			}
			ks := map[string]bool{}
			for _, it := range v.Items {
				if it.Kind != jsonv.String || ks[it.Str] {
					return &Err{Keyword: k, Path: path, Msg: "items must be unique strings"}
				}
				ks[it.Str] = true
			}
		case "additionalProperties":
			if v.Kind == jsonv.Bool {
				continue
			}
			if err := WellFormed(v, path+"/additionalProperties", ctx); err != nil {
				return err
			}
		case "items", "not":
			if err := WellFormed(v, path+"/"+k, ctx); err != nil {
				return err
			}
		case "allOf", "anyOf", "oneOf":
			if v.Kind != jsonv.Array || len(v.Items) == 0 {
				return &Err{Keyword: k, Path: path, Msg: "must be a non-empty array"}
			}
			for _, it := range v.Items {
				if err := WellFormed(it, path+"/"+k+"/*", ctx); err != nil {
					return err
				}
			}
		case "minItems", "maxItems", "minLength", "maxLength", "minProperties", "maxProperties":
			if v.Kind != jsonv.Number || !uintRe.MatchString(v.Num) {
				return &Err{Keyword: k, Path: path, Msg: "must be a non-negative integer, got " + v.Canon()}
			}
		case "minimum", "maximum":
			if v.Kind != jsonv.Number {
				return &Err{Keyword: k, Path: path, Msg: "must be a number"}
			}
		case "multipleOf":
			if v.Kind != jsonv.Number || rat(v.Num).Sign() <= 0 {
				return &Err{Keyword: k, Path: path, Msg: "must be a positive number"}
			}
		case "exclusiveMinimum", "exclusiveMaximum", "nullable", "uniqueItems", "readOnly", "writeOnly", "deprecated":
			if v.Kind != jsonv.Bool {
				return &Err{Keyword: k, Path: path, Msg: "must be a boolean (OpenAPI 3.0)"}
			}
		case "pattern":
			if v.Kind != jsonv.String {
				return &Err{Keyword: k, Path: path, Msg: "must be a string"}
			}
			if _, err := regexp.Compile(v.Str); err != nil {
				return &Err{Keyword: k, Path: path, Msg: "pattern does not compile"}
			}
		case "format", "description", "title":
			if v.Kind != jsonv.String {
				return &Err{Keyword: k, Path: path, Msg: "must be a string"}
			}
		case "enum":
			if v.Kind != jsonv.Array || len(v.Items) == 0 {
				return &Err{Keyword: k, Path: path, Msg: "must be a non-empty array"}
			}
		case "$ref":
			if v.Kind != jsonv.String || !strings.HasPrefix(v.Str, "#/components/schemas/") {
				return &Err{Keyword: k, Path: path, Msg: "unsupported $ref " + v.Canon()}
			}
			name := strings.TrimPrefix(v.Str, "#/components/schemas/")
			if _, ok := ctx.Components[name]; !ok {
				return &Err{Keyword: k, Path: path, Msg: "unresolvable $ref " + v.Str}
			}
		}
	}
	return nil
}

// Equal compares two JSON values (numbers by value, objects regardless of key order).
func Equal(a, b *jsonv.Value) bool {
	if a.Kind != b.Kind {
		return false
	}
	switch a.Kind {
	case jsonv.String:
		return a.Str == b.Str
	case jsonv.Number:
		return rat(a.Num).Cmp(rat(b.Num)) == 0
	case jsonv.Bool:
		return a.Bool == b.Bool
	case jsonv.Null:
		return true
	case jsonv.Array:
		if len(a.Items) != len(b.Items) {
			return false
		}
		for i := range a.Items {
			if !Equal(a.Items[i], b.Items[i]) {
				return false
			}
		}
		return true
	case jsonv.Object:
		if len(a.Keys) != len(b.Keys) {
			return false
		}
		for i, k := range a.Keys {
			bv := b.Get(k)
			if bv == nil || !Equal(a.Vals[i], bv) {
				return false
			}
		}
		return true
	}
	return false
}

func atoi(s string) int {
	n, err := strconv.Atoi(s)
	if err != nil {
		return 1 << 30
	}
	return n
}

func kindName(k jsonv.Kind) string { return k.String() }

// Validate judges an instance against a schema.
func Validate(inst, s *jsonv.Value, path string, ctx *Ctx) error {
	if ctx.depth > 20000 {
		return &Err{Keyword: "depth", Path: path, Msg: "schema recursion deeper than 20000 (a $ref loop that consumes nothing of the instance)"}
	}
	ctx.depth++
	defer func() { ctx.depth-- }()
	if ref := s.Get("$ref"); ref != nil {
		name := strings.TrimPrefix(ref.Str, "#/components/schemas/")
		t, ok := ctx.Components[name]
		if !ok {
			return &Err{Keyword: "$ref", Path: path, Msg: "unresolvable " + ref.Str}
		}
		return Validate(inst, t, path+"/$ref", ctx)
	}
	// lenient reading of nullable: null is an instance whatever else the schema says
	if n := s.Get("nullable"); n != nil && n.Bool && inst.Kind == jsonv.Null {
		return nil
	}
	if t := s.Get("type"); t != nil {
		ok := false
		switch t.Str {
		case "string":
			ok = inst.Kind == jsonv.String
		case "boolean":
			ok = inst.Kind == jsonv.Bool
		case "array":
			ok = inst.Kind == jsonv.Array
		case "object":
			ok = inst.Kind == jsonv.Object
		case "number":
			ok = inst.Kind == jsonv.Number
		case "integer":
			ok = inst.Kind == jsonv.Number && rat(inst.Num).IsInt()
		}
		if !ok {
			return &Err{Keyword: "type", Path: path, Msg: fmt.Sprintf("a %s instance is not of type %s", kindName(inst.Kind), t.Str)}
		}
	}
	if e := s.Get("enum"); e != nil {
		found := false
		for _, it := range e.Items {
			if Equal(it, inst) {
				found = true
			}
		}
		if !found {
			return &Err{Keyword: "enum", Path: path, Msg: inst.Canon() + " is not one of " + e.Canon()}
		}
	}
	if inst.Kind == jsonv.Number {
		v := rat(inst.Num)
		if m := s.Get("minimum"); m != nil {
			c := v.Cmp(rat(m.Num))
			ex := s.Get("exclusiveMinimum")
			if c < 0 || (c == 0 && ex != nil && ex.Bool) {
				return &Err{Keyword: "minimum", Path: path, Msg: inst.Num + " is below minimum " + m.Num}
			}
		}
		if m := s.Get("maximum"); m != nil {
			c := v.Cmp(rat(m.Num))
			ex := s.Get("exclusiveMaximum")
			if c > 0 || (c == 0 && ex != nil && ex.Bool) {
				return &Err{Keyword: "maximum", Path: path, Msg: inst.Num + " is above maximum " + m.Num}
			}
		}
		if m := s.Get("multipleOf"); m != nil {
			if q := new(big.Rat).Quo(v, rat(m.Num)); !q.IsInt() {
				return &Err{Keyword: "multipleOf", Path: path, Msg: inst.Num + " is not a multiple of " + m.Num}
			}
		}
	}
	if inst.Kind == jsonv.String {
		n := utf8.RuneCountInString(inst.Str)
		if m := s.Get("minLength"); m != nil && n < atoi(m.Num) {
			return &Err{Keyword: "minLength", Path: path, Msg: "string shorter than " + m.Num}
		}
		if m := s.Get("maxLength"); m != nil && n > atoi(m.Num) {
			return &Err{Keyword: "maxLength", Path: path, Msg: "string longer than " + m.Num}
		}
		if p := s.Get("pattern"); p != nil {
			if re, err := regexp.Compile(p.Str); err == nil && !re.MatchString(inst.Str) {
				return &Err{Keyword: "pattern", Path: path, Msg: fmt.Sprintf("%q does not match %q", inst.Str, p.Str)}
			}
		}
		if f := s.Get("format"); f != nil {
			name := map[string]string{"date": "date", "date-time": "datetime", "email": "email", "uri": "uri", "uuid": "uuid"}[f.Str]
			if name != "" {
				if ok, known := rules.FormatOK(name, inst.Str); known && !ok {
					return &Err{Keyword: "format", Path: path, Msg: fmt.Sprintf("%q is not a valid %s", inst.Str, f.Str)}
				}
			}
		}
	}
	if inst.Kind == jsonv.Array {
		if m := s.Get("minItems"); m != nil && len(inst.Items) < atoi(m.Num) {
			return &Err{Keyword: "minItems", Path: path, Msg: "fewer items than " + m.Num}
		}
		if m := s.Get("maxItems"); m != nil && len(inst.Items) > atoi(m.Num) {
			return &Err{Keyword: "maxItems", Path: path, Msg: "more items than " + m.Num}
		}
		if it := s.Get("items"); it != nil {
			for _, e := range inst.Items {
				if err := Validate(e, it, path+"/items", ctx); err != nil {
					return err
				}
			}
		}
	}
	if inst.Kind == jsonv.Object {
		props := s.Get("properties")
		if r := s.Get("required"); r != nil {
			for _, k := range r.Items {
				if !inst.Has(k.Str) {
					return &Err{Keyword: "required", Path: path, Msg: "missing property " + k.Str}
				}
			}
		}
		for i, k := range inst.Keys {
			if props != nil {
				if ps := props.Get(k); ps != nil {
					if err := Validate(inst.Vals[i], ps, path+"/properties/*", ctx); err != nil {
						return err
					}
					continue
				}
			}
			if ap := s.Get("additionalProperties"); ap != nil {
				combined := s.Has("allOf") || strings.Contains(path, "/allOf")
				if combined && ctx.TolerateAllOfAdditional {
					ctx.Tolerated++
					continue
				}
				if ap.Kind == jsonv.Bool {
					if !ap.Bool {
						return &Err{Keyword: "additionalProperties", Path: path, Msg: "unexpected property " + k, AllOfVsAdditional: combined}
					}
				} else if err := Validate(inst.Vals[i], ap, path+"/additionalProperties", ctx); err != nil {
					if e, ok := err.(*Err); ok && combined {
						e.AllOfVsAdditional = true
					}
					return err
				}
			}
		}
	}
	if a := s.Get("allOf"); a != nil {
		for _, sub := range a.Items {
			if err := Validate(inst, sub, path+"/allOf", ctx); err != nil {
				return err
			}
		}
	}
	if a := s.Get("anyOf"); a != nil {
		var errs []string
		ok := false
		flagged := false
		for _, sub := range a.Items {
			err := Validate(inst, sub, path+"/anyOf", ctx)
			if err == nil {
				ok = true
				break
			}
			if e, isErr := err.(*Err); isErr && e.AllOfVsAdditional {
				flagged = true
			}
			errs = append(errs, err.Error())
		}
		if !ok {
			sort.Strings(errs)
			return &Err{Keyword: "anyOf", Path: path, Msg: "no alternative matches: " + strings.Join(errs, " | "), AllOfVsAdditional: flagged}
		}
	}
	if a := s.Get("oneOf"); a != nil {
		n := 0
		for _, sub := range a.Items {
			if Validate(inst, sub, path+"/oneOf", ctx) == nil {
				n++
			}
		}
		if n != 1 {
			return &Err{Keyword: "oneOf", Path: path, Msg: fmt.Sprintf("%d alternatives match", n)}
		}
	}
	if nt := s.Get("not"); nt != nil {
		if Validate(inst, nt, path+"/not", ctx) == nil {
			return &Err{Keyword: "not", Path: path, Msg: "instance matches the negated schema"}
		}
	}
	return nil
}

// Shape erases property names and indices from a keyword path (for signatures).
var shapeRe = regexp.MustCompile(`(/properties/\*|/items|/\$ref|/additionalProperties)+`)

func Shape(path string) string { return shapeRe.ReplaceAllString(path, "/..") }
