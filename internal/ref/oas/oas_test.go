package oas

import (
	"testing"

	"verif/internal/ref/jsonv"
)

func j(s string) *jsonv.Value {
	v, err := jsonv.Parse([]byte(s))
	if err != nil {
		panic(err)
	}
	return v
}

func TestValidator(t *testing.T) {
	ctx := &Ctx{Components: map[string]*jsonv.Value{
		"int": j(`{"type":"integer","minimum":1}`),
		"rec": j(`{"type":"object","properties":{"r":{"$ref":"#/components/schemas/rec"}},"additionalProperties":false}`),
	}}
	cases := []struct {
		inst, schema string
		ok           bool
	}{
		{`1`, `{"type":"integer"}`, true},
		{`1.0`, `{"type":"integer"}`, true},
		{`1.5`, `{"type":"integer"}`, false},
		{`"a"`, `{"type":"integer"}`, false},
		{`null`, `{"type":"integer","nullable":true}`, true},
		{`null`, `{"type":"integer"}`, false},
		{`5`, `{"type":"number","minimum":5,"exclusiveMinimum":true}`, false},
		{`5`, `{"type":"number","minimum":5,"exclusiveMinimum":false}`, true},
		{`5.10`, `{"maximum":5.1}`, true},
		{`0.30`, `{"multipleOf":0.01}`, true},
		{`0.305`, `{"multipleOf":0.01}`, false},
		{`"é"`, `{"maxLength":1}`, true},
		{`"ab"`, `{"pattern":"^a"}`, true},
		{`"ba"`, `{"pattern":"^a"}`, false},
		{`[1,2]`, `{"type":"array","items":{"type":"integer"},"maxItems":2}`, true},
		{`[1,"x"]`, `{"type":"array","items":{"type":"integer"}}`, false},
		{`{"a":1}`, `{"type":"object","properties":{"a":{"type":"integer"}},"required":["a"],"additionalProperties":false}`, true},
		{`{"a":1,"b":2}`, `{"type":"object","properties":{"a":{"type":"integer"}},"additionalProperties":false}`, false},
		{`{"b":"x"}`, `{"type":"object","additionalProperties":{"type":"string"}}`, true},
		{`{}`, `{"required":["a"]}`, false},
		{`1`, `{"enum":[1.0,"a"]}`, true},
		{`2`, `{"enum":[1,"a"]}`, false},
		{`"x"`, `{"anyOf":[{"type":"integer"},{"type":"string"}]}`, true},
		{`true`, `{"anyOf":[{"type":"integer"},{"type":"string"}]}`, false},
		{`0`, `{"$ref":"#/components/schemas/int"}`, false},
		{`{"r":{"r":{}}}`, `{"$ref":"#/components/schemas/rec"}`, true},
		{`{"r":{"x":1}}`, `{"$ref":"#/components/schemas/rec"}`, false},
		{`{"a":1,"b":2}`, `{"allOf":[{"type":"object","properties":{"a":{}},"additionalProperties":false},{"type":"object","properties":{"b":{}}}]}`, false},
		{`"2021-02-29"`, `{"type":"string","format":"date"}`, false},
		{`"2020-02-29"`, `{"type":"string","format":"date"}`, true},
	}
	for i, c := range cases {
		s := j(c.schema)
		if err := WellFormed(s, "#", ctx); err != nil {
			t.Errorf("case %d: schema ill-formed: %v", i, err)
		}
		err := Validate(j(c.inst), s, "#", ctx)
		if (err == nil) != c.ok {
			t.Errorf("case %d: %s against %s: got %v want ok=%v", i, c.inst, c.schema, err, c.ok)
		}
	}
	for _, bad := range []string{`{"type":"null"}`, `{"type":["string","null"]}`, `{"exclusiveMinimum":1}`, `{"required":["a","a"]}`, `{"$ref":"#/components/schemas/nope"}`, `{"minLength":-1}`, `{"foo":1}`, `{"anyOf":[]}`, `{"pattern":"["}`, `[]`, `{"$ref":"#/components/schemas/@int"}`} {
		if err := WellFormed(j(bad), "#", ctx); err == nil {
			t.Errorf("ill-formed schema accepted: %s", bad)
		}
	}
}
