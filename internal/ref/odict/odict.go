// Package odict is the reference model for C19: a plain insertion-ordered dictionary.
package odict

type Dict struct {
	Keys []string
	Vals map[string]string
}

func New() *Dict { return &Dict{Vals: map[string]string{}} }

func (d *Dict) Has(k string) bool { _, ok := d.Vals[k]; return ok }

func (d *Dict) Set(k, v string) {
	if !d.Has(k) {
		d.Keys = append(d.Keys, k)
	}
	d.Vals[k] = v
}

func (d *Dict) Delete(k string) {
	if !d.Has(k) {
		return
	}
	delete(d.Vals, k)
	for i, kk := range d.Keys {
		if kk == k {
			d.Keys = append(append([]string{}, d.Keys[:i]...), d.Keys[i+1:]...)
			return
		}
	}
}

func (d *Dict) Len() int { return len(d.Keys) }

// Snapshot returns the ordered key list (copy).
func (d *Dict) Snapshot() []string { return append([]string{}, d.Keys...) }
