// Package corpus extracts the string literals of the repository's own test files at run time (with
// go/parser): thousands of schema texts, JSON documents, enum rules and negative cases written by the
// maintainers. They seed the checks that mutate or re-layout existing texts.
package corpus

import (
	"go/ast"
	"go/parser"
	"go/token"
	"os"
	"path/filepath"
	"sort"
	"strconv"
	"strings"
	"sync"
)

var (
	once sync.Once
	all  []string
)

func repo() string {
	if r := os.Getenv("VERIF_REPO"); r != "" {
		return r
	}
	return "/repo"
}

// Literals returns the distinct string literals (2..2000 bytes) of all *_test.go files, sorted.
func Literals() []string {
	once.Do(func() {
		seen := map[string]bool{}
		filepath.Walk(repo(), func(path string, info os.FileInfo, err error) error {
			if err != nil {
				return nil
			}
			if info.IsDir() && (info.Name() == ".git" || info.Name() == "vendor") {
				return filepath.SkipDir
			}
			if info.IsDir() || !strings.HasSuffix(path, "_test.go") {
				return nil
			}
			fset := token.NewFileSet()
			f, err := parser.ParseFile(fset, path, nil, 0)
			if err != nil {
				return nil
			}
			ast.Inspect(f, func(n ast.Node) bool {
				if bl, ok := n.(*ast.BasicLit); ok && bl.Kind == token.STRING {
					if s, err := strconv.Unquote(bl.Value); err == nil && len(s) >= 1 && len(s) <= 2000 {
						seen[s] = true
					}
				}
				return true
			})
			return nil
		})
		for s := range seen {
			all = append(all, s)
		}
		sort.Strings(all)
	})
	return all
}

// LooksLikeSchema is a cheap syntactic filter: texts that begin like an example value.
func LooksLikeSchema(s string) bool {
	t := strings.TrimLeft(s, " \t\r\n")
	if t == "" {
		return false
	}
	switch c := t[0]; {
	case c == '{' || c == '[' || c == '"' || c == '@' || c == '-' || (c >= '0' && c <= '9'):
		return true
	case strings.HasPrefix(t, "true") || strings.HasPrefix(t, "false") || strings.HasPrefix(t, "null"):
		return true
	}
	return false
}
