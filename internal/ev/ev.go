// Package ev is the bookkeeping shared by all property checks: it counts generated cases,
// measures how many distinct non-trivial ones there were, keeps samples, matches violations
// against KNOWN_FINDINGS.txt, writes replay files and flushes everything to a per-process
// stats file which the driver (../../check) merges into evidence/<ID>.json.
//
// Nothing in here decides a property; oracles live next to their generators in props/cNN.
package ev

import (
	"bufio"
	"crypto/sha256"
	"encoding/binary"
	"encoding/hex"
	"encoding/json"
	"flag"
	"fmt"
	"hash/fnv"
	"os"
	"path/filepath"
	"sort"
	"strconv"
	"strings"
	"sync"
	"testing"
	"time"

	"pgregory.net/rapid"
)

// Verdict describes one violation found by an oracle. A nil *Verdict means "property held".
type Verdict struct {
	Sig    string `json:"sig"`    // stable signature computed from the failure itself (no spaces)
	Detail string `json:"detail"` // human readable: expected vs. got
}

// V is a convenience constructor.
func V(sig, format string, a ...any) *Verdict {
	return &Verdict{Sig: strings.ReplaceAll(sig, " ", "_"), Detail: fmt.Sprintf(format, a...)}
}

type violRec struct {
	Check  string          `json:"check"`
	Sig    string          `json:"sig"`
	Detail string          `json:"detail"`
	Case   json.RawMessage `json:"case"`
	File   string          `json:"file"`
	Count  int64           `json:"count"`
}

type checkStat struct {
	Evaluations  int64            `json:"evaluations"`
	NonTrivial   int64            `json:"nontrivial"`           // non-trivial evaluations (not distinct)
	EnumDistinct int64            `json:"enum_distinct"`        // distinct-by-construction non-trivial cases (enumerations)
	Classes      map[string]int64 `json:"classes,omitempty"`    // histogram
	Excluded     map[string]int64 `json:"excluded,omitempty"`   // excluded_ambiguous etc.
	Samples      []any            `json:"samples,omitempty"`    // a few actual cases
	Exhaustive   []string         `json:"exhaustive,omitempty"` // completed enumerations with bounds
	Notes        []string         `json:"notes,omitempty"`
}

type stats struct {
	Property   string                `json:"property"`
	Tier       string                `json:"tier"`
	Seed       int64                 `json:"seed"`
	Shard      int                   `json:"shard"`
	Shards     int                   `json:"shards"`
	Checks     map[string]*checkStat `json:"checks"`
	Known      map[string]int64      `json:"known"`         // known signature -> hits
	KnownEx    map[string]string     `json:"known_example"` // known signature -> one example detail
	Violations map[string]*violRec   `json:"violations"`    // sig -> record
	WallS      float64               `json:"wall_s"`
	Complete   bool                  `json:"complete"` // set by Flush at normal end of the process
}

type knownEntry struct{ prop, sig, text string }

var (
	mu        sync.Mutex
	st        stats
	distinct  = map[uint64]struct{}{}
	known     []knownEntry
	outDir    string
	started   time.Time
	inited    bool
	replayers = map[string]func(json.RawMessage) *Verdict{}
)

const maxSamples = 4

func envInt(name string, def int64) int64 {
	if v := os.Getenv(name); v != "" {
		if n, err := strconv.ParseInt(v, 10, 64); err == nil {
			return n
		}
	}
	return def
}

// Main is called from every props package's TestMain.
func Main(m *testing.M, property string) {
	flag.Parse()
	initState(property)
	code := m.Run()
	Flush(true)
	os.Exit(code)
}

func initState(property string) {
	mu.Lock()
	defer mu.Unlock()
	if inited {
		return
	}
	inited = true
	started = time.Now()
	st = stats{Property: property, Checks: map[string]*checkStat{}, Known: map[string]int64{},
		KnownEx: map[string]string{}, Violations: map[string]*violRec{}}
	st.Tier = os.Getenv("VERIF_TIER")
	if st.Tier != "thorough" {
		st.Tier = "quick"
	}
	st.Seed = envInt("VERIF_SEED", 1)
	if st.Seed == 0 {
		st.Seed = 1
	}
	st.Shard = int(envInt("VERIF_SHARD", 0))
	st.Shards = int(envInt("VERIF_SHARDS", 1))
	if st.Shards < 1 {
		st.Shards = 1
	}
	outDir = os.Getenv("VERIF_OUT")
	if outDir == "" {
		outDir = os.TempDir()
	}
	loadKnown(property)
}

func loadKnown(property string) {
	path := os.Getenv("VERIF_KNOWN")
	if path == "" {
		path = "/verif/KNOWN_FINDINGS.txt"
	}
	f, err := os.Open(path)
	if err != nil {
		return
	}
	defer f.Close()
	sc := bufio.NewScanner(f)
	for sc.Scan() {
		line := strings.TrimSpace(sc.Text())
		if !strings.HasPrefix(line, "known:") {
			continue
		}
		var e knownEntry
		rest := strings.Fields(strings.TrimPrefix(line, "known:"))
		var text []string
		for _, w := range rest {
			switch {
			case strings.HasPrefix(w, "property=") && e.prop == "":
				e.prop = strings.TrimPrefix(w, "property=")
			case strings.HasPrefix(w, "sig=") && e.sig == "":
				e.sig = strings.TrimPrefix(w, "sig=")
			default:
				text = append(text, w)
			}
		}
		e.text = strings.Join(text, " ")
		if e.prop == property && e.sig != "" {
			known = append(known, e)
		}
	}
}

// IsKnown reports whether a signature is listed as a known finding for this property.
func IsKnown(sig string) bool {
	for _, k := range known {
		if k.sig == sig {
			return true
		}
	}
	return false
}

func Quick() bool       { return st.Tier == "quick" }
func Thorough() bool    { return st.Tier == "thorough" }
func Seed() int64       { return st.Seed }
func Shard() (int, int) { return st.Shard, st.Shards }

// N picks a size by tier.
func N(quick, thorough int) int {
	if Thorough() {
		return thorough
	}
	return quick
}

// Mine reports whether item i of a sharded enumeration belongs to this process.
func Mine(i int) bool { return i%st.Shards == st.Shard }

func cs(name string) *checkStat {
	c := st.Checks[name]
	if c == nil {
		c = &checkStat{Classes: map[string]int64{}, Excluded: map[string]int64{}}
		st.Checks[name] = c
	}
	return c
}

// Count adds n evaluations to a check.
func Count(name string, n int64) {
	mu.Lock()
	cs(name).Evaluations += n
	mu.Unlock()
}

// NonTrivial records a non-trivial case; key identifies the case for distinct counting.
func NonTrivial(name, key string) {
	h := fnv.New64a()
	h.Write([]byte(name))
	h.Write([]byte{0})
	h.Write([]byte(key))
	mu.Lock()
	cs(name).NonTrivial++
	distinct[h.Sum64()] = struct{}{}
	mu.Unlock()
}

// NonTrivialEnum records n non-trivial cases that are distinct by construction (an enumeration that
// visits every case once); no hashes are kept.
func NonTrivialEnum(name string, n int64) {
	mu.Lock()
	c := cs(name)
	c.NonTrivial += n
	c.EnumDistinct += n
	mu.Unlock()
}

func Class(name, class string) { ClassN(name, class, 1) }

func ClassN(name, class string, n int64) {
	mu.Lock()
	cs(name).Classes[class] += n
	mu.Unlock()
}

func Excluded(name, reason string) {
	mu.Lock()
	cs(name).Excluded[reason]++
	mu.Unlock()
}

// Sample keeps a few actual cases for the evidence file.
func Sample(name string, c any) {
	mu.Lock()
	defer mu.Unlock()
	k := cs(name)
	if len(k.Samples) < maxSamples {
		b, err := json.Marshal(c)
		if err == nil && len(b) < 4000 {
			k.Samples = append(k.Samples, json.RawMessage(b))
		}
	}
}

func WantSample(name string) bool {
	mu.Lock()
	defer mu.Unlock()
	return len(cs(name).Samples) < maxSamples
}

func Exhaustive(name, what string) {
	mu.Lock()
	cs(name).Exhaustive = append(cs(name).Exhaustive, what)
	mu.Unlock()
}

func Note(name, what string) {
	mu.Lock()
	k := cs(name)
	if len(k.Notes) < 20 {
		k.Notes = append(k.Notes, what)
	}
	mu.Unlock()
}

// Judge counts one evaluation of check `name` on case c with oracle result v. It returns true when
// v is a violation that is NOT a listed known finding (the caller should then fail the test so that
// the property library shrinks). Known findings are counted and reported as passing so that the
// search continues behind them.
func Judge(name string, c any, v *Verdict) bool {
	mu.Lock()
	cs(name).Evaluations++
	mu.Unlock()
	return Report(name, c, v)
}

// Report is Judge without counting an evaluation.
func Report(name string, c any, v *Verdict) bool {
	if v == nil {
		return false
	}
	if IsKnown(v.Sig) {
		mu.Lock()
		st.Known[v.Sig]++
		if _, ok := st.KnownEx[v.Sig]; !ok {
			st.KnownEx[v.Sig] = clip(v.Detail, 400)
		}
		mu.Unlock()
		return false
	}
	raw, err := json.Marshal(c)
	if err != nil {
		raw, _ = json.Marshal(fmt.Sprintf("%#v", c))
	}
	mu.Lock()
	defer mu.Unlock()
	r := st.Violations[v.Sig]
	if r == nil {
		r = &violRec{Check: name, Sig: v.Sig}
		st.Violations[v.Sig] = r
	}
	r.Count++
	// the last failing case of a signature wins: rapid's final re-run of the shrunk case and the
	// shortlex order of enumerators (first = smallest, see keepFirst) make this the minimal one
	if r.Case == nil || !keepFirst[name] {
		r.Case = raw
		r.Detail = clip(v.Detail, 4000)
		r.Check = name
		writeReplay(r)
	}
	return true
}

// Fuzz judges one input of a native fuzz target (the semantic oracle sits inside the target): a
// violation that is not a listed known finding fails the input, which makes the go fuzzer minimise
// and save it; the driver then re-judges the saved file through the replay path.
func Fuzz(t *testing.T, name string, v *Verdict) {
	if v == nil || IsKnown(v.Sig) || strings.HasPrefix(v.Sig, "harness:") {
		return
	}
	t.Fatalf("VIOLATION-CANDIDATE check=fuzz-%s sig=%s: %s", name, v.Sig, v.Detail)
}

var keepFirst = map[string]bool{}

// KeepFirst marks a check as an ordered enumeration whose first failure per signature is minimal.
func KeepFirst(name string) { mu.Lock(); keepFirst[name] = true; mu.Unlock() }

func clip(s string, n int) string {
	if len(s) > n {
		return s[:n] + "..."
	}
	return s
}

func writeReplay(r *violRec) {
	h := sha256.Sum256([]byte(st.Property + "\x00" + r.Sig))
	name := fmt.Sprintf("%s-%s.json", st.Property, hex.EncodeToString(h[:6]))
	dir := filepath.Join(outDir, "replays")
	os.MkdirAll(dir, 0o755)
	path := filepath.Join(dir, name)
	b, _ := json.MarshalIndent(map[string]any{
		"property": st.Property, "check": r.Check, "sig": r.Sig, "detail": r.Detail, "case": r.Case,
	}, "", " ")
	os.WriteFile(path, b, 0o644)
	r.File = name
}

// Flush writes the stats and the distinct-hash file.
func Flush(complete bool) {
	mu.Lock()
	defer mu.Unlock()
	if os.Getenv("VERIF_OUT") == "" {
		return
	}
	st.WallS = time.Since(started).Seconds()
	st.Complete = complete
	tag := fmt.Sprintf("%d-%d", st.Shard, os.Getpid())
	b, _ := json.Marshal(&st)
	os.WriteFile(filepath.Join(outDir, "stats-"+tag+".json"), b, 0o644)
	hs := make([]uint64, 0, len(distinct))
	for h := range distinct {
		hs = append(hs, h)
	}
	sort.Slice(hs, func(i, j int) bool { return hs[i] < hs[j] })
	buf := make([]byte, 8*len(hs))
	for i, h := range hs {
		binary.LittleEndian.PutUint64(buf[8*i:], h)
	}
	os.WriteFile(filepath.Join(outDir, "hashes-"+tag+".bin"), buf, 0o644)
}

// Guard records the case that is about to run in a side file so that the driver can attribute a
// process death (fatal error, stack overflow, deadline) to it.
func Guard(name string, c any) {
	if os.Getenv("VERIF_OUT") == "" {
		return
	}
	raw, _ := json.Marshal(c)
	b, _ := json.Marshal(map[string]any{"property": st.Property, "check": name, "case": json.RawMessage(raw)})
	os.WriteFile(filepath.Join(outDir, fmt.Sprintf("current-%d.json", st.Shard)), b, 0o644)
}

// Unguard removes the side file (called at normal end of a guarded section).
func Unguard() {
	if os.Getenv("VERIF_OUT") == "" {
		return
	}
	os.Remove(filepath.Join(outDir, fmt.Sprintf("current-%d.json", st.Shard)))
}

// ---- rapid integration

// RapidSeed returns the PRNG value for this process and check (never 0, which means "random").
func RapidSeed(name string) uint64 {
	h := fnv.New32a()
	h.Write([]byte(name))
	s := uint64(st.Seed)*1_000_003 + uint64(st.Shard)*7919 + uint64(h.Sum32()%1000)
	if s == 0 {
		s = 1
	}
	return s
}

// Rapid runs a generated-case property: gen draws a case (all randomness through rapid), oracle
// judges it without access to the generator. A failing case is shrunk by rapid; the shrunk case is
// what ends up in the replay file. checks is the number of cases for this process.
func Rapid[C any](t *testing.T, name string, checks int, gen func(*rapid.T) C, oracle func(C) *Verdict) {
	t.Helper()
	Register(name, oracle)
	os.RemoveAll("testdata/rapid")
	flag.Set("rapid.checks", strconv.Itoa(checks))
	flag.Set("rapid.seed", strconv.FormatUint(RapidSeed(name), 10))
	flag.Set("rapid.nofailfile", "true")
	before := evals(name)
	rapid.Check(t, func(rt *rapid.T) {
		c := gen(rt)
		v := oracle(c)
		if Judge(name, c, v) {
			rt.Fatalf("VIOLATION-CANDIDATE check=%s sig=%s: %s", name, v.Sig, v.Detail)
		}
	})
	if got := evals(name) - before; got < int64(checks) && !t.Failed() {
		// rapid reports OK when the go-test deadline cuts a run short; make that visible
		t.Errorf("INCONCLUSIVE check=%s ran %d of %d cases", name, got, checks)
	}
}

func evals(name string) int64 {
	mu.Lock()
	defer mu.Unlock()
	return cs(name).Evaluations
}

// Register makes an oracle available to TestReplay under the check's name.
func Register[C any](name string, oracle func(C) *Verdict) {
	mu.Lock()
	defer mu.Unlock()
	replayers[name] = func(raw json.RawMessage) *Verdict {
		var c C
		if err := json.Unmarshal(raw, &c); err != nil {
			return V("replay:undecodable", "cannot decode case: %v", err)
		}
		return oracle(c)
	}
}

// Replay re-runs the oracle on the case stored in $VERIF_REPLAY, bypassing every generator library.
// registerAll must have registered the package's oracles.
func Replay(t *testing.T) {
	path := os.Getenv("VERIF_REPLAY")
	if path == "" {
		t.Skip("VERIF_REPLAY not set")
	}
	b, err := os.ReadFile(path)
	if err != nil {
		t.Fatalf("INCONCLUSIVE cannot read replay: %v", err)
	}
	var f struct {
		Property string          `json:"property"`
		Check    string          `json:"check"`
		Sig      string          `json:"sig"`
		Case     json.RawMessage `json:"case"`
	}
	if err := json.Unmarshal(b, &f); err != nil {
		t.Fatalf("INCONCLUSIVE cannot parse replay: %v", err)
	}
	mu.Lock()
	fn := replayers[f.Check]
	mu.Unlock()
	if fn == nil {
		t.Fatalf("INCONCLUSIVE no oracle registered for check %q", f.Check)
	}
	Guard(f.Check, f.Case)
	v := fn(f.Case)
	Unguard()
	if Judge(f.Check, f.Case, v) {
		t.Errorf("REPLAY-VIOLATION check=%s sig=%s: %s", f.Check, v.Sig, v.Detail)
	} else if v != nil {
		t.Logf("REPLAY-KNOWN check=%s sig=%s: %s", f.Check, v.Sig, v.Detail)
	} else {
		t.Logf("REPLAY-OK check=%s", f.Check)
	}
}

// ReplayDir re-runs every committed replay/regression case under dir (JSON files in the replay
// format) as plain tests: the seconds-long replay tier.
func ReplayDir(t *testing.T, dir string) {
	if st.Shard != 0 {
		t.Skip("regression cases run in the first process only")
	}
	// keep what was counted so far even if a regression case kills the process
	Flush(false)
	files, _ := filepath.Glob(filepath.Join(dir, "*.json"))
	sort.Strings(files)
	for _, p := range files {
		b, err := os.ReadFile(p)
		if err != nil {
			continue
		}
		var f struct {
			Check string          `json:"check"`
			Case  json.RawMessage `json:"case"`
		}
		if json.Unmarshal(b, &f) != nil {
			continue
		}
		mu.Lock()
		fn := replayers[f.Check]
		mu.Unlock()
		if fn == nil {
			continue
		}
		name := "regress:" + f.Check
		Guard(name, f.Case)
		v := fn(f.Case)
		Unguard()
		if Judge(name, f.Case, v) {
			t.Errorf("VIOLATION-CANDIDATE regression %s sig=%s: %s", filepath.Base(p), v.Sig, v.Detail)
		}
	}
}

// Root is the /verif directory (regression cases, seeds).
func Root() string {
	if r := os.Getenv("VERIF_ROOT"); r != "" {
		return r
	}
	return "/verif"
}

var fastFile *os.File

// GuardFast is Guard for tight loops: it rewrites one open file in place (two syscalls).
func GuardFast(name string, c any) {
	if os.Getenv("VERIF_OUT") == "" {
		return
	}
	if fastFile == nil {
		f, err := os.OpenFile(filepath.Join(outDir, fmt.Sprintf("current-%d.json", st.Shard)), os.O_CREATE|os.O_RDWR|os.O_TRUNC, 0o644)
		if err != nil {
			return
		}
		fastFile = f
	}
	raw, _ := json.Marshal(c)
	b, _ := json.Marshal(map[string]any{"property": st.Property, "check": name, "case": json.RawMessage(raw)})
	fastFile.WriteAt(b, 0)
	fastFile.Truncate(int64(len(b)))
}

// UnguardFast removes the side file at the normal end of a guarded loop.
func UnguardFast() {
	if fastFile != nil {
		name := fastFile.Name()
		fastFile.Close()
		fastFile = nil
		os.Remove(name)
	}
}
