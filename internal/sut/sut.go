// Package sut is the one place where the library under test is driven. Every call into it goes
// through call(), which turns an escaping panic into a recorded event instead of killing the check.
package sut

import (
	"encoding/json"
	"errors"
	"fmt"
	"io"
	"runtime"
	"sort"
	"strings"

	schema "github.com/jsightapi/jsight-schema-core"
	"github.com/jsightapi/jsight-schema-core/errs"
	jdoc "github.com/jsightapi/jsight-schema-core/formats/json"
	"github.com/jsightapi/jsight-schema-core/kit"
	"github.com/jsightapi/jsight-schema-core/lexeme"
	"github.com/jsightapi/jsight-schema-core/notations/jschema"
	"github.com/jsightapi/jsight-schema-core/notations/regex"
	"github.com/jsightapi/jsight-schema-core/openapi"
	"github.com/jsightapi/jsight-schema-core/rules/enum"
)

// Named is a registered user type or enum rule.
type Named struct {
	Name  string `json:"name"`
	Text  string `json:"text"`
	Regex bool   `json:"regex,omitempty"` // a regex schema instead of a JSight schema
	File  string `json:"file,omitempty"`  // file name of the type's schema when it differs from Name
	Own   []Named `json:"own,omitempty"`  // types this type registers on itself (AddType on the type's schema) before it is registered anywhere
}

func (n Named) FileName() string {
	if n.File != "" {
		return n.File
	}
	return n.Name
}

// Project is the textual form of "root schema + registered types + registered enum rules".
type Project struct {
	Root     string  `json:"root"`
	RootName string  `json:"root_name,omitempty"` // file name of the root, "@main" when empty
	Self     bool    `json:"self,omitempty"`      // register the root in itself under RootName
	Types    []Named `json:"types,omitempty"`     // in registration order
	Rules    []Named `json:"rules,omitempty"`     // in registration order
	// Nest: every schema (the root and each type) registers only the types its own text names; the
	// types behind those are registered on the types that name them (a client that resolves
	// references where it finds them). Default: the root registers every type.
	Nest bool `json:"nest,omitempty"`
	// Refused: registrations that the library has to refuse (a type whose text is empty, only a comment, or
	// does not load), attempted on the root before everything else. A refused registration counts as not made.
	Refused []Named `json:"refused,omitempty"`
	// PreCheck: every type object is asked Check() on its own (where it usually fails: the types it names are
	// not registered on it) before it is registered anywhere. What a type answered alone binds nobody.
	PreCheck bool `json:"pre_check,omitempty"`
	// Cross: pairs (i, j) - the object of Types[i] registers the object of Types[j] under its name before the
	// root registers anything (i = j: a type registered on itself; pairs may close loops among the types)
	Cross [][2]int `json:"cross,omitempty"`
}

// names reports whether text mentions the type name (followed by a character that cannot continue it).
func names(text, name string) bool {
	for i := 0; ; {
		j := strings.Index(text[i:], name)
		if j < 0 {
			return false
		}
		end := i + j + len(name)
		if end == len(text) {
			return true
		}
		c := text[end]
		if !(c == '_' || c == '-' || c >= '0' && c <= '9' || c >= 'a' && c <= 'z' || c >= 'A' && c <= 'Z') {
			return true
		}
		i = end
	}
}

func (p Project) Name() string {
	if p.RootName == "" {
		return "@main"
	}
	return p.RootName
}

// String renders a project for messages.
func (p Project) String() string {
	var b strings.Builder
	b.WriteString(p.Root)
	for _, t := range p.Types {
		fmt.Fprintf(&b, "\n%s := %s", t.Name, t.Text)
		for _, o := range t.Own {
			fmt.Fprintf(&b, "\n  (registered on %s) %s := %s", t.Name, o.Name, o.Text)
		}
	}
	for _, t := range p.Rules {
		fmt.Fprintf(&b, "\nrule %s := %s", t.Name, t.Text)
	}
	for _, t := range p.Refused {
		fmt.Fprintf(&b, "\n(refused registration attempted first) %s := %q", t.Name, t.Text)
	}
	return b.String()
}

// ErrInfo is a normalised view of an error returned by the library.
type ErrInfo struct {
	GoType   string `json:"go_type"`
	Code     int    `json:"code"` // -1 when the error carries no code
	Message  string `json:"message"`
	Runtime  bool   `json:"runtime,omitempty"` // a runtime.Error came back as the result
	HasPos   bool   `json:"has_pos,omitempty"`
	Index    uint   `json:"index,omitempty"`
	Line     uint   `json:"line,omitempty"`
	Column   uint   `json:"column,omitempty"`
	File     string `json:"file,omitempty"`
	UserType string `json:"user_type,omitempty"`
	Rendered string `json:"rendered,omitempty"`
	// RenderPanic is set when Error()/String() of the returned error panicked.
	RenderPanic string `json:"render_panic,omitempty"`
}

func (e *ErrInfo) String() string {
	if e == nil {
		return "<nil>"
	}
	return fmt.Sprintf("%s code=%d idx=%d line=%d col=%d ut=%q msg=%q", e.GoType, e.Code, e.Index, e.Line, e.Column, e.UserType, e.Message)
}

// CodeOf returns the numeric code of an error or 0 for nil, -1 for a code-less error.
func CodeOf(e *ErrInfo) int {
	if e == nil {
		return 0
	}
	return e.Code
}

// Describe normalises an error.
func Describe(err error) (info *ErrInfo) {
	if err == nil {
		return nil
	}
	info = &ErrInfo{GoType: fmt.Sprintf("%T", err), Code: -1}
	defer func() {
		if r := recover(); r != nil {
			info.RenderPanic = fmt.Sprint(r)
		}
	}()
	var re runtime.Error
	if errors.As(err, &re) {
		info.Runtime = true
	}
	switch e := err.(type) {
	case kit.JSchemaError:
		info.Code = e.ErrCode()
		info.Message = e.Message()
		info.Index = e.Index()
		info.Line = e.Line()
		info.Column = e.Column()
		info.File = e.Filename()
		info.UserType = e.IncorrectUserType()
		info.Rendered = e.Error()
		_ = e.String()
		info.HasPos = strings.Contains(info.Rendered, "in line ")
	case kit.Error:
		info.Code = e.ErrCode()
		info.Message = e.Message()
		info.Index = e.Index()
		info.Line = e.Line()
		info.Column = e.Column()
		info.File = e.Filename()
		info.UserType = e.IncorrectUserType()
		info.Rendered = err.Error()
	case *errs.Err:
		info.Code = int(e.Code())
		info.Message = e.Error()
		info.Rendered = e.Error()
	case errs.Err:
		info.Code = int(e.Code())
		info.Message = e.Error()
		info.Rendered = e.Error()
	default:
		info.Message = err.Error()
		info.Rendered = info.Message
	}
	return info
}

// Escape is a panic that got out of a public entry point.
type Escape struct {
	Op    string `json:"op"`
	Value string `json:"value"`
	Frame string `json:"frame"` // innermost frame inside the library
}

// Trap runs f and reports a panic that escapes it.
func Trap(op string, f func()) (esc *Escape) {
	defer func() {
		if r := recover(); r != nil {
			esc = &Escape{Op: op, Value: fmt.Sprint(r), Frame: libFrame()}
		}
	}()
	f()
	return nil
}

func libFrame() string {
	pc := make([]uintptr, 64)
	n := runtime.Callers(3, pc)
	frames := runtime.CallersFrames(pc[:n])
	for {
		fr, more := frames.Next()
		if strings.Contains(fr.Function, "jsight-schema-core") {
			fn := fr.Function
			if i := strings.LastIndex(fn, "/"); i >= 0 {
				fn = fn[i+1:]
			}
			return fn
		}
		if !more {
			return ""
		}
	}
}

// Built is a project turned into library objects.
type Built struct {
	P       Project
	S       *jschema.JSchema
	Types   map[string]schema.Schema
	Rules   map[string]*enum.Enum
	AddErr  map[string]*ErrInfo // AddType result per name (only failures)
	RuleErr map[string]*ErrInfo // AddRule result per name (only failures)
	Escapes []Escape
	// Loaded: type objects that some AddType accepted (on the root or, with Nest, on another type). A type
	// object that nobody registered has never been loaded; it is not an "accepted schema" and is not converted.
	Loaded map[string]bool
}

func (b *Built) trap(op string, f func()) {
	if e := Trap(op, f); e != nil {
		b.Escapes = append(b.Escapes, *e)
	}
}

// Build creates the objects and performs all registrations (never stops at a failing one).
func Build(p Project) *Built { return BuildSharing(p, nil) }

// BuildSharing is Build with the type and rule objects of an earlier build reused where the name and
// the text agree - the way an API project is put together: every type is parsed once and the one
// object is registered in every schema that may use it.
func BuildSharing(p Project, from *Built) *Built {
	b := &Built{P: p, Types: map[string]schema.Schema{}, Rules: map[string]*enum.Enum{},
		AddErr: map[string]*ErrInfo{}, RuleErr: map[string]*ErrInfo{}, Loaded: map[string]bool{}}
	b.S = jschema.New(p.Name(), p.Root)
	for _, r := range p.Rules {
		r := r
		e := enum.New(r.Name, r.Text)
		if from != nil && from.Rules[r.Name] != nil && from.ruleText(r.Name) == r.Text {
			e = from.Rules[r.Name]
		}
		b.Rules[r.Name] = e
		b.trap("AddRule", func() {
			if err := b.S.AddRule(r.Name, e); err != nil {
				b.RuleErr[r.Name] = Describe(err)
			}
		})
	}
	for _, r := range p.Refused {
		r := r
		b.trap("AddType(refused)", func() {
			if err := b.S.AddType(r.Name, jschema.New(r.FileName(), r.Text)); err == nil {
				b.AddErr[r.Name] = &ErrInfo{GoType: "harness", Code: -2, Message: "the registration of a type with the text " + fmt.Sprintf("%q", r.Text) + " was expected to be refused and was accepted"}
			}
		})
	}
	var objs []schema.Schema
	for _, t := range p.Types {
		t := t
		var ts schema.Schema
		// (regex types are made anew: an RSchema hands out the examples of a seeded stream one after the
		// other, so what a second root schema gets from the same object is the next one by design)
		if from != nil && !t.Regex && from.Types[t.Name] != nil && from.typeText(t.Name) == typeKey(t) {
			ts = from.Types[t.Name]
			if from.Loaded[t.Name] {
				b.Loaded[t.Name] = true // (loaded when the earlier build registered it)
			}
		} else if t.Regex {
			ts = regex.New(t.FileName(), t.Text)
		} else {
			js := jschema.New(t.FileName(), t.Text)
			// a type may use enum rules too
			for _, r := range p.Rules {
				r := r
				b.trap("AddRule(type)", func() { _ = js.AddRule(r.Name, enum.New(r.Name, r.Text)) })
			}
			for _, o := range t.Own {
				o := o
				b.trap("AddType(own)", func() {
					if o.Regex {
						_ = js.AddType(o.Name, regex.New(o.FileName(), o.Text))
					} else {
						_ = js.AddType(o.Name, jschema.New(o.FileName(), o.Text))
					}
				})
			}
			ts = js
		}
		b.Types[t.Name] = ts
		objs = append(objs, ts)
	}
	for _, c := range p.Cross {
		if c[0] < 0 || c[1] < 0 || c[0] >= len(p.Types) || c[1] >= len(p.Types) {
			continue
		}
		if js, ok := objs[c[0]].(*jschema.JSchema); ok {
			name, obj := p.Types[c[1]].Name, objs[c[1]]
			b.trap("AddType(cross)", func() { _ = js.AddType(name, obj) })
		}
	}
	if p.PreCheck {
		for _, t := range p.Types {
			if js, ok := b.Types[t.Name].(*jschema.JSchema); ok && (from == nil || from.Types[t.Name] != b.Types[t.Name]) {
				b.trap("Check(type alone)", func() { _ = js.Check() })
			}
		}
	}
	if p.Nest {
		// innermost registrations first: a type is complete before it is registered anywhere
		for i := len(p.Types) - 1; i >= 0; i-- {
			t := p.Types[i]
			js, ok := b.Types[t.Name].(*jschema.JSchema)
			if !ok {
				continue
			}
			for _, u := range p.Types {
				u := u
				if u.Name != t.Name && names(t.Text, u.Name) {
					b.trap("AddType(nested)", func() {
						if js.AddType(u.Name, b.Types[u.Name]) == nil {
							b.Loaded[u.Name] = true
						}
					})
				}
			}
		}
	}
	for i, t := range p.Types {
		t := t
		if p.Nest && !names(p.Root, t.Name) {
			continue
		}
		ts := objs[i]
		b.trap("AddType", func() {
			if err := b.S.AddType(t.Name, ts); err != nil {
				b.AddErr[t.Name] = Describe(err)
			} else {
				b.Loaded[t.Name] = true
			}
		})
	}
	if p.Self {
		b.trap("AddType(self)", func() {
			if err := b.S.AddType(p.Name(), b.S); err != nil {
				b.AddErr[p.Name()] = Describe(err)
			}
		})
	}
	return b
}

func typeKey(t Named) string {
	if t.Regex {
		return "regex:" + t.Text
	}
	k := t.File + ":" + t.Text
	for _, o := range t.Own {
		k += "\x01" + o.Name + "=" + typeKey(o)
	}
	return k
}

func (b *Built) typeText(name string) string {
	for _, t := range b.P.Types {
		if t.Name == name {
			return typeKey(t)
		}
	}
	return "\x00"
}

func (b *Built) ruleText(name string) string {
	for _, r := range b.P.Rules {
		if r.Name == name {
			return r.Text
		}
	}
	return "\x00"
}

// Outcome is everything observable about a project.
type Outcome struct {
	AddErr      map[string]*ErrInfo `json:"add_err,omitempty"`
	RuleErr     map[string]*ErrInfo `json:"rule_err,omitempty"`
	Len         uint                `json:"len"`
	LenErr      *ErrInfo            `json:"len_err,omitempty"`
	Check       *ErrInfo            `json:"check,omitempty"`
	AST         string              `json:"ast,omitempty"`
	ASTErr      *ErrInfo            `json:"ast_err,omitempty"`
	Example     string              `json:"example,omitempty"`
	ExampleErr  *ErrInfo            `json:"example_err,omitempty"`
	Used        []string            `json:"used,omitempty"`
	UsedErr     *ErrInfo            `json:"used_err,omitempty"`
	OpenAPI     string              `json:"openapi,omitempty"`
	OpenAPIErr  string              `json:"openapi_err,omitempty"`
	Properties  []string            `json:"properties,omitempty"` // openapi.Dereference -> PropertiesInfos: key:optional
	TypeOpenAPI map[string]string   `json:"type_openapi,omitempty"`
	Escapes     []Escape            `json:"escapes,omitempty"`
	// Again: every question is put to the same object a second time at the end; the first answer that
	// differs from the one given before is described here ("" = all the same)
	Again string `json:"again,omitempty"`
}

// Accepted reports whether Check() returned nil.
func (o *Outcome) Accepted() bool { return o.Check == nil }

// Observe builds the project and calls every public operation once.
func Observe(p Project) *Outcome {
	return ObserveBuilt(Build(p))
}

func ObserveBuilt(b *Built) *Outcome {
	o := &Outcome{AddErr: b.AddErr, RuleErr: b.RuleErr, TypeOpenAPI: map[string]string{}}
	s := b.S
	b.trap("Len", func() {
		n, err := s.Len()
		o.Len, o.LenErr = n, Describe(err)
	})
	b.trap("Check", func() { o.Check = Describe(s.Check()) })
	b.trap("UsedUserTypes", func() {
		u, err := s.UsedUserTypes()
		o.Used, o.UsedErr = append([]string(nil), u...), Describe(err)
	})
	b.trap("GetAST", func() {
		a, err := s.GetAST()
		o.ASTErr = Describe(err)
		if err == nil {
			j, jerr := json.Marshal(a)
			if jerr != nil {
				o.AST = "MARSHAL-ERROR: " + jerr.Error()
			} else {
				o.AST = string(j)
			}
		}
	})
	b.trap("Example", func() {
		ex, err := s.Example()
		o.Example, o.ExampleErr = string(ex), Describe(err)
	})
	if o.Check == nil {
		b.trap("OpenAPI", func() {
			j, err := openapi.NewSchemaObject(s).MarshalJSON()
			o.OpenAPI = string(j)
			if err != nil {
				o.OpenAPIErr = err.Error()
			}
		})
		b.trap("Dereference", func() {
			for _, inf := range openapi.Dereference(s) {
				if oi, ok := inf.(openapi.ObjectInformer); ok {
					for _, pi := range oi.PropertiesInfos() {
						o.Properties = append(o.Properties, fmt.Sprintf("%s:%v", pi.Key(), pi.Optional()))
					}
				}
			}
		})
		names := make([]string, 0, len(b.Types))
		for n := range b.Types {
			names = append(names, n)
		}
		sort.Strings(names)
		for _, n := range names {
			if _, bad := b.AddErr[n]; bad {
				continue
			}
			if _, isJSchema := b.Types[n].(*jschema.JSchema); isJSchema && !b.Loaded[n] {
				continue // (a regex schema needs no loading)
			}
			n := n
			b.trap("OpenAPI(type)", func() {
				j, err := openapi.NewSchemaObject(b.Types[n]).MarshalJSON()
				if err != nil {
					o.TypeOpenAPI[n] = "ERROR: " + err.Error()
				} else {
					o.TypeOpenAPI[n] = string(j)
				}
			})
		}
	}
	// the same questions again
	b.trap("again", func() {
		differs := func(op, first, second string) {
			if o.Again == "" && first != second {
				o.Again = fmt.Sprintf("%s answered %.300s first and %.300s when asked again", op, first, second)
			}
		}
		differs("Check()", o.Check.String(), Describe(s.Check()).String())
		n, err := s.Len()
		differs("Len()", fmt.Sprintf("%d,%s", o.Len, o.LenErr), fmt.Sprintf("%d,%s", n, Describe(err)))
		u, err := s.UsedUserTypes()
		differs("UsedUserTypes()", fmt.Sprintf("%v,%s", o.Used, o.UsedErr), fmt.Sprintf("%v,%s", u, Describe(err)))
		if a, err := s.GetAST(); err == nil && o.ASTErr == nil {
			j, _ := json.Marshal(a)
			differs("GetAST()", o.AST, string(j))
		} else {
			differs("GetAST()", o.ASTErr.String(), Describe(err).String())
		}
		ex, err := s.Example()
		differs("Example()", fmt.Sprintf("%s,%s", o.Example, o.ExampleErr), fmt.Sprintf("%s,%s", ex, Describe(err)))
		if o.Check == nil {
			j, err := openapi.NewSchemaObject(s).MarshalJSON()
			es := ""
			if err != nil {
				es = err.Error()
			}
			differs("OpenAPI", o.OpenAPI+"|"+o.OpenAPIErr, string(j)+"|"+es)
		}
	})
	o.Escapes = b.Escapes
	return o
}

// Render gives a canonical text of an outcome (types in name order) for identity comparisons.
func (o *Outcome) Render() string {
	b, _ := json.Marshal(o) // maps are marshalled with sorted keys
	return string(b)
}

// ---- JSON documents

type Lex struct {
	Type  string `json:"type"`
	Begin uint   `json:"begin"`
	End   uint   `json:"end"`
	Value string `json:"value"`
}

type DocOutcome struct {
	Check    *ErrInfo `json:"check,omitempty"`
	Len      uint     `json:"len"`
	LenErr   *ErrInfo `json:"len_err,omitempty"`
	Lexemes  []Lex    `json:"lexemes,omitempty"`
	LexErr   *ErrInfo `json:"lex_err,omitempty"` // error that ended the stream (nil = io.EOF)
	Escapes  []Escape `json:"escapes,omitempty"`
	Unstable string   `json:"unstable,omitempty"`
}

func NewDoc(text string, trailing bool) schema.Document {
	if trailing {
		return jdoc.New("doc", text, jdoc.AllowTrailingNonSpaceCharacters())
	}
	return jdoc.New("doc", text)
}

// ObserveDoc runs Check, Len and the whole lexeme stream on fresh documents.
func ObserveDoc(text string, trailing bool, withLexemes bool) *DocOutcome {
	o := &DocOutcome{}
	trap := func(op string, f func()) {
		if e := Trap(op, f); e != nil {
			o.Escapes = append(o.Escapes, *e)
		}
	}
	trap("doc.Check", func() { o.Check = Describe(NewDoc(text, trailing).Check()) })
	trap("doc.Len", func() {
		n, err := NewDoc(text, trailing).Len()
		o.Len, o.LenErr = n, Describe(err)
	})
	if withLexemes {
		trap("doc.NextLexeme", func() {
			d := NewDoc(text, trailing)
			// (the value of a container lexeme is the container's whole text: for megabytes of nested
			// brackets keeping every value would need terabytes - the stream is then only walked)
			// Up to 64 KB every lexeme is kept with its value; up to 1 MB every lexeme, with the values of literals,
			// keys and of containers below 8 KB; beyond that the stream is walked only.
			keep := len(text) <= 1<<20
			for i := 0; i < 4*len(text)+16; i++ {
				lex, err := d.NextLexeme()
				if err != nil {
					if !errors.Is(err, io.EOF) {
						o.LexErr = Describe(err)
					}
					return
				}
				if ty := lex.Type().String(); keep && (len(text) <= 1<<16 || lex.End()-lex.Begin() < 8192 || strings.HasPrefix(ty, "literal-") || strings.HasPrefix(ty, "key-")) {
					o.Lexemes = append(o.Lexemes, LexOf(lex))
				} else if keep {
					o.Lexemes = append(o.Lexemes, Lex{Type: lex.Type().String(), Begin: uint(lex.Begin()), End: uint(lex.End()), Value: "\x00(long value not kept)"})
					_ = lex.Value().Len()
				} else {
					_ = lex.Value().Len()
				}
			}
			o.LexErr = &ErrInfo{GoType: "verif", Code: -1, Message: "lexeme stream does not end"}
		})
	}
	return o
}

// ObserveDocSeq runs the operations named by order (c = Check, l = Len, x = the whole lexeme stream)
// one after the other on ONE document object; an operation that occurs twice must answer the same
// both times (Unstable names the first one that does not).
func ObserveDocSeq(text string, trailing bool, order string) *DocOutcome {
	o := &DocOutcome{}
	d := NewDoc(text, trailing)
	seen := map[rune]string{}
	note := func(op rune, result string) {
		if prev, ok := seen[op]; ok && prev != result && o.Unstable == "" {
			o.Unstable = fmt.Sprintf("%c answered %s first and %s later (order %q)", op, prev, result, order)
		}
		seen[op] = result
	}
	for _, op := range order {
		op := op
		var e *Escape
		switch op {
		case '1', '2', '3', '4', '5', '6', '7', '8', '9':
			// read that many lexemes and leave the iteration where it is
			e = Trap("doc.NextLexeme", func() {
				for i := 0; i < int(op-'0'); i++ {
					if _, err := d.NextLexeme(); err != nil {
						return
					}
				}
			})
		case 'c':
			e = Trap("doc.Check", func() { o.Check = Describe(d.Check()); note(op, o.Check.String()) })
		case 'l':
			e = Trap("doc.Len", func() {
				n, err := d.Len()
				o.Len, o.LenErr = n, Describe(err)
				note(op, fmt.Sprintf("%d,%s", n, o.LenErr.String()))
			})
		case 'x':
			e = Trap("doc.NextLexeme", func() {
				o.Lexemes, o.LexErr = nil, nil
				for i := 0; i < 4*len(text)+16; i++ {
					lex, err := d.NextLexeme()
					if err != nil {
						if !errors.Is(err, io.EOF) {
							o.LexErr = Describe(err)
						}
						note(op, fmt.Sprintf("%v,%s", o.Lexemes, o.LexErr.String()))
						return
					}
					o.Lexemes = append(o.Lexemes, LexOf(lex))
				}
				o.LexErr = &ErrInfo{GoType: "verif", Code: -1, Message: "lexeme stream does not end"}
			})
		}
		if e != nil {
			o.Escapes = append(o.Escapes, *e)
		}
	}
	return o
}

func LexOf(lex lexeme.LexEvent) Lex {
	return Lex{Type: lex.Type().String(), Begin: uint(lex.Begin()), End: uint(lex.End()), Value: lex.Value().String()}
}
