package sut

import (
	"runtime"
	"strings"

	jdoc "github.com/jsightapi/jsight-schema-core/formats/json"
	"github.com/jsightapi/jsight-schema-core/notations/jschema"
	"github.com/jsightapi/jsight-schema-core/notations/regex"
	"github.com/jsightapi/jsight-schema-core/openapi"
	"github.com/jsightapi/jsight-schema-core/rules/enum"
)

// Disturbances is the number of different preludes Disturb knows (0 = none); Disturb(k + Disturbances*r)
// is prelude k with the r-th unfinished text last. DisturbMax bounds the argument.
const Disturbances = 12

var DisturbMax = Disturbances*len(unfinished) - 1

// Unfinished is the number of texts whose processing fails half-way.
func Unfinished() int { return len(unfinished) }

// unfinished: texts whose processing fails in the middle of a literal, an annotation or a rule value
var unfinished = []string{`"abc`, `tru`, `[1, -]`, `1.`, `@cat |`, `{"a": "x`, `{"a": 1 // {min: `, `1 /* {enum: [1, `, `[1, 2 // {or: [{type: "integer"}, {type: "@ghost", nullable: true}`,
	`{"k": 1 // {or: [{type: "@ghost", nullable: true}, {type: "integer"}], unknownRule: 1}` + "\n}", `{ // {allOf: ["@p1", "@p2` + "\n}", `"x" // {regex: "("}`}

// Disturb runs one of a fixed list of call sequences on objects of its own - loads that fail half-way,
// failing Len() calls, an example-less schema that gets types registered, big examples - and throws the
// results away. Checks whose cases are judged against a reference run it before a case: whatever the
// library keeps from one input to the next (pooled loaders, scanners and buffers, caches) then shows up
// as a wrong answer for the case. Every call is made under recover.
func Disturb(k int) {
	if k <= 0 {
		return
	}
	quiet := func(f func()) { Trap("disturb", f) }
	// k / Disturbances rotates the list of unfinished texts: which failure comes last matters (the next
	// call inherits what the last one left behind)
	rot := (k / Disturbances) % len(unfinished)
	unfinished := append(append([]string{}, unfinished[rot+1:]...), unfinished[:rot+1]...)
	switch k % Disturbances {
	case 1: // failing Len()
		for _, s := range unfinished {
			s := s
			quiet(func() { _, _ = jschema.New("@d", s).Len() })
		}
	case 2: // failing Check() / Example() / GetAST()
		for _, s := range unfinished {
			s := s
			quiet(func() { x := jschema.New("@d", s); _ = x.Check(); _, _ = x.Example(); _, _ = x.GetAST() })
		}
	case 3: // an example-less schema gets a type that has been loaded (and fails its own check)
		quiet(func() {
			t := jschema.New("@limit", `5 // {min: 10}`)
			_ = t.Check()
			e := jschema.New("", "# comment only")
			_ = e.AddType("@x", t)
			_ = e.Check()
		})
	case 4: // the same with well-formed types
		quiet(func() {
			t := jschema.New("@id", `12 // {min: 1}`)
			_ = t.Check()
			u := jschema.New("@s", `"kk"`)
			_ = u.Check()
			e := jschema.New("@main", " \n ")
			_ = e.AddType("@id", t)
			_ = e.AddType("@s", u)
			_ = e.AddType("@t0", t)
			_ = e.AddType("@a", u)
			_, _ = e.Example()
		})
	case 5: // big examples and conversions (pooled buffers of every size class)
		for _, n := range []int{3, 40, 300, 900} {
			n := n
			quiet(func() {
				s := "[\n" + strings.Repeat("  \"0123456789\",\n", n) + "  {\"k\": [1, 2, {\"deep\": null}]}\n]"
				x := jschema.New("@big", s)
				_, _ = x.Example()
				_, _ = openapi.NewSchemaObject(x).MarshalJSON()
			})
		}
	case 6: // the other three front ends failing half-way
		quiet(func() { _ = enum.New("@e", `[1, "a`).Check() })
		quiet(func() { _, _ = enum.New("@e", `[1] /*00`).Len() })
		quiet(func() { _ = regex.New("@r", `/a(/`).Check() })
		quiet(func() {
			d := jdoc.New("d", `{"a": [1, tru`)
			_, _ = d.NextLexeme()
			_, _ = d.NextLexeme()
			_ = d.Check()
		})
	case 7: // a valid project with every kind of reference, checked, exemplified, converted
		quiet(func() {
			b := Build(Project{Root: "{ // {allOf: \"@base\"}\n  \"a\": @s | @n,\n  @s: 1, // {or: [{type: \"integer\", min: 0}, {type: \"@s\"}]}\n  \"e\": \"x\" // {enum: @e}\n}",
				Types: []Named{{Name: "@base", Text: `{"b": 1.5 // {precision: 1}` + "\n}"}, {Name: "@s", Text: `"kk" // {minLength: 1}`}, {Name: "@n", Text: "7"}},
				Rules: []Named{{Name: "@e", Text: `["x", "y"]`}}})
			ObserveBuilt(b)
		})
	case 8: // registrations that are refused
		quiet(func() {
			x := jschema.New("@main", `{"a": @t}`)
			_ = x.AddType("@t", jschema.New("@t", ""))
			_ = x.AddType("@t", jschema.New("@t", "1 // {unknown: 1}"))
			_ = x.AddType("not-a-type-name", jschema.New("@q", "1"))
			_ = x.AddRule("@e", enum.New("@e", "[1, 1]"))
			_ = x.Check()
		})
	case 9: // failing loads of types used by a valid root
		quiet(func() {
			ObserveBuilt(Build(Project{Root: `{"a": @t0, "b": @a}`, Types: []Named{{Name: "@t0", Text: `{"x": 1 // {min: 2}` + "\n}"}, {Name: "@a", Text: `[1, @missing]`}}}))
		})
	case 10: // everything
		for i := 1; i < 10; i++ {
			Disturb(i + Disturbances*rot)
		}
	case 11: // failing Len() of each kind twice, then a successful one
		for _, s := range unfinished {
			s := s
			quiet(func() { _, _ = jschema.New("@d", s).Len(); _, _ = jschema.New("@d", s).Len() })
		}
		quiet(func() { _, _ = jschema.New("@d", `{"a": 1}`).Len() })
	}
}

// Pristine empties the library's pools (sync.Pool is cleared by two collections): what one case left
// behind cannot reach the next one, so a case that fails does so on its own and replays.
func Pristine() {
	runtime.GC()
	runtime.GC()
}
