package gen

import (
	"strings"

	"pgregory.net/rapid"
)

// HostileString draws byte runs: malformed UTF-8 (each byte becomes U+FFFD, three bytes, when unquoted), controls,
// escapes, surrogates, long runs
func HostileString(t *rapid.T, label string) string {
	var b strings.Builder
	n := rapid.IntRange(1, 6).Draw(t, label+"parts")
	for i := 0; i < n; i++ {
		switch rapid.IntRange(0, 7).Draw(t, label+"part") {
		case 0, 1: // run of bytes that are not UTF-8
			k := rapid.SampledFrom([]int{1, 2, 3, 4, 5, 6, 8, 13, 40, 200}).Draw(t, label+"run")
			c := rapid.SampledFrom([]byte{0x80, 0xbf, 0xc0, 0xc3, 0xe2, 0xf0, 0xfc, 0xfe, 0xff}).Draw(t, label+"byte")
			for j := 0; j < k; j++ {
				b.WriteByte(c)
			}
		case 2: // truncated multi-byte sequences
			b.WriteString(rapid.SampledFrom([]string{"\xe2\x82", "\xf0\x9f\x98", "\xc3", "\xed\xa0\x80", "\xf4\x90\x80\x80", "\xc0\xaf"}).Draw(t, label+"trunc"))
		case 3:
			b.WriteString(rapid.SampledFrom([]string{"\x00", "\x01", "\x1f", "\x7f", "\t", "\r", "\n", "\x0b"}).Draw(t, label+"ctl"))
		case 4:
			b.WriteString(rapid.SampledFrom([]string{`\u0041`, `\u00e9`, `\ud83d\ude00`, `\ud800`, `\udc00`, `\u0000`, `\"`, `\\`, `\/`, `\b`, `\x`, `\u12`, `\`}).Draw(t, label+"esc"))
		case 5:
			b.WriteString(rapid.SampledFrom([]string{"é", "€", "😀", "\u2028", "\ufeff", "\U000e0001"}).Draw(t, label+"uni"))
		default:
			b.WriteString(rapid.SampledFrom([]string{"a", "ab", "@a", "1", ".", "/", "*/", "//", "#", " ", strings.Repeat("x", 70)}).Draw(t, label+"ascii"))
		}
	}
	return b.String()
}

// StringContexts are texts with %s where a string (or free text) stands: every string position of
// the schema, enum-rule, regex and JSON-document languages.
var StringContexts = []string{`"%s"`, `["%s"]`, `["%s", "%s"]`, `{"%s": 1}`, `{"%s": "%s"}`, `"%s" // {maxLength: 2}`, `5 // {enum: ["%s", 6]}`, `"x" // {regex: "%s"}`,
	`1 // %s`, `1 /* %s */`, `/%s/`, `"a" // {type: "%s"}`, `{"k": 1 // {or: ["%s", "string"]}` + "\n}", `[1, // %s` + "\n2]", `"%s" // {const: true}`, `{} // {additionalProperties: "%s"}`, "1 # %s", `@%s`, `{@%s: 1}`}
