package gen

import (
	"encoding/json"
	"fmt"
	"math/big"
	"strings"

	"pgregory.net/rapid"

	"verif/internal/model"
	"verif/internal/ref/dec"
	"verif/internal/ref/rules"
)

// ---- decimal literals relative to an example

var digs = []string{"0", "1", "5", "9"}

// DecLit draws a schema number literal (no exponent).
func DecLit(t *rapid.T, label string, forceFrac, forbidFrac bool) string {
	if rapid.IntRange(0, 9).Draw(t, label+"zero") == 0 {
		z := rapid.SampledFrom([]string{"0", "-0", "0.0", "-0.00", "0.00"}).Draw(t, label+"z")
		if forbidFrac {
			z = strings.SplitN(z, ".", 2)[0]
		} else if forceFrac && !strings.Contains(z, ".") {
			z += ".0"
		}
		return z
	}
	// numbers no float64 (and partly no int64) holds exactly: JSight numbers are decimal texts
	if rapid.IntRange(0, 11).Draw(t, label+"long") == 0 {
		z := rapid.SampledFrom([]string{"9007199254740993", "-9007199254740993", "9223372036854775807", "-9223372036854775808", "9223372036854775808", "18446744073709551616",
			"123456789012345678901", "0.12345678901234567891", "-1.00000000000000000001", "9007199254740993.5", "100000000000000000000.000000000000000000001"}).Draw(t, label+"lz")
		if forbidFrac {
			z = strings.SplitN(z, ".", 2)[0]
		} else if forceFrac && !strings.Contains(z, ".") {
			z += ".5"
		}
		return z
	}
	neg := rapid.IntRange(0, 3).Draw(t, label+"neg") == 0
	ni := rapid.IntRange(1, 2).Draw(t, label+"ni")
	var b strings.Builder
	if neg {
		b.WriteByte('-')
	}
	for i := 0; i < ni; i++ {
		d := rapid.SampledFrom(digs).Draw(t, label+"d")
		if i == 0 && ni > 1 && d == "0" {
			d = "1"
		}
		b.WriteString(d)
	}
	nf := rapid.IntRange(0, 3).Draw(t, label+"nf")
	if forceFrac && nf == 0 {
		nf = 1
	}
	if forbidFrac {
		nf = 0
	}
	if nf > 0 {
		b.WriteByte('.')
		for i := 0; i < nf; i++ {
			b.WriteString(rapid.SampledFrom(digs).Draw(t, label+"f"))
		}
	}
	return b.String()
}

func rat(s string) *big.Rat { r, _ := new(big.Rat).SetString(s); return r }

// Neighbour draws a bound relative to the literal v: same value, trailing zeros, +-1 unit in the
// last place, +-1 unit one place further, the negated value, or a far value.
func Neighbour(t *rapid.T, v, label string) string {
	r := rat(v)
	fd := 0
	if i := strings.Index(v, "."); i >= 0 {
		fd = len(v) - i - 1
	}
	ulp := new(big.Rat).SetFrac(big.NewInt(1), new(big.Int).Exp(big.NewInt(10), big.NewInt(int64(fd)), nil))
	fix := func(s string) string { // big.Rat prints "-0.0" as "0.0"; keep as is
		return s
	}
	switch rapid.IntRange(0, 8).Draw(t, label) {
	case 0:
		return v
	case 1:
		if strings.Contains(v, ".") {
			return v + "0"
		}
		return v + ".0"
	case 2:
		return fix(new(big.Rat).Add(r, ulp).FloatString(fd))
	case 3:
		return fix(new(big.Rat).Sub(r, ulp).FloatString(fd))
	case 4:
		u2 := new(big.Rat).Quo(ulp, big.NewRat(10, 1))
		return fix(new(big.Rat).Add(r, u2).FloatString(fd + 1))
	case 5:
		u2 := new(big.Rat).Quo(ulp, big.NewRat(10, 1))
		return fix(new(big.Rat).Sub(r, u2).FloatString(fd + 1))
	case 6:
		if strings.HasPrefix(v, "-") {
			return v[1:]
		}
		return "-" + v
	case 7:
		return rapid.SampledFrom([]string{"0", "-0", "0.0", "-0.00"}).Draw(t, label+"z")
	default:
		return DecLit(t, label+"far", false, false)
	}
}

// ---- strings

var strPool = []string{`""`, `"a"`, `"ab"`, `"abc"`, `"a b"`, `"a\nb"`, `"A"`, `"a\"b"`, `"1"`, `"a.b"`, `"ab"`, `"a\\b"`, `"@x"`, `"é"`}

type rePair struct {
	re      string
	matches []string
	misses  []string
}

var rePool = []rePair{
	{`^a`, []string{`"a"`, `"ab"`, `"abc"`, `"a b"`, `"a\nb"`, `"a.b"`}, []string{`"ba"`, `""`, `"A"`}},
	{`b$`, []string{`"ab"`, `"b"`, `"a\nb"`, `"a.b"`}, []string{`"abc"`, `""`, `"ba"`}},
	{`^[a-z]+$`, []string{`"a"`, `"ab"`, `"abc"`}, []string{`"a b"`, `"A"`, `""`, `"1"`}},
	{`\n`, []string{`"a\nb"`, `"\n"`}, []string{`"a\\nb"`, `"anb"`, `""`}},
	{`^A$`, []string{`"A"`, `"A"`}, []string{`"a"`, `"AA"`, `""`}},
	{`\.`, []string{`"a.b"`, `"."`}, []string{`"ab"`, `""`}},
	{`^$`, []string{`""`}, []string{`"a"`, `" "`}},
	{`^\d+$`, []string{`"1"`, `"007"`}, []string{`"1a"`, `""`, `"a"`}},
	{`^"`, []string{`"\"q"`}, []string{`"q\""`, `"a"`}},
	{`\\`, []string{`"a\\b"`}, []string{`"ab"`, `"a/b"`}},
}

func quoted(s string) string { return model.Str(s).Str }

// ---- scalars with rules

// ScalarOpts steers the scalar generator.
type ScalarOpts struct {
	Types     []model.Type     // user types that may be referenced through `type` / `or`
	Enums     []model.EnumRule // enum rules that may be referenced
	Satisfied bool             // only produce scalars that satisfy their rules (by re-drawing, bounded)
	Proj      *model.Project   // for evaluating satisfaction when Satisfied is set
	NoRefs    bool
}

func kindOfType(t model.Type) string {
	if t.Regex != "" {
		return "string"
	}
	return t.Node.Kind
}

// numericRules draws min/max/exclusive*/precision relative to a numeric literal, respecting the
// structural constraints (min <= max, strict when exclusive; exclusive* only with its bound).
func numericRules(t *rapid.T, lit, kind string, label string) []model.Rule {
	var rr []model.Rule
	var minV, maxV string
	if rapid.Bool().Draw(t, label+"hasmin") {
		minV = Neighbour(t, lit, label+"minv")
	}
	if rapid.Bool().Draw(t, label+"hasmax") {
		maxV = Neighbour(t, lit, label+"maxv")
	}
	exMin := minV != "" && rapid.IntRange(0, 2).Draw(t, label+"exmin") == 0
	exMax := maxV != "" && rapid.IntRange(0, 2).Draw(t, label+"exmax") == 0
	if minV != "" && maxV != "" {
		c := dec.Parse(minV).Cmp(dec.Parse(maxV))
		if c > 0 || ((exMin || exMax) && c == 0) {
			maxV, exMax = "", false
		}
	}
	if minV != "" {
		rr = append(rr, model.R("min", model.Num(minV)))
	}
	if maxV != "" {
		rr = append(rr, model.R("max", model.Num(maxV)))
	}
	if minV != "" && rapid.IntRange(0, 3).Draw(t, label+"exminw") == 0 || exMin {
		if minV != "" {
			rr = append(rr, model.R("exclusiveMinimum", model.Bool(exMin)))
		}
	}
	if maxV != "" && rapid.IntRange(0, 3).Draw(t, label+"exmaxw") == 0 || exMax {
		if maxV != "" {
			rr = append(rr, model.R("exclusiveMaximum", model.Bool(exMax)))
		}
	}
	if kind == "float" && rapid.IntRange(0, 2).Draw(t, label+"hasprec") == 0 {
		sig := int(dec.Parse(lit).FracDigits().Int64())
		p := sig + rapid.IntRange(-1, 1).Draw(t, label+"precd")
		if p < 1 {
			p = 1
		}
		rr = append(rr, model.R("precision", model.Num(fmt.Sprint(p))))
	}
	return rr
}

func max0(n int) int {
	if n < 0 {
		return 0
	}
	return n
}

func stringRules(t *rapid.T, lit string, label string) (string, []model.Rule) {
	n := len(model.LitVal(lit).Str)
	var rr []model.Rule
	switch rapid.IntRange(0, 5).Draw(t, label+"srule") {
	case 0:
		rr = append(rr, model.R("minLength", model.Num(fmt.Sprint(max0(n+rapid.IntRange(-1, 1).Draw(t, label+"d"))))))
	case 1:
		rr = append(rr, model.R("maxLength", model.Num(fmt.Sprint(max0(n+rapid.IntRange(-1, 1).Draw(t, label+"d"))))))
	case 2:
		lo := max0(n + rapid.IntRange(-1, 1).Draw(t, label+"d1"))
		hi := lo + rapid.IntRange(0, 1).Draw(t, label+"d2")
		rr = append(rr, model.R("minLength", model.Num(fmt.Sprint(lo))), model.R("maxLength", model.Num(fmt.Sprint(hi))))
	case 3:
		p := rapid.SampledFrom(rePool).Draw(t, label+"re")
		pool := p.matches
		if rapid.IntRange(0, 2).Draw(t, label+"miss") == 0 {
			pool = p.misses
		}
		lit = rapid.SampledFrom(pool).Draw(t, label+"restr")
		rr = append(rr, model.R("regex", model.Str(p.re)))
	case 4:
		f := rapid.SampledFrom([]string{"date", "datetime", "email", "uri", "uuid"}).Draw(t, label+"fmt")
		pool := rules.Pools[f].Valid
		if rapid.IntRange(0, 2).Draw(t, label+"bad") == 0 {
			pool = rules.Pools[f].Invalid
		}
		s := rapid.SampledFrom(pool).Draw(t, label+"fmtv")
		lit = fmt.Sprintf("%q", s) // pools are printable ASCII without quotes/backslashes
		rr = append(rr, model.R("type", model.Str(f)))
	}
	return lit, rr
}

var enumPool = []string{`"a"`, `"A"`, `"A"`, `1`, `2.5`, `true`, `null`, `"ab"`, `"1"`, `0`, `false`}

func enumItems(t *rapid.T, lit, kind, label string) []model.Val {
	pool := append([]string{lit, lit}, enumPool...)
	lits := rapid.SliceOfNDistinct(rapid.SampledFrom(pool), 1, 4, func(x string) string {
		v := model.LitVal(x)
		if v.K == "str" {
			return "s:" + v.Str
		}
		return x
	}).Draw(t, label+"items")
	out := make([]model.Val, len(lits))
	for i, l := range lits {
		out[i] = model.LitVal(l)
	}
	return out
}

func typeNameFor(kind string) string {
	return kind
}

// Scalar draws a scalar example with a rule set allowed by the compatibility table; the rules may
// or may not hold.
func Scalar(t *rapid.T, o ScalarOpts, label string) *model.Node {
	if !o.Satisfied {
		return scalarOnce(t, o, label)
	}
	for i := 0; i < 8; i++ {
		n := scalarOnce(t, o, fmt.Sprintf("%s#%d", label, i))
		res := rules.Evaluate(&model.Project{Root: n, Types: o.Types, Enums: o.Enums})
		if res.Satisfied() && len(res.Ambiguous) == 0 {
			return n
		}
	}
	return model.Scalar("integer", "1")
}

func scalarOnce(t *rapid.T, o ScalarOpts, label string) *model.Node {
	kind := rapid.SampledFrom([]string{"string", "integer", "float", "boolean", "null", "integer", "float", "string"}).Draw(t, label+"kind")
	n := &model.Node{Kind: kind}
	switch kind {
	case "integer", "float":
		n.Lit = DecLit(t, label+"v", kind == "float", kind == "integer")
		n.Rules = numericRules(t, n.Lit, kind, label)
		if rapid.IntRange(0, 5).Draw(t, label+"withtype") == 0 {
			tn := kind
			if kind == "float" && n.HasRule("precision") {
				tn = "decimal"
			}
			if !(n.HasRule("precision") && tn != "decimal") {
				n.Rules = append([]model.Rule{model.R("type", model.Str(tn))}, n.Rules...)
			}
		}
	case "string":
		n.Lit = rapid.SampledFrom(strPool).Draw(t, label+"s")
		n.Lit, n.Rules = stringRules(t, n.Lit, label)
		if len(n.Rules) > 0 && n.Rules[0].Name != "type" && rapid.IntRange(0, 5).Draw(t, label+"withtype") == 0 {
			n.Rules = append([]model.Rule{model.R("type", model.Str("string"))}, n.Rules...)
		}
	case "boolean":
		n.Lit = rapid.SampledFrom([]string{"true", "false"}).Draw(t, label+"b")
	case "null":
		n.Lit = "null"
	}
	if len(n.Rules) == 0 {
		switch rapid.IntRange(0, 5).Draw(t, label+"alt") {
		case 0, 1: // enum, inline or through a named rule
			if len(o.Enums) > 0 && rapid.Bool().Draw(t, label+"named") {
				e := rapid.SampledFrom(o.Enums).Draw(t, label+"enumrule")
				n.Rules = append(n.Rules, model.R("enum", model.RuleRef(e.Name)))
			} else {
				n.Rules = append(n.Rules, model.R("enum", model.List(enumItems(t, n.Lit, kind, label)...)))
			}
		case 2: // reference through `type`
			if !o.NoRefs && len(o.Types) > 0 {
				ty := rapid.SampledFrom(o.Types).Draw(t, label+"tref")
				if kindOfType(ty) == kind || rapid.IntRange(0, 5).Draw(t, label+"mismatch") == 0 {
					n.Rules = append(n.Rules, model.R("type", model.Str(ty.Name)))
					// now and then the type's own example, as written there or under another spelling of
					// its escapes (what a `const` or `enum` of the type is compared with)
					if ty.Node != nil && ty.Node.Kind == "string" && kind == "string" && rapid.IntRange(0, 2).Draw(t, label+"sameasType") == 0 {
						n.Lit = Respell(ty.Node.Lit, rapid.IntRange(0, 3).Draw(t, label+"respell"))
					}
				}
			}
		case 3: // or (also next to a null example: "nothing, or one of these")
			n.Rules = append(n.Rules, model.R("or", model.List(orAlternatives(t, n, o, label)...)))
		case 4:
			if kind != "null" && rapid.Bool().Draw(t, label+"any") {
				n.Rules = append(n.Rules, model.R("type", model.Str("any")))
			}
		}
	}
	if !n.HasRule("or") && !hasTypeAny(n) {
		if rapid.IntRange(0, 5).Draw(t, label+"nullable") == 0 {
			n.Rules = append(n.Rules, model.R("nullable", model.Bool(rapid.Bool().Draw(t, label+"nv"))))
		}
		// (a user type reference admits only optional / nullable beside it: compile error 1102 otherwise)
		if kind != "null" && !hasTypeRef(n) && rapid.IntRange(0, 7).Draw(t, label+"const") == 0 {
			n.Rules = append(n.Rules, model.R("const", model.Bool(rapid.Bool().Draw(t, label+"cv"))))
		}
	}
	return n
}

func hasTypeRef(n *model.Node) bool {
	v, ok := n.Rule("type")
	return ok && strings.HasPrefix(v.Str, "@")
}

func hasTypeAny(n *model.Node) bool {
	v, ok := n.Rule("type")
	return ok && v.Str == "any"
}

// orAlternatives: 2-3 alternatives, each a type name or a rule-set for the example's own kind or
// for another kind
func orAlternatives(t *rapid.T, n *model.Node, o ScalarOpts, label string) []model.Val {
	cnt := rapid.IntRange(2, 3).Draw(t, label+"nalt")
	var alts []model.Val
	for i := 0; i < cnt; i++ {
		l := fmt.Sprintf("%salt%d", label, i)
		k := rapid.IntRange(0, 5).Draw(t, l+"k")
		if n.Kind == "string" && rapid.IntRange(0, 3).Draw(t, l+"fmt") == 0 {
			k = 6
		}
		switch k {
		case 6: // a format type, by name or as a rule-set; the example becomes a value of a crisp pool
			f := rapid.SampledFrom([]string{"date", "datetime", "email", "uri", "uuid"}).Draw(t, l+"f")
			pool := rules.Pools[f].Valid
			if rapid.IntRange(0, 3).Draw(t, l+"fbad") == 0 {
				pool = rules.Pools[f].Invalid
			}
			n.Lit = fmt.Sprintf("%q", rapid.SampledFrom(pool).Draw(t, l+"fv"))
			if rapid.Bool().Draw(t, l+"fset") {
				alts = append(alts, model.Set(model.R("type", model.Str(f))))
			} else {
				alts = append(alts, model.Str(f))
			}
		case 5: // a rule-set that is an enum (now and then also pinned to the example)
			rs := []model.Rule{model.R("type", model.Str("enum")), model.R("enum", model.List(enumItems(t, n.Lit, n.Kind, l)...))}
			if n.Kind != "null" && rapid.IntRange(0, 3).Draw(t, l+"enumconst") == 0 {
				rs = append(rs, model.R("const", model.Bool(rapid.IntRange(0, 3).Draw(t, l+"enumconstv") != 0)))
			}
			alts = append(alts, model.Set(rs...))
		case 0: // rule-set of the example's kind with rules near the example
			rs := []model.Rule{model.R("type", model.Str(n.Kind))}
			switch n.Kind {
			case "integer", "float":
				for _, r := range numericRules(t, n.Lit, n.Kind, l) {
					if r.Name == "precision" {
						rs[0] = model.R("type", model.Str("decimal"))
					}
					rs = append(rs, r)
				}
			case "string":
				if rapid.Bool().Draw(t, l+"len") {
					ln := len(model.LitVal(n.Lit).Str)
					rs = append(rs, model.R("minLength", model.Num(fmt.Sprint(max0(ln+rapid.IntRange(-1, 1).Draw(t, l+"d"))))))
				}
			}
			if n.Kind != "null" && rapid.IntRange(0, 4).Draw(t, l+"const") == 0 {
				// `const` inside the rule-set: the value is the example the `or` rule is written next to
				rs = append(rs, model.R("const", model.Bool(rapid.IntRange(0, 3).Draw(t, l+"constv") != 0)))
			}
			alts = append(alts, model.Set(rs...))
		case 1: // plain built-in type name
			alts = append(alts, model.Str(rapid.SampledFrom([]string{"string", "integer", "float", "boolean", "null", n.Kind}).Draw(t, l+"tn")))
		case 2: // rule-set of another kind (now and then pinned to the example, which is of yet another kind)
			alts = append(alts, rapid.SampledFrom([]model.Val{
				model.Set(model.R("type", model.Str("integer")), model.R("min", model.Num("1000"))),
				model.Set(model.R("type", model.Str("string")), model.R("maxLength", model.Num("0"))),
				model.Set(model.R("type", model.Str("boolean"))),
				model.Set(model.R("type", model.Str("null"))),
				model.Set(model.R("type", model.Str("integer")), model.R("const", model.Bool(true))),
				model.Set(model.R("type", model.Str("boolean")), model.R("const", model.Bool(true))),
				model.Set(model.R("type", model.Str("string")), model.R("const", model.Bool(true))),
				model.Set(model.R("type", model.Str("float")), model.R("const", model.Bool(true))),
			}).Draw(t, l+"other"))
		case 3: // user type by name
			if !o.NoRefs && len(o.Types) > 0 {
				alts = append(alts, model.Str(rapid.SampledFrom(o.Types).Draw(t, l+"ut").Name))
			} else {
				alts = append(alts, model.Str("boolean"))
			}
		default: // rule-set that references a user type
			if !o.NoRefs && len(o.Types) > 0 {
				alts = append(alts, model.Set(model.R("type", model.Str(rapid.SampledFrom(o.Types).Draw(t, l+"ut").Name))))
			} else {
				alts = append(alts, model.Str("null"))
			}
		}
	}
	// the order inside a rule-set is the writer's: `type` need not come first
	for i := range alts {
		if rs := alts[i].Rules; alts[i].K == "set" && len(rs) >= 2 && rapid.Bool().Draw(t, fmt.Sprintf("%srot%d", label, i)) {
			k := rapid.IntRange(1, len(rs)-1).Draw(t, fmt.Sprintf("%srotk%d", label, i))
			alts[i].Rules = append(append([]model.Rule{}, rs[k:]...), rs[:k]...)
		}
	}
	// (the same name twice used to be refused with 1303 - a false recursion alarm, repaired; one case in
	// eight keeps the duplicates so that the repair stays covered)
	if rapid.IntRange(0, 7).Draw(t, label+"keepdups") == 0 {
		return alts
	}
	seen := map[string]bool{}
	var out []model.Val
	for _, a := range alts {
		name := ""
		if a.K == "str" {
			name = a.Str
		} else if len(a.Rules) == 1 && a.Rules[0].Name == "type" && strings.HasPrefix(a.Rules[0].Val.Str, "@") {
			name = a.Rules[0].Val.Str
		}
		if name != "" {
			if seen[name] {
				continue
			}
			seen[name] = true
		}
		out = append(out, a)
	}
	if len(out) < 2 {
		for _, tn := range []string{"boolean", "null", "string"} {
			if !seen[tn] && len(out) < 2 {
				out = append(out, model.Str(tn))
			}
		}
	}
	return out
}

// ---- value trees and projects

type TreeOpts struct {
	Scalar   ScalarOpts
	Depth    int
	RefTypes []string // type names usable as value shortcuts
	KeyType  string   // a string type usable as key shortcut ("" = none)
}

var keyPool = []string{"a", "b", "c", "id", "x y", "k\"q", "é", "@at", "n\nl", "b\\s", "",
	// characters that JSON writes as \u00XX only (Go's own quoting has other spellings for them), DEL, a
	// non-printable astral character, the byte order mark
	"c\x01", "\x00", "bell\a", "v\vt", "esc\x1b[0m", "del\x7f", "tag\U000e0001", "\ufeffbom", "ls\u2028ps\u2029"}

// Tree draws a value tree whose leaves are rule-carrying scalars.
func Tree(t *rapid.T, o TreeOpts, depth int, label string) *model.Node {
	c := rapid.IntRange(0, 9).Draw(t, label+"vk")
	if depth <= 0 && c <= 1 {
		c = 5
	}
	switch {
	case c == 0:
		n := model.Obj()
		cnt := rapid.IntRange(0, 3).Draw(t, label+"nk")
		wide := depth > 0 && rapid.IntRange(0, 29).Draw(t, label+"wideobj") == 0
		if wide {
			// now and then an object of many properties (index structures, buffers and lists change their
			// behaviour at 8, 16, 32, 64 entries)
			cnt = rapid.SampledFrom([]int{8, 9, 10, 16, 17, 33, 65}).Draw(t, label+"widen")
		}
		used := map[string]bool{}
		for i := 0; i < cnt; i++ {
			k := rapid.SampledFrom(keyPool).Draw(t, label+"key")
			if wide {
				k = fmt.Sprintf("w%02d", i)
				n.Add(k, Scalar(t, o.Scalar, fmt.Sprintf("%s.w%d", label, i%3)))
				continue
			}
			if used[k] {
				continue
			}
			used[k] = true
			kid := Tree(t, o, depth-1, fmt.Sprintf("%s.%d", label, i))
			if rapid.IntRange(0, 3).Draw(t, label+"opt") == 0 {
				kid.Rules = append(kid.Rules, model.R("optional", model.Bool(rapid.Bool().Draw(t, label+"optv"))))
			}
			n.Add(k, kid)
		}
		if o.KeyType != "" && rapid.IntRange(0, 4).Draw(t, label+"ksc") == 0 {
			n.AddShortcut(o.KeyType, Tree(t, o, depth-1, label+".ks"))
		}
		if len(n.Kids) == 0 && rapid.IntRange(0, 3).Draw(t, label+"emptyor") == 0 {
			n.Rules = append(n.Rules, containerOr(t, "object", o.Scalar.Satisfied, label))
			return n
		}
		if rapid.IntRange(0, 3).Draw(t, label+"ap") == 0 {
			n.Rules = append(n.Rules, model.R("additionalProperties", rapid.SampledFrom([]model.Val{model.Bool(true), model.Bool(false), model.Str("any"), model.Str("string"), model.Str("integer"), model.Str("float"), model.Str("boolean"), model.Str("null"), model.Str("array"), model.Str("object"), model.Str("email"), model.Str("date"),
				model.Str("decimal"), model.Str("datetime"), model.Str("uri"), model.Str("uuid"), model.Str("enum"), model.Str("mixed")}).Draw(t, label+"apv")))
		}
		return n
	case c == 1:
		n := model.Arr()
		cnt := rapid.IntRange(0, 3).Draw(t, label+"na")
		if depth > 0 && rapid.IntRange(0, 29).Draw(t, label+"widearr") == 0 {
			cnt = rapid.SampledFrom([]int{8, 9, 16, 17, 33, 65}).Draw(t, label+"widean")
			for i := 0; i < cnt; i++ {
				n.Item(Scalar(t, o.Scalar, fmt.Sprintf("%s[w%d]", label, i%3)))
			}
			cnt = -1 // (no item-count rules drawn below for these)
		}
		for i := 0; i < cnt; i++ {
			n.Item(Tree(t, o, depth-1, fmt.Sprintf("%s[%d]", label, i)))
		}
		if cnt < 0 {
			return n
		}
		if cnt == 0 && rapid.IntRange(0, 3).Draw(t, label+"emptyor") == 0 {
			n.Rules = append(n.Rules, containerOr(t, "array", o.Scalar.Satisfied, label))
			return n
		}
		if cnt == 0 {
			// an empty example array admits only zero bounds (documented restriction, error 1204)
			if rapid.IntRange(0, 3).Draw(t, label+"zb") == 0 {
				n.Rules = append(n.Rules, model.R(rapid.SampledFrom([]string{"minItems", "maxItems"}).Draw(t, label+"zbn"), model.Num("0")))
			}
		} else if o.Scalar.Satisfied {
			if rapid.IntRange(0, 2).Draw(t, label+"ai") == 0 {
				n.Rules = append(n.Rules, model.R("minItems", model.Num(fmt.Sprint(max0(cnt-rapid.IntRange(0, 1).Draw(t, label+"lo"))))))
			}
			if rapid.IntRange(0, 2).Draw(t, label+"aj") == 0 {
				n.Rules = append(n.Rules, model.R("maxItems", model.Num(fmt.Sprint(cnt+rapid.IntRange(0, 1).Draw(t, label+"hi")))))
			}
		} else if rapid.IntRange(0, 2).Draw(t, label+"ai") == 0 {
			lo := max0(cnt + rapid.IntRange(-1, 1).Draw(t, label+"lo"))
			n.Rules = append(n.Rules, model.R("minItems", model.Num(fmt.Sprint(lo))))
			if rapid.Bool().Draw(t, label+"hi") {
				hi := lo + rapid.IntRange(0, 1).Draw(t, label+"hiv")
				if cnt == 0 {
					hi = lo
				}
				n.Rules = append(n.Rules, model.R("maxItems", model.Num(fmt.Sprint(hi))))
			}
		} else if rapid.IntRange(0, 4).Draw(t, label+"amax") == 0 {
			n.Rules = append(n.Rules, model.R("maxItems", model.Num(fmt.Sprint(max0(cnt+rapid.IntRange(-1, 1).Draw(t, label+"mx"))))))
		}
		return n
	case c == 2 && len(o.RefTypes) > 0:
		return model.Ref(rapid.SampledFrom(o.RefTypes).Draw(t, label+"ref"))
	case c == 3 && len(o.RefTypes) > 1:
		nms := rapid.SliceOfNDistinct(rapid.SampledFrom(o.RefTypes), 2, 3, func(s string) string { return s }).Draw(t, label+"refs")
		if rapid.IntRange(0, 5).Draw(t, label+"again") == 0 {
			// a name written a second time (legal; what is written is what is reported)
			nms = append(nms, nms[rapid.IntRange(0, len(nms)-1).Draw(t, label+"againidx")])
		}
		n := model.Choice(nms...)
		if rapid.IntRange(0, 4).Draw(t, label+"mixed") == 0 {
			n.Rules = append(n.Rules, model.R("type", model.Str("mixed"))) // what a choice is anyway, written out
		}
		return n
	}
	return Scalar(t, o.Scalar, label)
}

// containerOr: an `or` rule for an empty object / array example ("an object, or a string, ..."): built-in
// names only (user types beside a container example are a structural error), in either form
func containerOr(t *rapid.T, kind string, satisfied bool, label string) model.Rule {
	names := rapid.SliceOfNDistinct(rapid.SampledFrom([]string{"string", "integer", "float", "boolean", "null", "object", "array"}), 1, 2, func(s string) string { return s }).Draw(t, label+"oralts")
	has := false
	for _, x := range names {
		has = has || x == kind
	}
	if !has && (satisfied || rapid.Bool().Draw(t, label+"orown")) {
		names = append(names, kind)
	}
	if len(names) < 2 {
		names = append(names, map[bool]string{true: "null", false: "string"}[names[0] == "string"])
	}
	var items []model.Val
	for i, x := range Permutation(t, len(names), label+"orperm") {
		_ = i
		if rapid.IntRange(0, 2).Draw(t, label+"orset") == 0 {
			items = append(items, model.Set(model.R("type", model.Str(names[x]))))
		} else {
			items = append(items, model.Str(names[x]))
		}
	}
	return model.R("or", model.List(items...))
}

// ProjectOpts steers Project.
type ProjectOpts struct {
	MaxTypes  int  // scalar user types @s0.. (default 3)
	KeyType   bool // may add a string type @key used as key shortcut
	RegexType bool // may add a regex type @re
	Container bool // may add a container type @obj reachable through value shortcuts
	EnumNotes bool // enum rules / inline lists may carry item comments
	Depth     int  // max depth of the root tree (default 3)
	Satisfied bool // every example satisfies its rules (by construction / bounded re-drawing)
}

// Project draws a project of scalar types, optional enum rule and a root tree; examples may or may
// not satisfy their rules (use rules.Evaluate to know).
func Project(t *rapid.T, o ProjectOpts) *model.Project {
	if o.MaxTypes == 0 {
		o.MaxTypes = 3
	}
	if o.Depth == 0 {
		o.Depth = 3
	}
	p := &model.Project{}
	if rapid.IntRange(0, 2).Draw(t, "enumrules") == 0 {
		items := []model.Val{}
		for _, l := range rapid.SliceOfNDistinct(rapid.SampledFrom([]string{`"a"`, `"A"`, `1`, `2.5`, `true`, `null`, `"ab"`, `0`, `"1"`}), 1, 4, func(s string) string { return s }).Draw(t, "enumitems") {
			items = append(items, model.LitVal(l))
		}
		e := model.EnumRule{Name: "@e0", Items: items}
		if o.EnumNotes && rapid.Bool().Draw(t, "enumnotes") {
			for range items {
				e.Notes = append(e.Notes, rapid.SampledFrom([]string{"", "first", "an item"}).Draw(t, "en"))
			}
		}
		if o.EnumNotes && rapid.IntRange(0, 2).Draw(t, "enumbetween") == 0 {
			for i := 0; i <= len(items); i++ {
				e.Between = append(e.Between, rapid.SampledFrom([]string{"", "", "the next ones are special", "-"}).Draw(t, "eb"))
			}
		}
		p.Enums = append(p.Enums, e)
	}
	so := ScalarOpts{Enums: p.Enums, Satisfied: o.Satisfied}
	nt := rapid.IntRange(0, o.MaxTypes).Draw(t, "ntypes")
	for i := 0; i < nt; i++ {
		name := fmt.Sprintf("@s%d", i)
		so.Types = p.Types // earlier types only: no reference cycles
		p.Types = append(p.Types, model.Type{Name: name, Node: Scalar(t, so, name)})
	}
	if o.RegexType && rapid.IntRange(0, 3).Draw(t, "regextype") == 0 {
		p.Types = append(p.Types, model.Type{Name: "@re", Regex: rapid.SampledFrom([]string{"/^a/", "/b$/", `/^[a-z]+$/`, `/\d/`}).Draw(t, "re")})
	}
	so.Types = p.Types
	var refNames []string
	for _, ty := range p.Types {
		refNames = append(refNames, ty.Name)
	}
	to := TreeOpts{Scalar: so, RefTypes: refNames}
	if o.KeyType && rapid.IntRange(0, 2).Draw(t, "keytype") == 0 {
		p.Types = append(p.Types, model.Type{Name: "@key", Node: model.Scalar("string", `"kk"`, model.R("regex", model.Str("^k+$")))})
		to.KeyType = "@key"
	}
	if o.Container && rapid.IntRange(0, 3).Draw(t, "containertype") == 0 {
		p.Types = append(p.Types, model.Type{Name: "@obj", Node: Tree(t, to, 2, "@obj")})
		to.RefTypes = append(to.RefTypes, "@obj")
	}
	p.Root = Tree(t, to, rapid.IntRange(0, o.Depth).Draw(t, "depth"), "root")
	if o.EnumNotes && rapid.IntRange(0, 3).Draw(t, "itemnotes") == 0 {
		p.Root.Walk(func(n *model.Node) {
			for i, r := range n.Rules {
				if r.Name == "enum" && r.Val.K == "list" {
					notes := make([]string, len(r.Val.Items))
					for j := range notes {
						notes[j] = rapid.SampledFrom([]string{"", "c", "the item"}).Draw(t, "inote")
					}
					n.Rules[i].Val.Notes = notes
				}
			}
		})
	}
	return p
}

// Permutation draws a permutation of 0..n-1.
func Permutation(t *rapid.T, n int, label string) []int {
	p := make([]int, n)
	for i := range p {
		p[i] = i
	}
	for i := n - 1; i > 0; i-- {
		j := rapid.IntRange(0, i).Draw(t, label)
		p[i], p[j] = p[j], p[i]
	}
	return p
}

// Respell writes the JSON string literal lit with other escapes: variant 0 as it is, 1 the first character
// as \uXXXX, 2 every `/` as `\/`, 3 the last character as \uXXXX. The denoted string is the same.
func Respell(lit string, variant int) string {
	var str string
	if variant == 0 || json.Unmarshal([]byte(lit), &str) != nil || str == "" {
		return lit
	}
	rs := []rune(str)
	var b strings.Builder
	b.WriteByte('"')
	for i, r := range rs {
		switch {
		case r <= 0xFFFF && ((variant == 1 && i == 0) || (variant == 3 && i == len(rs)-1)):
			fmt.Fprintf(&b, "\\u%04x", r)
		case r == '/' && variant == 2:
			b.WriteString("\\/")
		default:
			q, _ := json.Marshal(string(r))
			b.Write(q[1 : len(q)-1])
		}
	}
	b.WriteByte('"')
	return b.String()
}
