// Package gen holds generators shared by several properties.
package gen

// Shortlex calls fn for every concatenation of 0..maxLen tokens, in order of length and then in
// token order. index is the running number of the string (0-based over the whole enumeration);
// only strings for which mine(index) holds are passed to fn. The byte slice is reused.
func Shortlex(tokens []string, maxLen int, mine func(index int) bool, fn func(s []byte, toks []int)) (total int) {
	buf := make([]byte, 0, 64)
	toks := make([]int, 0, maxLen)
	idx := 0
	var rec func(left int)
	rec = func(left int) {
		if left == 0 {
			if mine(idx) {
				fn(buf, toks)
			}
			idx++
			return
		}
		for i, t := range tokens {
			n := len(buf)
			buf = append(buf, t...)
			toks = append(toks, i)
			rec(left - 1)
			buf = buf[:n]
			toks = toks[:len(toks)-1]
		}
	}
	for l := 0; l <= maxLen; l++ {
		rec(l)
	}
	return idx
}
