package gen

import (
	"fmt"
	"strings"

	"pgregory.net/rapid"

	"verif/internal/ref/jsonv"
)

// JSONOpts selects the domain of generated JSON values.
type JSONOpts struct {
	Exponents bool // numbers may use exponent form
	DupKeys   bool // objects may repeat a key
	Depth     int
}

var strAlpha = []string{"a", "B", "1", " ", "\"", "\\", "/", "\b", "\f", "\n", "\r", "\t", "\u0001", "\u001f", "\u007f", "é", "世", "😀", "@", "#", ".", "-", "{", "}", ":", ","}

var plainNums = []string{"0", "-0", "1", "-1", "12", "0.5", "-0.0010", "123456789012345678901234567890", "1.50", "0.000", "10.01", "9007199254740993", "-0.0", "0.1000000000000000000000001"}
var expNums = []string{"1e5", "1E+2", "0.5e-3", "-2E-0", "0e0", "1.0e+00", "12e012"}

// strEdge: code points at the borders of the UTF-8 lengths and of the UTF-16 surrogate halves (the first and
// the last low half, the first and the last high half), which an escaped spelling has to put together
var strEdge = []string{"\u0080", "\u07ff", "\u0800", "\ud7ff", "\ue000", "\ufffd", "\uffff",
	"\U00010000", "\U00010001", "\U000103ff", "\U00010400", "\U0001f400", "\U0001f3ff", "\U0001f7ff", "\U00020000",
	"\U0010fc00", "\U0010fbff", "\U0010ffff", "\U000ffc00"}

// JSONString draws a string that exercises every escape form.
func JSONString(t *rapid.T, label string) string {
	parts := rapid.SliceOfN(rapid.OneOf(rapid.SampledFrom(strAlpha), rapid.SampledFrom(strAlpha), rapid.SampledFrom(strAlpha), rapid.SampledFrom(strEdge)), 0, 4).Draw(t, label)
	return strings.Join(parts, "")
}

// JSONValue draws a value tree.
func JSONValue(t *rapid.T, o JSONOpts) *jsonv.Value {
	return jsonValue(t, o, o.Depth)
}

func jsonValue(t *rapid.T, o JSONOpts, depth int) *jsonv.Value {
	k := rapid.IntRange(0, 6).Draw(t, "kind")
	if depth <= 0 && k <= 1 {
		k += 2
	}
	switch k {
	case 0:
		n := rapid.IntRange(0, 4).Draw(t, "members")
		wide := depth == o.Depth && rapid.IntRange(0, 15).Draw(t, "wideobj") == 0
		if wide {
			// now and then many members (whatever is indexed, pooled or grown in steps of 8, 16, 32 ...)
			n = rapid.SampledFrom([]int{8, 9, 16, 17, 33, 64, 65, 130}).Draw(t, "widemembers")
		}
		v := &jsonv.Value{Kind: jsonv.Object}
		seen := map[string]bool{}
		for i := 0; i < n; i++ {
			key := JSONString(t, "key")
			if wide {
				key = fmt.Sprintf("%s%d", key, i)
			}
			if seen[key] && !o.DupKeys {
				continue
			}
			seen[key] = true
			v.Keys = append(v.Keys, key)
			v.Vals = append(v.Vals, jsonValue(t, o, depth-1))
		}
		return v
	case 1:
		n := rapid.IntRange(0, 4).Draw(t, "items")
		if depth == o.Depth && rapid.IntRange(0, 15).Draw(t, "widearr") == 0 {
			n = rapid.SampledFrom([]int{8, 9, 16, 17, 33, 64, 65, 130}).Draw(t, "wideitems")
		}
		v := &jsonv.Value{Kind: jsonv.Array}
		for i := 0; i < n; i++ {
			v.Items = append(v.Items, jsonValue(t, o, depth-1))
		}
		return v
	case 2, 3:
		if rapid.IntRange(0, 31).Draw(t, "longstr") == 0 {
			// a long string (buffers of 64 ... 4096 bytes and the lengths just beyond them)
			unit := JSONString(t, "unit") + "x"
			n := rapid.SampledFrom([]int{63, 64, 65, 255, 256, 257, 511, 513, 1023, 1025, 4095, 4097}).Draw(t, "strlen")
			rs := []rune(strings.Repeat(unit, n/len([]rune(unit))+1))
			return &jsonv.Value{Kind: jsonv.String, Str: string(rs[:n])} // (n characters: the byte length varies with the unit)
		}
		return &jsonv.Value{Kind: jsonv.String, Str: JSONString(t, "str")}
	case 4, 5:
		pool := plainNums
		if o.Exponents && rapid.Bool().Draw(t, "exp") {
			pool = expNums
		}
		return &jsonv.Value{Kind: jsonv.Number, Num: rapid.SampledFrom(pool).Draw(t, "num")}
	default:
		switch rapid.IntRange(0, 2).Draw(t, "lit") {
		case 0:
			return &jsonv.Value{Kind: jsonv.Bool, Bool: true}
		case 1:
			return &jsonv.Value{Kind: jsonv.Bool}
		}
		return &jsonv.Value{Kind: jsonv.Null}
	}
}

// EncodeString spells a string literal with randomly chosen (always legal) escape forms.
func EncodeString(t *rapid.T, s string) string {
	var b strings.Builder
	b.WriteByte('"')
	for _, r := range s {
		mode := rapid.IntRange(0, 3).Draw(t, "esc")
		switch {
		case r == '"' || r == '\\':
			if mode == 0 {
				fmt.Fprintf(&b, `\u%04x`, r)
			} else {
				b.WriteByte('\\')
				b.WriteRune(r)
			}
		case r == '/':
			if mode == 0 {
				b.WriteString(`\/`)
			} else {
				b.WriteByte('/')
			}
		case r < 0x20:
			short := map[rune]string{'\n': `\n`, '\t': `\t`, '\r': `\r`, '\b': `\b`, '\f': `\f`}
			if e, ok := short[r]; ok && mode < 2 {
				b.WriteString(e)
			} else if mode == 2 {
				fmt.Fprintf(&b, `\u%04X`, r)
			} else {
				fmt.Fprintf(&b, `\u%04x`, r)
			}
		case r > 0xffff:
			if mode == 0 {
				r1, r2 := (r-0x10000)>>10+0xd800, (r-0x10000)&0x3ff+0xdc00
				fmt.Fprintf(&b, `\u%04x\u%04X`, r1, r2)
			} else {
				b.WriteRune(r)
			}
		case mode == 0:
			fmt.Fprintf(&b, `\u%04X`, r)
		default:
			b.WriteRune(r)
		}
	}
	b.WriteByte('"')
	return b.String()
}

var wsPool = []string{"", "", "", " ", "\n", "\t", "  \n ", "\r\n", "\r", " \t "}

func ws(t *rapid.T) string { return rapid.SampledFrom(wsPool).Draw(t, "ws") }

// EncodeJSON serialises a value with random whitespace and escape spellings.
func EncodeJSON(t *rapid.T, v *jsonv.Value) string {
	switch v.Kind {
	case jsonv.Object:
		var b strings.Builder
		b.WriteString("{" + ws(t))
		for i, k := range v.Keys {
			if i > 0 {
				b.WriteString("," + ws(t))
			}
			b.WriteString(EncodeString(t, k) + ws(t) + ":" + ws(t) + EncodeJSON(t, v.Vals[i]) + ws(t))
		}
		b.WriteString("}")
		return b.String()
	case jsonv.Array:
		var b strings.Builder
		b.WriteString("[" + ws(t))
		for i, k := range v.Items {
			if i > 0 {
				b.WriteString("," + ws(t))
			}
			b.WriteString(EncodeJSON(t, k) + ws(t))
		}
		b.WriteString("]")
		return b.String()
	case jsonv.String:
		return EncodeString(t, v.Str)
	case jsonv.Number:
		return v.Num
	case jsonv.Bool:
		if v.Bool {
			return "true"
		}
		return "false"
	}
	return "null"
}

// EncodeJSONDoc adds leading and trailing whitespace.
func EncodeJSONDoc(t *rapid.T, v *jsonv.Value) string {
	return ws(t) + EncodeJSON(t, v) + ws(t)
}

// Depth returns the nesting depth of a value.
func Depth(v *jsonv.Value) int {
	d := 0
	for _, k := range v.Items {
		if x := Depth(k) + 1; x > d {
			d = x
		}
	}
	for _, k := range v.Vals {
		if x := Depth(k) + 1; x > d {
			d = x
		}
	}
	return d
}

// Mutate applies one byte-level mutation (delete / duplicate / replace / truncate) to a text.
func Mutate(t *rapid.T, s string, alphabet []string) string {
	if len(s) == 0 {
		return rapid.SampledFrom(alphabet).Draw(t, "ins")
	}
	i := rapid.IntRange(0, len(s)-1).Draw(t, "at")
	switch rapid.IntRange(0, 4).Draw(t, "mut") {
	case 0:
		return s[:i] + s[i+1:]
	case 1:
		return s[:i+1] + s[i:]
	case 2:
		return s[:i] + rapid.SampledFrom(alphabet).Draw(t, "rep") + s[i+1:]
	case 3:
		return s[:i]
	default:
		return s[:i] + rapid.SampledFrom(alphabet).Draw(t, "ins") + s[i:]
	}
}
