package gen

import (
	"pgregory.net/rapid"

	"verif/internal/model"
)

// LayoutOpts restricts layout features.
type LayoutOpts struct {
	NoEmptyComments bool
	NoBreakColon    bool
	Esc             int // 0: strings as written; 1: type names may be spelled with an escape; 2: any string of a rule value / quoted rule name may
}

// Layout draws a random layout.
func Layout(t *rapid.T, o LayoutOpts) *model.Layout {
	l := &model.Layout{
		NL:         rapid.SampledFrom([]string{"\n", "\n", "\r\n", "\r"}).Draw(t, "nl"),
		Annot:      rapid.IntRange(0, 3).Draw(t, "annot"),
		Quote:      rapid.IntRange(0, 2).Draw(t, "quote"),
		Pad:        rapid.IntRange(0, 2).Draw(t, "pad"),
		Lead:       rapid.SampledFrom([]int{0, 0, 1, 2}).Draw(t, "lead"),
		Trail:      rapid.SampledFrom([]int{0, 0, 1, 2}).Draw(t, "trail"),
		TrailComma: rapid.IntRange(0, 3).Draw(t, "trailcomma") == 0,
		Comments:   rapid.SampledFrom([]int{0, 0, 1, 2, 3, 4}).Draw(t, "comments"),
		Compact:    rapid.Bool().Draw(t, "compact"),
		LineIndent: rapid.SampledFrom([]int{0, 0, 2, 3}).Draw(t, "lineindent"),
		LineTail:   rapid.SampledFrom([]int{0, 0, 1, 2}).Draw(t, "linetail"),
		Seq:        rapid.SliceOfN(rapid.IntRange(0, 11), 6, 24).Draw(t, "seq"),
	}
	if !o.NoEmptyComments && l.Comments != 0 {
		l.EmptyComments = rapid.IntRange(0, 3).Draw(t, "emptycomments") == 0
	}
	if o.Esc > 0 {
		// (not a difference "in presentation only" in the sense of C14: drawn for the checks that name it)
		l.Esc = rapid.SampledFrom([]int{0, 0, 1, o.Esc}).Draw(t, "esc")
	}
	if !o.NoBreakColon {
		l.BreakColon = rapid.Bool().Draw(t, "breakcolon")
	}
	return l
}
