package gen

import (
	"strings"

	"pgregory.net/rapid"

	"verif/internal/sut"
)

// TypeForms are texts of user types / roots with placeholders %a and %b for type names; together
// they reach every reference position.
var TypeForms = []string{
	"%a", "%a | %b", "%a | %a", "{%a: %b}", "{\"k\": %a}", "{\"k\": %a // {optional: true}\n}", "[%a]", "[%a, %b]",
	"1 // {type: \"%a\"}", "\"s\" // {type: \"%a\"}", "1 // {or: [\"%a\", \"%b\"]}", "1 // {or: [{type: \"%a\"}, \"string\"]}", "1 // {or: [{type: \"%a\", nullable: true}, {type: \"%b\"}]}",
	"\"x\" // {or: [{type: \"%a\", nullable: true}, {type: \"string\"}]}",
	"{} // {allOf: \"%a\"}", "{ // {allOf: [\"%a\", \"%b\"]}\n  \"own\": 1\n}", "{} // {additionalProperties: \"%a\"}", "{ // {additionalProperties: \"%a\"}\n  %b: 1\n}",
	"1", "\"kk\"", "{}", "[]", "null", "{\"a\": {\"b\": [%a]}}", "1 // {enum: @e}", "1 // {enum: %a}", "%a // {nullable: true}", "%a // {type: \"%b\"}", "%a // {or: [\"%b\"]}",
	"{\"k\": %a | %b // {optional: true}\n}", "", " ", "# only a comment", "/^k+$/", "/a^b/", "/\\Bk/",
	// several rule-sets that each name a type beside a further rule (kept as unnamed types)
	"1 // {or: [{type: \"%a\", nullable: true}, {type: \"%b\", nullable: true}]}", "\"kk\" // {or: [{type: \"%b\", nullable: true}, {type: \"@c\", nullable: false}, {type: \"%a\", nullable: true}]}",
	// empty containers that are "this or something else" (they can be referred to, inherited from, listed)
	"{} // {or: [{type: \"object\"}, \"string\"]}", "{} // {or: [\"object\", \"%a\"]}", "[] // {or: [{type: \"array\"}, \"integer\"]}", "{} // {type: \"any\"}",
}

// GraphNames are the names the forms are filled with (one of them is never registered).
var GraphNames = []string{"@main", "@a", "@b", "@c", "@missing"}

// GraphProject draws a project of 1-4 types with an arbitrary reference graph: self loops, mutual
// loops, choices naming themselves, key shortcuts to choices, missing types, types registered under
// another file name, self-registered roots, broken enum rules.
func GraphProject(t *rapid.T) *sut.Project {
	nt := rapid.IntRange(1, 4).Draw(t, "ntypes")
	mk := func(label string) string {
		f := rapid.SampledFrom(TypeForms).Draw(t, label+"form")
		a := rapid.SampledFrom(GraphNames).Draw(t, label+"a")
		b := rapid.SampledFrom(GraphNames).Draw(t, label+"b")
		return strings.ReplaceAll(strings.ReplaceAll(f, "%a", a), "%b", b)
	}
	p := &sut.Project{Root: mk("root"), Self: rapid.IntRange(0, 2).Draw(t, "self") != 0}
	for i := 0; i < nt; i++ {
		name := GraphNames[1+i%3]
		n := sut.Named{Name: name, Text: mk(name)}
		if strings.HasPrefix(n.Text, "/") && rapid.Bool().Draw(t, name+"asregex") {
			n.Regex = true
		}
		switch rapid.IntRange(0, 9).Draw(t, name+"file") {
		case 0:
			n.File = "@other" // registered under a name different from its file name
		case 1:
			n.File = "@main"
		}
		p.Types = append(p.Types, n)
	}
	if rapid.IntRange(0, 3).Draw(t, "rule") == 0 {
		p.Rules = append(p.Rules, sut.Named{Name: "@e", Text: rapid.SampledFrom([]string{"[1, 2]", "[\"kk\"]", "[", "", "[1] /* x *"}).Draw(t, "ruletext")})
	}
	return p
}
