// Package model is a small abstract syntax of JSight schema projects (root schema, named types,
// named enum rules) together with a printer that spells a model under many legal layouts.
// Generators build models by construction; oracles read expectations off the model, never off the
// library under test.
package model

import (
	"strings"

	"verif/internal/ref/jsonv"
	"verif/internal/sut"
)

// Val is the value of a rule.
type Val struct {
	K     string   `json:"k"`               // num | bool | null | str | rule (bare @name of an enum rule) | list | set
	Lit   string   `json:"lit,omitempty"`   // literal text for num/bool/null, the name for rule
	Str   string   `json:"str,omitempty"`   // decoded string
	Items []Val    `json:"items,omitempty"` // list items
	Notes []string `json:"notes,omitempty"` // per-item comments of an enum list ("" = none)
	Rules []Rule   `json:"rules,omitempty"` // rule-set
}

type Rule struct {
	Name string `json:"name"`
	Val  Val    `json:"val"`
}

type Key struct {
	Name     string `json:"name"` // decoded key, or the type name for a shortcut
	Shortcut bool   `json:"shortcut,omitempty"`
}

// Node is one example element.
type Node struct {
	Kind  string   `json:"kind"`           // object array string integer float boolean null ref choice
	Lit   string   `json:"lit,omitempty"`  // literal text of a scalar as written
	Refs  []string `json:"refs,omitempty"` // ref: one name; choice: two or more
	Rules []Rule   `json:"rules,omitempty"`
	Note  string   `json:"note,omitempty"`
	Keys  []Key    `json:"keys,omitempty"`
	Kids  []*Node  `json:"kids,omitempty"`
}

type Type struct {
	Name  string `json:"name"`
	Node  *Node  `json:"node,omitempty"`
	Regex string `json:"regex,omitempty"` // a regex schema text instead of a node
}

type EnumRule struct {
	Name  string   `json:"name"`
	Items []Val    `json:"items"`
	Notes []string `json:"notes,omitempty"`
	// Between[i]: a comment on a line of its own before item i ("" = none); one more entry may
	// follow for a comment after the last item
	Between []string `json:"between,omitempty"`
}

type Project struct {
	Root     *Node      `json:"root"`
	Types    []Type     `json:"types,omitempty"` // definition order
	Enums    []EnumRule `json:"enums,omitempty"`
	Withheld []string   `json:"withheld,omitempty"` // defined but not registered
	Order    []int      `json:"order,omitempty"`    // registration order as a permutation of the registered types (nil = definition order)
	Self     bool       `json:"self,omitempty"`     // register the root under @main in itself
}

// ---- constructors

func Num(lit string) Val { return Val{K: "num", Lit: lit} }
func Bool(b bool) Val {
	if b {
		return Val{K: "bool", Lit: "true"}
	}
	return Val{K: "bool", Lit: "false"}
}
func Str(s string) Val          { return Val{K: "str", Str: s} }
func RuleRef(name string) Val   { return Val{K: "rule", Lit: name} }
func List(items ...Val) Val     { return Val{K: "list", Items: items} }
func Set(rules ...Rule) Val     { return Val{K: "set", Rules: rules} }
func R(name string, v Val) Rule { return Rule{Name: name, Val: v} }

// LitVal turns a scalar literal text into a Val.
func LitVal(lit string) Val {
	switch {
	case strings.HasPrefix(lit, `"`):
		s, _ := jsonv.Unquote(lit)
		return Str(s)
	case lit == "true" || lit == "false":
		return Val{K: "bool", Lit: lit}
	case lit == "null":
		return Val{K: "null", Lit: "null"}
	}
	return Num(lit)
}

func Scalar(kind, lit string, rules ...Rule) *Node { return &Node{Kind: kind, Lit: lit, Rules: rules} }
func Ref(name string, rules ...Rule) *Node {
	return &Node{Kind: "ref", Refs: []string{name}, Rules: rules}
}
func Choice(names ...string) *Node { return &Node{Kind: "choice", Refs: names} }

func Obj(rules ...Rule) *Node { return &Node{Kind: "object", Rules: rules} }
func Arr(rules ...Rule) *Node { return &Node{Kind: "array", Rules: rules} }

func (n *Node) Add(key string, kid *Node) *Node {
	n.Keys = append(n.Keys, Key{Name: key})
	n.Kids = append(n.Kids, kid)
	return n
}

func (n *Node) AddShortcut(typeName string, kid *Node) *Node {
	n.Keys = append(n.Keys, Key{Name: typeName, Shortcut: true})
	n.Kids = append(n.Kids, kid)
	return n
}

func (n *Node) Item(kid *Node) *Node {
	n.Kids = append(n.Kids, kid)
	return n
}

// Rule returns the named rule of a node.
func (n *Node) Rule(name string) (Val, bool) {
	for _, r := range n.Rules {
		if r.Name == name {
			return r.Val, true
		}
	}
	return Val{}, false
}

func (n *Node) HasRule(name string) bool { _, ok := n.Rule(name); return ok }

// Walk visits every node.
func (n *Node) Walk(fn func(*Node)) {
	if n == nil {
		return
	}
	fn(n)
	for _, k := range n.Kids {
		k.Walk(fn)
	}
}

// Clone makes a deep copy.
func (n *Node) Clone() *Node {
	if n == nil {
		return nil
	}
	c := *n
	c.Refs = append([]string(nil), n.Refs...)
	c.Rules = cloneRules(n.Rules)
	c.Keys = append([]Key(nil), n.Keys...)
	c.Kids = make([]*Node, len(n.Kids))
	for i, k := range n.Kids {
		c.Kids[i] = k.Clone()
	}
	if len(c.Kids) == 0 {
		c.Kids = nil
	}
	return &c
}

func cloneRules(rr []Rule) []Rule {
	if rr == nil {
		return nil
	}
	out := make([]Rule, len(rr))
	for i, r := range rr {
		out[i] = Rule{Name: r.Name, Val: cloneVal(r.Val)}
	}
	return out
}

func cloneVal(v Val) Val {
	c := v
	if v.Items != nil {
		c.Items = make([]Val, len(v.Items))
		for i, it := range v.Items {
			c.Items[i] = cloneVal(it)
		}
	}
	c.Notes = append([]string(nil), v.Notes...)
	c.Rules = cloneRules(v.Rules)
	return c
}

func (p *Project) Clone() *Project {
	c := *p
	c.Root = p.Root.Clone()
	c.Types = make([]Type, len(p.Types))
	for i, t := range p.Types {
		c.Types[i] = Type{Name: t.Name, Node: t.Node.Clone(), Regex: t.Regex}
	}
	c.Enums = append([]EnumRule(nil), p.Enums...)
	c.Withheld = append([]string(nil), p.Withheld...)
	c.Order = append([]int(nil), p.Order...)
	return &c
}

// Type returns the definition of a type.
func (p *Project) Type(name string) *Type {
	for i := range p.Types {
		if p.Types[i].Name == name {
			return &p.Types[i]
		}
	}
	return nil
}

func (p *Project) IsWithheld(name string) bool {
	for _, w := range p.Withheld {
		if w == name {
			return true
		}
	}
	return false
}

// Registered lists the registered types in registration order.
func (p *Project) Registered() []Type {
	var reg []Type
	for _, t := range p.Types {
		if !p.IsWithheld(t.Name) {
			reg = append(reg, t)
		}
	}
	if len(p.Order) == len(reg) {
		out := make([]Type, 0, len(reg))
		ok := true
		seen := map[int]bool{}
		for _, i := range p.Order {
			if i < 0 || i >= len(reg) || seen[i] {
				ok = false
				break
			}
			seen[i] = true
			out = append(out, reg[i])
		}
		if ok {
			return out
		}
	}
	return reg
}

// Text renders a project into the textual form the library is fed with.
func (p *Project) Text(lay *Layout) sut.Project {
	if lay == nil {
		lay = &Layout{}
	}
	sp := sut.Project{Root: Print(p.Root, lay), Self: p.Self}
	for _, e := range p.Enums {
		sp.Rules = append(sp.Rules, sut.Named{Name: e.Name, Text: PrintEnumRule(e, lay)})
	}
	for _, t := range p.Registered() {
		if t.Regex != "" {
			sp.Types = append(sp.Types, sut.Named{Name: t.Name, Text: t.Regex, Regex: true})
		} else {
			sp.Types = append(sp.Types, sut.Named{Name: t.Name, Text: Print(t.Node, lay)})
		}
	}
	return sp
}

// KindOfLit classifies a literal text.
func KindOfLit(lit string) string {
	switch {
	case strings.HasPrefix(lit, `"`):
		return "string"
	case lit == "true" || lit == "false":
		return "boolean"
	case lit == "null":
		return "null"
	case strings.HasPrefix(lit, "@"):
		return "ref"
	case strings.Contains(lit, "."):
		return "float"
	}
	return "integer"
}
