package model

import (
	"fmt"
	"strings"

	"verif/internal/ref/jsonv"
)

// Layout selects one of the many legal spellings of a model. The zero value is the canonical
// layout: LF, two-space indent, `// {name: value} - note` annotations, bare rule names, one blank
// between tokens, one element per line.
type Layout struct {
	NL            string `json:"nl,omitempty"`             // "\n" (default), "\r\n", "\r"
	Annot         int    `json:"annot,omitempty"`          // 0 `//`; 1 `/* */` on one line; 2 `/* */` with line breaks inside; 3 varies per node
	Quote         int    `json:"quote,omitempty"`          // 0 bare rule names; 1 quoted; 2 varies per rule
	Pad           int    `json:"pad,omitempty"`            // 0 canonical; 1 minimal blanks; 2 extra spaces/tabs varying per position
	Lead          int    `json:"lead,omitempty"`           // blank lines before
	Trail         int    `json:"trail,omitempty"`          // blank lines after
	TrailComma    bool   `json:"trail_comma,omitempty"`    // `{min: 1,}` inside rule objects
	Comments      int    `json:"comments,omitempty"`       // 0 none; 1 `# c` at line ends; 2 own-line `# c`; 3 `###` blocks on own lines; 4 all of them
	EmptyComments bool   `json:"empty_comments,omitempty"` // also `#` with nothing behind it
	Compact       bool   `json:"compact,omitempty"`        // containers without annotated elements on one line
	BreakColon    bool   `json:"break_colon,omitempty"`    // with Annot 2: also break between a rule name's colon and its value
	LineIndent    int    `json:"line_indent,omitempty"`    // extra blanks at line starts (0..3)
	LineTail      int    `json:"line_tail,omitempty"`      // extra blanks at line ends (0..2)
	Esc           int    `json:"esc,omitempty"`            // 0 strings of rule values as written; 1 one character of every type name ("@x") spelled \uXXXX; 2 now and then one character of any string of a rule value or of a quoted rule name
	Seq           []int  `json:"seq,omitempty"`            // stream of small integers for the per-position choices
}

type printer struct {
	lay *Layout
	pos int
}

func (p *printer) next(n int) int {
	if len(p.lay.Seq) == 0 || n <= 1 {
		return 0
	}
	v := p.lay.Seq[p.pos%len(p.lay.Seq)]
	p.pos++
	if v < 0 {
		v = -v
	}
	return v % n
}

func (p *printer) nl() string {
	if p.lay.NL == "" {
		return "\n"
	}
	return p.lay.NL
}

// sp: an optional blank position
func (p *printer) sp() string {
	switch p.lay.Pad {
	case 1:
		return ""
	case 2:
		return []string{"", " ", "  ", "\t", " \t "}[p.next(5)]
	}
	return " "
}

// sp0: a position that is empty in the canonical layout (before ',' or ':')
func (p *printer) sp0() string {
	if p.lay.Pad == 2 {
		return []string{"", "", " ", "\t"}[p.next(4)]
	}
	return ""
}

// sp1: a blank that must not vanish
func (p *printer) sp1() string {
	if p.lay.Pad == 2 {
		return []string{" ", "  ", "\t", " \t"}[p.next(4)]
	}
	return " "
}

// name prints a rule name and the blanks up to its colon. After a bare name only spaces are used:
// the scanner explicitly refuses control characters (incl. TAB) there with its own error message
// ("Invalid character in the object key"), so that spelling is not a legal layout.
func (p *printer) name(n string) string {
	q := p.lay.Quote == 1 || (p.lay.Quote == 2 && p.next(2) == 1)
	if q {
		if p.lay.Esc == 2 && p.next(3) == 0 {
			return escOne(n, p.next(len(n)), p.next(2) == 0) + p.sp0()
		}
		return `"` + n + `"` + p.sp0()
	}
	if p.lay.Pad == 2 {
		return n + []string{"", "", " ", "  "}[p.next(4)]
	}
	return n
}

// escOne spells the string with one of its ASCII letters, digits or '@' (the k-th, counted cyclically) as a
// \uXXXX escape - the same JSON string, written differently. Strings without such a character stay as they are.
func escOne(s string, k int, upper bool) string {
	var at []int
	for i := 0; i < len(s); i++ {
		c := s[i]
		if c == '@' || c >= '0' && c <= '9' || c >= 'a' && c <= 'z' || c >= 'A' && c <= 'Z' {
			at = append(at, i)
		}
	}
	if len(at) == 0 {
		return jsonv.Quote(s)
	}
	i := at[k%len(at)]
	f := `\u%04x`
	if upper {
		f = `\u%04X`
	}
	head, tail := jsonv.Quote(s[:i]), jsonv.Quote(s[i+1:])
	return head[:len(head)-1] + fmt.Sprintf(f, s[i]) + tail[1:]
}

// val prints a rule value on one line; brk is the separator after commas of the top-level list /
// rule-set when the annotation may span lines.
func (p *printer) val(v Val, ml bool) string {
	switch v.K {
	case "str":
		if (p.lay.Esc == 1 && strings.HasPrefix(v.Str, "@")) || (p.lay.Esc == 2 && p.next(3) == 0) {
			return escOne(v.Str, p.next(len(v.Str)+1), p.next(2) == 0)
		}
		return jsonv.Quote(v.Str)
	case "num", "bool", "null", "rule":
		return v.Lit
	case "list":
		hasNotes := false
		for _, n := range v.Notes {
			if n != "" {
				hasNotes = true
			}
		}
		if hasNotes && ml {
			// per-item comments need one item per line
			var b strings.Builder
			b.WriteString("[" + p.nl())
			for i, it := range v.Items {
				b.WriteString("    " + p.val(it, false))
				if i != len(v.Items)-1 {
					b.WriteString(p.sp0() + ",")
				}
				if i < len(v.Notes) && v.Notes[i] != "" {
					b.WriteString(p.sp1() + "//" + p.sp() + v.Notes[i])
				}
				b.WriteString(p.nl())
			}
			b.WriteString("  ]")
			return b.String()
		}
		parts := make([]string, len(v.Items))
		for i, it := range v.Items {
			parts[i] = p.val(it, false)
		}
		return "[" + p.join(parts, ml) + "]"
	case "set":
		return p.ruleObject(v.Rules, false)
	}
	return "?"
}

func (p *printer) join(parts []string, ml bool) string {
	var b strings.Builder
	for i, s := range parts {
		if i > 0 {
			b.WriteString(p.sp0() + ",")
			if ml && p.next(3) == 0 {
				b.WriteString(p.nl() + "   ")
			} else {
				b.WriteString(p.sp())
			}
		}
		b.WriteString(s)
	}
	return b.String()
}

func (p *printer) ruleObject(rules []Rule, ml bool) string {
	var b strings.Builder
	b.WriteString("{")
	brk := func() {
		if ml && p.next(2) == 0 {
			b.WriteString(p.nl() + "  ")
		} else if p.lay.Pad == 2 {
			b.WriteString(p.sp())
		}
	}
	brk()
	for i, r := range rules {
		if i > 0 {
			b.WriteString(p.sp0() + ",")
			if ml && p.next(2) == 0 {
				b.WriteString(p.nl() + "  ")
			} else {
				b.WriteString(p.sp())
			}
		}
		b.WriteString(p.name(r.Name) + ":")
		if ml && p.lay.BreakColon && p.next(3) == 0 {
			b.WriteString(p.nl() + "    ")
		} else {
			b.WriteString(p.sp())
		}
		b.WriteString(p.val(r.Val, ml))
	}
	if p.lay.TrailComma && len(rules) > 0 {
		b.WriteString(",")
	}
	brk()
	b.WriteString("}")
	return b.String()
}

func needsMultiLine(rules []Rule) bool {
	for _, r := range rules {
		for _, n := range r.Val.Notes {
			if n != "" {
				return true
			}
		}
	}
	return false
}

// annotation returns the text that follows the example on its line ("" if there is none).
func (p *printer) annotation(n *Node) string {
	if len(n.Rules) == 0 && n.Note == "" {
		return ""
	}
	style := p.lay.Annot
	if style == 3 {
		style = p.next(3)
	}
	if needsMultiLine(n.Rules) || strings.ContainsAny(n.Note, "\n\r") {
		style = 2
	}
	ml := style == 2
	var body strings.Builder
	if len(n.Rules) > 0 {
		body.WriteString(p.ruleObject(n.Rules, ml))
		if n.Note != "" {
			if ml && p.next(3) == 0 {
				// the dash ends its line, the note starts on the next one
				body.WriteString(p.sp1() + "-" + p.sp() + p.nl() + "   ")
			} else {
				body.WriteString(p.sp1() + "-" + p.sp1())
			}
		}
	}
	note := n.Note
	if ml && note != "" && strings.Contains(note, " ") && p.next(2) == 0 {
		// a multi-line annotation may break its note over lines
		i := strings.Index(note, " ")
		note = note[:i] + p.nl() + "   " + note[i+1:]
	}
	body.WriteString(note)
	if style == 0 {
		return p.sp1() + "//" + p.sp() + body.String()
	}
	open, end := "/*"+p.sp(), p.sp()+"*/"
	if ml && p.next(2) == 0 {
		open = "/*" + p.nl() + "  "
		end = p.nl() + "*/"
	}
	return p.sp1() + open + body.String() + end
}

type line struct {
	text    string
	comment bool // an own-line comment
}

func (p *printer) hasAnnot(n *Node) bool { return len(n.Rules) > 0 || n.Note != "" }

func (p *printer) head(n *Node) string {
	switch n.Kind {
	case "ref":
		return n.Refs[0]
	case "choice":
		var b strings.Builder
		for i, r := range n.Refs {
			if i > 0 {
				b.WriteString(p.sp() + "|" + p.sp())
			}
			b.WriteString(r)
		}
		return b.String()
	}
	return n.Lit
}

// compactable: a container all of whose descendants carry no annotation
func compactable(n *Node) bool {
	ok := true
	first := true
	n.Walk(func(k *Node) {
		if first {
			first = false
			return
		}
		if len(k.Rules) > 0 || k.Note != "" {
			ok = false
		}
	})
	return ok
}

func (p *printer) compact(n *Node) string {
	switch n.Kind {
	case "object":
		var parts []string
		for i, k := range n.Kids {
			parts = append(parts, p.key(n.Keys[i])+p.sp0()+":"+p.sp()+p.compact(k))
		}
		return "{" + p.join(parts, false) + "}"
	case "array":
		var parts []string
		for _, k := range n.Kids {
			parts = append(parts, p.compact(k))
		}
		return "[" + p.join(parts, false) + "]"
	}
	return p.head(n)
}

func (p *printer) key(k Key) string {
	if k.Shortcut {
		return k.Name
	}
	return jsonv.Quote(k.Name)
}

func (p *printer) node(n *Node, indent, prefix, comma string, out *[]line) {
	emit := func(s string) { *out = append(*out, line{text: s}) }
	isContainer := n.Kind == "object" || n.Kind == "array"
	if isContainer && len(n.Kids) > 0 {
		open, end := "{", "}"
		if n.Kind == "array" {
			open, end = "[", "]"
		}
		if p.lay.Compact && compactable(n) && p.next(2) == 0 {
			// one-line container: an annotation on such a line attaches to the last element on it, not
			// to the container, so only a container without any annotation is printed this way
			if !p.hasAnnot(n) {
				emit(indent + prefix + p.compact(n) + comma)
				return
			}
		}
		emit(indent + prefix + open + p.annotation(n))
		for i, k := range n.Kids {
			c := p.sp0() + ","
			if i == len(n.Kids)-1 {
				c = ""
			}
			kp := ""
			if n.Kind == "object" {
				kp = p.key(n.Keys[i]) + p.sp0() + ":" + p.sp()
			}
			p.node(k, indent+"  ", kp, c, out)
		}
		emit(indent + end + comma)
		return
	}
	if isContainer {
		inner := ""
		if p.lay.Pad == 2 {
			inner = []string{"", "", " ", "  ", "\t"}[p.next(5)]
		}
		txt := "{" + inner + "}"
		if n.Kind == "array" {
			txt = "[" + inner + "]"
		}
		emit(indent + prefix + txt + comma + p.annotation(n))
		return
	}
	emit(indent + prefix + p.head(n) + comma + p.annotation(n))
}

var commentTexts = []string{"c", "a comment", "{not: \"a rule\"}", "// not an annotation", "[1, 2]", "\"quoted\"", "@ref | @other", "é ✓"}

func (p *printer) comment() string {
	if p.lay.EmptyComments && p.next(4) == 0 {
		return "#"
	}
	return "#" + p.sp() + commentTexts[p.next(len(commentTexts))]
}

// Print spells a schema node under a layout.
func Print(n *Node, lay *Layout) string {
	if lay == nil {
		lay = &Layout{}
	}
	p := &printer{lay: lay}
	var lines []line
	p.node(n, "", "", "", &lines)
	return p.assemble(lines)
}

func (p *printer) assemble(lines []line) string {
	nl := p.nl()
	var b strings.Builder
	for i := 0; i < p.lay.Lead; i++ {
		b.WriteString(strings.Repeat(" ", p.next(3)) + nl)
	}
	c := p.lay.Comments
	for i, l := range lines {
		if (c == 2 || c == 4) && p.next(3) == 0 {
			b.WriteString(strings.Repeat(" ", p.next(4)) + p.comment() + nl)
		}
		if (c == 3 || c == 4) && p.next(4) == 0 {
			b.WriteString("###" + nl + "a block" + nl + "{\"of\": text} // {min: 1}" + nl + "###" + nl)
		}
		text := l.text
		if p.lay.LineIndent > 0 {
			text = strings.Repeat(" ", p.next(p.lay.LineIndent+1)) + text
		}
		// a line-end comment is not legal inside a multi-line annotation, so only lines that do not
		// sit inside one get it; a line containing a line break is a multi-line annotation
		if (c == 1 || c == 4) && !strings.ContainsAny(l.text, "\r\n") && p.next(3) == 0 {
			text += p.sp1() + p.comment()
		}
		if p.lay.LineTail > 0 {
			text += strings.Repeat(" ", p.next(p.lay.LineTail+1))
		}
		b.WriteString(text)
		if i != len(lines)-1 {
			b.WriteString(nl)
		}
	}
	for i := 0; i < p.lay.Trail; i++ {
		b.WriteString(nl + strings.Repeat(" ", p.next(3)))
	}
	return b.String()
}

// PrintEnumRule spells a named enum rule file.
func PrintEnumRule(e EnumRule, lay *Layout) string {
	if lay == nil {
		lay = &Layout{}
	}
	p := &printer{lay: lay}
	nl := p.nl()
	hasNotes := false
	for _, n := range e.Notes {
		if n != "" {
			hasNotes = true
		}
	}
	parts := make([]string, len(e.Items))
	for i, it := range e.Items {
		parts[i] = p.val(it, false)
	}
	for _, n := range e.Between {
		if n != "" {
			hasNotes = true
		}
	}
	if !hasNotes && lay.Compact {
		return "[" + p.join(parts, false) + "]"
	}
	var b strings.Builder
	b.WriteString("[" + nl)
	for i, s := range parts {
		if i < len(e.Between) && e.Between[i] != "" {
			b.WriteString("  // " + e.Between[i] + nl)
		}
		b.WriteString("  " + s)
		if i != len(parts)-1 {
			b.WriteString(",")
		}
		if i < len(e.Notes) && e.Notes[i] != "" {
			b.WriteString(" // " + e.Notes[i])
		}
		b.WriteString(nl)
	}
	if len(e.Between) > len(parts) && e.Between[len(parts)] != "" {
		b.WriteString("  // " + e.Between[len(parts)] + nl)
	}
	b.WriteString("]")
	return b.String()
}
