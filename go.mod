module verif

go 1.23

require (
	github.com/jsightapi/jsight-schema-core v0.0.0
	pgregory.net/rapid v1.3.0
)

require github.com/lucasjones/reggen v0.0.0-20200904144131-37ba4fa293bb // indirect

replace github.com/jsightapi/jsight-schema-core => /repo
